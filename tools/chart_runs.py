"""chart_runs.py -- the shared case set of the chart-semantics properties (C01, C02, C03, C07, C13)
and its execution on the implementation (both engines) and on the models (Large model, Spec).
Results are cached under .build/cache keyed by the driver binaries, seed and tier, so that the
checks, which are invoked one after the other, do not repeat the same executions."""
import hashlib, itertools, json, os, pickle, random, sys
from vlib import *
from chart_common import *
import chartgen as G


def small_exhaustive(nprop, cap, rng):
    """all trees with exactly nprop proper states (no pseudo-states) x every pair of transitions from the menu
    {source} x {e, f, eventless} x {no target, each state} x {external, internal}; deterministic sample of `cap`"""
    out = []
    for shape in G.shapes(nprop):
        base = G.build(shape)
        props = G.proper_states(base)
        sids = [n['sid'] for n in props]
        srcs = [n['sid'] for n in props if n['kind'] != 'final']
        menu = []
        for s in srcs:
            for ev in (b'e', b'f', None):
                for tg in [None] + [[x] for x in sids]:
                    for internal in ((False, True) if tg else (False,)):
                        menu.append((s, ev, tg, internal))
        for t1 in menu:
            for t2 in menu:
                out.append((shape, t1, t2))
    total = len(out)
    if total > cap:
        step = total / float(cap)
        out = [out[int(i * step)] for i in range(cap)]
    charts = []
    for shape, t1, t2 in out:
        tree = G.build(shape)
        byid = {n['sid']: n for n in G.walk(tree)}
        vid = 100
        for (s, ev, tg, internal) in (t1, t2):
            vid += 1
            byid[s]['trans'].append(G.trans(vid, ev, None, tg, internal, [('raise', vid + 50, b'f')] if (vid % 2 == 0) else []))
        charts.append(tree)
    return charts, total


REGION_MENU = ['A', 'B', 'C', 'D', 'E', 'F']   # see region_family
DESCS = [b'e', b'f', b'e f']


def region_family():
    """<parallel> with three regions, one transition per region, and a state outside (before or after the
    parallel).  Region options: A atomic/target-less, B atomic/self, C atomic/to the outside state,
    D two children/first to second, E two children/first to the outside state, F single child/self.
    Each transition listens to e, f or both.  The family is the cross product (2 * 18^3 charts): it holds
    the situations in which the large engine's lazily filled compatible/conflicting caches and the fast
    engine's conflict matrix decide differently depending on which pairs were compared before."""
    N, T = G.node, G.trans
    out = []
    for out_first in (False, True):
        for combo in itertools.product(range(18), repeat=3):
            sid = [3]
            regions = []
            vid = 100
            OUT = 1 if out_first else 2
            P = 2 if out_first else 1
            for k in combo:
                opt, desc = REGION_MENU[k // 3], DESCS[k % 3]
                vid += 1
                r = sid[0]
                if opt in 'ABC':
                    tg = {'A': None, 'B': [r], 'C': [OUT]}[opt]
                    regions.append(N('state', r, trans=[T(vid, desc, None, tg)]))
                    sid[0] += 1
                elif opt in 'DE':
                    tg = [r + 2] if opt == 'D' else [OUT]
                    regions.append(N('state', r, [N('state', r + 1, trans=[T(vid, desc, None, tg)]), N('state', r + 2)]))
                    sid[0] += 3
                else:
                    regions.append(N('state', r, [N('state', r + 1, trans=[T(vid, desc, None, [r + 1])])]))
                    sid[0] += 2
            par = N('parallel', P, regions)
            outs = N('state', OUT, trans=[T(99, b'back', None, [P])])
            out.append(N('scxml', 0, [outs, par] if out_first else [par, outs], init=[P]))
    return out


REGION_WORDS = [[b'e', b'f'], [b'f', b'e'], [b'e', b'f', b'back', b'f'], [b'f', b'f', b'e'], [b'e', b'back', b'e', b'f']]


def done_family(hist=None):
    """<parallel> (optionally nested in a region of another <parallel>) whose regions reach <final> children on
    events, with or without a transition on its done.state event and with a second outer region that is busy, final
    or finishing on the same event: the situations in which the engines decide `all regions are final`.
    hist = 'hs' | 'hd': the inner <parallel> additionally owns a <history> child (its type byte in the generated tables then
    carries the has-history flag)"""
    N, T = G.node, G.trans
    out = []
    for nested in (False, True):
        for o2final in (False, True):
            for ondone in (False, True):
                for ev2 in (b'f', b'e'):
                    for ev3 in (b'g', b'e'):
                        inner = N('parallel', 3, [
                            N('state', 4, [N('state', 5, trans=[T(101, b'e', None, [6])]), N('final', 6)]),
                            N('state', 7, [N('state', 8, trans=[T(102, ev2, None, [9])]), N('final', 9)])],
                            trans=([T(103, b'done.state.s3', None, [10])] if ondone else []))
                        if hist:
                            inner['kids'].insert(0, N(hist, 20, trans=[T(120, None, None, [4, 7] if hist == 'hs' else [5, 8])]))
                        work = N('state', 2, [inner, N('state', 10)])
                        if nested:
                            other = N('state', 11, [N('state', 12, trans=[T(104, ev3, None, [13])]), N('final' if o2final else 'state', 13)])
                            top = N('parallel', 1, [work, other])
                            out.append(N('scxml', 0, [top]))
                        else:
                            if o2final or ev3 == b'e':
                                continue
                            out.append(N('scxml', 0, [work]))
    return out


def parallel_history_family():
    """a <history> directly below a <parallel>, entered from outside before anything is recorded (its default transition,
    WITH executable content, has to be taken and reported), left and re-entered with a recorded value"""
    N, T = G.node, G.trans
    out = []
    for kind, dflts in (('hs', ([4], [4, 7], [7])), ('hd', ([6, 8], [5], [9, 5]))):
        for dflt in dflts:
            for content in (True, False):
                h = N(kind, 20, trans=[T(120, None, None, dflt, False, [('raise', 121, b'x')] if content else [])])
                r1 = N('state', 4, [N('state', 5, trans=[T(101, b'n', None, [6])]), N('state', 6)])
                r2 = N('state', 7, [N('state', 8, trans=[T(102, b'x', None, [9])]), N('state', 9)])
                par = N('parallel', 3, [h, r1, r2], trans=[T(103, b'out', None, [1])])
                outside = N('state', 1, trans=[T(104, b'h', None, [20]), T(105, b'p', None, [3])])
                out.append(N('scxml', 0, [outside, par]))
    return out


PARALLEL_HISTORY_WORDS = [[b'h'], [b'h', b'n', b'out', b'h'], [b'p', b'n', b'out', b'h'], [b'h', b'out', b'h', b'n']]


DONE_WORDS = [[b'e', b'f'], [b'f', b'e'], [b'e', b'f', b'g'], [b'g', b'e', b'f'], [b'e', b'g', b'f'], [b'f', b'g', b'e'], [b'e'], [b'e', b'e', b'f']]


def multi_target_family():
    """two regions with two children each; a transition with one or two targets (both orders), internal or external,
    on a region, on a child or on the <parallel>: transition domains of multi-target and internal transitions"""
    N, T = G.node, G.trans
    out = []
    tsets = [[4], [7], [4, 7], [7, 4], [3, 7], [7, 3], [2, 7], [7, 2], [4, 5], [5, 4]]
    for src in (1, 2, 3, 5):
        for tg in tsets:
            for internal in (False, True):
                kids2 = [N('state', 3, trans=([T(101, b'e', None, tg, internal)] if src == 3 else [])), N('state', 4)]
                kids5 = [N('state', 6), N('state', 7)]
                r1 = N('state', 2, kids2, trans=([T(101, b'e', None, tg, internal)] if src == 2 else []))
                r2 = N('state', 5, kids5, trans=([T(101, b'e', None, tg, internal)] if src == 5 else []))
                p = N('parallel', 1, [r1, r2], trans=([T(101, b'e', None, tg, internal)] if src == 1 else []))
                out.append(N('scxml', 0, [p]))
    return out


def history_family():
    """a state with a (deep or shallow) history that is left and re-entered through the history several times with
    different active descendants in between: what a history remembers, forgets and restores"""
    N, T = G.node, G.trans
    out = []
    for kind in ('hd', 'hs'):
        for deep3 in (False, True):
            for inner_hist in (False, True):
                a1kids = [N('state', 10, trans=[T(105, b'k', None, [11])]), N('state', 11)] if deep3 else []
                a = N('state', 2, ([N('hs', 12, trans=[T(106, None, None, [4])])] if inner_hist else []) +
                      [N('state', 3, a1kids, trans=[T(101, b'n', None, [4])]), N('state', 4)], trans=[T(102, b'm', None, [5])])
                s1 = N('state', 1, [N(kind, 9, trans=[T(103, None, None, [2])]), a, N('state', 5, trans=[T(107, b'm', None, [2])])],
                       trans=[T(104, b'out', None, [6])])
                o = N('state', 6, trans=[T(108, b'back', None, [9])])
                out.append(N('scxml', 0, [s1, o]))
    # a history that is a direct child of a <parallel>: its completion are the regions (shallow) / everything below (deep)
    for kind in ('hd', 'hs'):
        for default_to in ([3, 6], [2, 5]):
            a = N('state', 2, [N('state', 3, trans=[T(201, b'n', None, [4])]), N('state', 4)])
            b = N('state', 5, [N('state', 6, trans=[T(202, b'n', None, [7])]), N('state', 7, trans=[T(205, b'k', None, [6])])])
            par = N('parallel', 1, [N(kind, 9, trans=[T(203, None, None, default_to)]), a, b], trans=[T(204, b'out', None, [8])])
            o = N('state', 8, trans=[T(208, b'back', None, [9])])
            out.append(N('scxml', 0, [par, o]))
    # a deep history whose default transition has SEVERAL targets, each two or more levels below a region of a <parallel>
    # (the ancestors of every target have to be entered, not only those of the first one)
    for default_to in ([4, 7], [7, 4], [4, 14], [12, 13, 7][:2], [4, 13]):
        r1 = N('state', 3, [N('state', 10, [N('state', 4, trans=[T(301, b'n', None, [12])]), N('state', 12)])])
        r2 = N('state', 6, [N('state', 13, trans=[T(302, b'k', None, [7])]), N('state', 11, [N('state', 14), N('state', 7, trans=[T(303, b'n', None, [14])])])])
        s1 = N('state', 1, [N('hd', 9, trans=[T(103, None, None, default_to)]), N('parallel', 2, [r1, r2])], trans=[T(104, b'out', None, [5])])
        o = N('state', 5, trans=[T(108, b'back', None, [9]), T(109, b'm', None, [9])])
        out.append(N('scxml', 0, [o, s1]))
        out.append(N('scxml', 0, [s1, o]))
    return out


HISTORY_WORDS = [[b'back'], [b'out', b'back', b'm', b'out', b'back'], [b'n', b'out', b'back', b'm', b'out', b'back'],
                 [b'out', b'back', b'n', b'out', b'back'], [b'k', b'out', b'back', b'n', b'out', b'back'],
                 [b'k', b'out', b'back', b'm', b'out', b'back', b'm', b'out', b'back'], [b'm', b'out', b'back', b'm', b'out', b'back']]


WORDS2 = [[], [b'e'], [b'f'], [b'e', b'e'], [b'e', b'f'], [b'f', b'e'], [b'f', b'f']]


def build_cases(c, faults=0.0):
    """returns list of dicts {tree, events, dm, late, origin}"""
    rng = random.Random(c.seed * 7919 + 13)
    cases = []
    # corpus first
    import witnesses as W
    import copy
    for name, tree, events, dm in W.CORPUS:
        cases.append({'tree': copy.deepcopy(tree), 'events': list(events), 'dm': dm, 'late': False, 'origin': 'corpus:' + name})
    quick = c.tier == 'quick'
    nex = 0
    for nprop, cap in ((1, 400), (2, 1500 if quick else 6000), (3, 2500 if quick else 20000)) + (() if quick else ((4, 20000),)):
        charts, total = small_exhaustive(nprop, cap, rng)
        for i, t in enumerate(charts):
            cases.append({'tree': t, 'events': WORDS2[i % len(WORDS2)] if quick else WORDS2[(i * 3) % len(WORDS2)], 'dm': 'null', 'late': False,
                          'origin': 'exhaustive%d(%d of %d)' % (nprop, len(charts), total)})
            nex += 1
    fam = region_family()
    stride = 2 if quick else 1
    off = c.seed % stride
    nfam = 0
    for i, t in enumerate(fam):
        if i % stride != off:
            continue
        for w in ([REGION_WORDS[(i // stride) % 2]] if quick else REGION_WORDS):
            cases.append({'tree': t, 'events': w, 'dm': 'null', 'late': False, 'origin': 'regions(%d of %d)' % (len(fam) // stride, len(fam))})
            nfam += 1
    for t in done_family():
        for w in DONE_WORDS:
            cases.append({'tree': t, 'events': w, 'dm': 'null', 'late': False, 'origin': 'done-family'})
    for h in ('hs', 'hd'):
        for k, t in enumerate(done_family(hist=h)):
            for w in (DONE_WORDS[k % len(DONE_WORDS)], DONE_WORDS[(k + 3) % len(DONE_WORDS)]):
                cases.append({'tree': t, 'events': w, 'dm': 'null', 'late': False, 'origin': 'done-family-history'})
    for t in history_family():
        for w in HISTORY_WORDS:
            cases.append({'tree': t, 'events': w, 'dm': 'null', 'late': False, 'origin': 'history-family'})
    for t in parallel_history_family():
        for w in PARALLEL_HISTORY_WORDS:
            cases.append({'tree': t, 'events': w, 'dm': 'null', 'late': False, 'origin': 'parallel-history-family'})
    for t in multi_target_family():
        for w in ([b'e'], [b'e', b'e']):
            cases.append({'tree': t, 'events': w, 'dm': 'null', 'late': False, 'origin': 'multi-target-family'})
    nrand = {'lua': 1200, 'promela': 400, 'null': 400} if quick else {'lua': 12000, 'promela': 4000, 'null': 4000}
    for dm, k in nrand.items():
        for j in range(k):
            t = G.rand_chart(rng, content=0.5, faults=faults, only_in=(dm == 'null'))
            late = False
            # every third chart with a datamodel: one variable declared below the root, initialised from a root variable
            # (early binding: when the document is loaded; late binding: on first entry of the declaring state)
            if dm != 'null' and j % 3 == 2 and G.nest_data(t, rng):
                late = (j % 6 == 5)
            cases.append({'tree': t, 'events': G.rand_events(rng), 'dm': dm, 'late': late,
                          'origin': 'random-' + dm + ('-nested-data-late' if late else '')})
    return cases


def run_cases(c, cases, tag, engines=('large', 'fast'), want_spec=True, vflags='0000'):
    """executes the cases; returns dict engine-> list of raw lines, 'model' -> Large model lines, 'spec' -> Spec lines"""
    vd = ensure_vdriver('hooks', units=['vd_run'])
    vm = ensure_vmodel('chart')
    content = hashlib.sha1('\n'.join(impl_line('large', x['tree'], x['dm'], x['late'], x['events']) for x in cases).encode('latin-1')).hexdigest()
    key = hashlib.sha1(('%s|%s|%s|%s|%s|%s|%s|%s' % (tag, c.seed, c.tier, os.path.getmtime(vd), os.path.getmtime(vm), vflags, len(cases), content)).encode()).hexdigest()[:16]
    cdir = os.path.join(BUILD, 'cache')
    os.makedirs(cdir, exist_ok=True)
    cf = os.path.join(cdir, 'runs-%s.pkl' % key)
    if os.path.exists(cf) and os.environ.get('VERIF_NO_CACHE') is None:
        try:
            return pickle.load(open(cf, 'rb'))
        except Exception:
            pass
    res = {'crashes': {}}
    for eng in engines:
        out, cr = run_lines_sharded(vd, [impl_line(eng, x['tree'], x['dm'], x['late'], x['events']) for x in cases], timeout=1500)
        res[eng] = out
        res['crashes'][eng] = cr
    out, _ = run_lines_sharded(vm, [model_line('large', vflags, x['tree'], x['late'], x['events']) for x in cases], timeout=1500)
    res['model'] = out
    out, _ = run_lines_sharded(vm, [model_line('fast', vflags, x['tree'], x['late'], x['events']) for x in cases], timeout=1500)
    res['model_fast'] = out
    if want_spec:
        out, _ = run_lines_sharded(vm, [spec_line(x['tree'], x['late'], x['events']) for x in cases], timeout=1500)
        res['spec'] = out
    # old cache files of this tag
    for f in os.listdir(cdir):
        if f.startswith('runs-') and f != os.path.basename(cf):
            try:
                if time.time() - os.path.getmtime(os.path.join(cdir, f)) > 6 * 3600:
                    os.remove(os.path.join(cdir, f))
            except OSError:
                pass
    pickle.dump(res, open(cf, 'wb'))
    return res


def detect_vflags(c):
    """defect switches of the implementation's large engine, from witness charts (see corpus/witness_*.py)"""
    vd = ensure_vdriver('hooks', units=['vd_run'])
    vm = ensure_vmodel('chart')
    import witnesses as W
    flags = ['0', '0', '0', '0']
    notes = {}
    for idx, (name, tree, events) in enumerate(W.SWITCH_WITNESSES):
        il = impl_line('large', tree, 'null' if G.uses_only_in(tree) else 'lua', False, events)
        rc, io, _ = run_lines(vd, [il])
        on = ['0', '0', '0', '0']
        on[idx] = '1'
        rc, mo, _ = run_lines(vm, [model_line('large', '0000', tree, False, events), model_line('large', ''.join(on), tree, False, events)])
        ti = canon(io[0])[0]
        if ti == canon(mo[1])[0] and ti != canon(mo[0])[0]:
            flags[idx] = '1'
            notes[name] = 'present'
        elif ti == canon(mo[0])[0]:
            notes[name] = 'absent'
        else:
            notes[name] = 'neither variant matches'
    return ''.join(flags), notes


# ---------------------------------------------------------------------------------------------------------------
# reach of the unbounded theorems on the generated cases (the boolean hypotheses of the theorems, evaluated by the
# extracted definitions themselves)
REACH_BITS = ('wf_coreb', 'wf_initb', 'wf_histb', 'wf_fastb', 'core_treeb', 'c01_treeb', 'eq_chartb', 'hist_treeb', 'eq_tree_histb', 'c01i_treeb', 'wf_histpb')


def theorem_reach(c, cases, vflags='0000', want=('reach', 'runguard', 'eqguard')):
    """per case: {'reach': {bit: bool}, 'run': (static_okb, run_guardb, run_completeb), 'eq': (eq_chartb, eq_guard_run)}
    computed by the extracted Coq definitions (extract/chart: commands reach / runguard / eqguard)"""
    vm = ensure_vmodel('chart')
    out = [dict() for _ in cases]
    sx = [G.sx_tree(x['tree']) for x in cases]
    evs = [' '.join(G.hx(e) for e in x['events']) for x in cases]
    late = [1 if x['late'] else 0 for x in cases]
    if 'reach' in want:
        memo = {}
        keys = [(late[i], sx[i]) for i in range(len(cases))]
        uniq = sorted(set(keys))
        o, _ = run_lines_sharded(vm, ['reach %d %s' % k for k in uniq], timeout=1500)
        for k, r in zip(uniq, o):
            memo[k] = {b: (len(r) > j and r[j] == '1') for j, b in enumerate(REACH_BITS)} if not r.startswith('ERR') else {}
        for i, k in enumerate(keys):
            out[i]['reach'] = memo[k]
    if 'runguard' in want:
        o, _ = run_lines_sharded(vm, ['runguard %d %d %s (%s)' % (late[i], FUEL, sx[i], evs[i]) for i in range(len(cases))], timeout=1500)
        for i, r in enumerate(o):
            out[i]['run'] = tuple(ch == '1' for ch in r[:3]) if len(r) >= 3 and set(r[:3]) <= set('01') else (False, False, False)
            out[i]['runi'] = tuple(ch == '1' for ch in r[3:5]) if len(r) >= 5 and set(r[:5]) <= set('01') else (False, False)
            out[i]['runh'] = tuple(ch == '1' for ch in r[5:7]) if len(r) >= 7 and set(r[:7]) <= set('01') else (False, False)
            out[i]['runp'] = (len(r) >= 8 and r[7] == '1')
    if 'eqguard' in want:
        o, _ = run_lines_sharded(vm, ['eqguard %s %d %d %s (%s)' % (vflags, late[i], FUEL, sx[i], evs[i]) for i in range(len(cases))], timeout=1500)
        for i, r in enumerate(o):
            out[i]['eq'] = tuple(ch == '1' for ch in r[:2]) if len(r) >= 2 and set(r[:2]) <= set('01') else (False, False)
            out[i]['eqh'] = tuple(ch == '1' for ch in r[2:4]) if len(r) >= 4 and set(r[:4]) <= set('01') else (False, False)
    return out
