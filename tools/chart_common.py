"""chart_common.py -- running chart cases on the implementation (vdriver run) and on the models
(extract/chart), canonicalising and comparing traces.  Shared by C01, C02, C03, C07, C13, C14."""
import os, sys
from vlib import *
import chartgen as G

FUEL = 60


def impl_line(engine, tree, dm, late, events):
    xml = G.to_scxml(tree, dm, late)
    vs = G.all_vars(tree)
    return 'run %s %s %d %s %s' % (engine, xml.encode('latin-1').hex(), FUEL, ','.join(str(v) for v in vs) if vs else '-',
                                   ' '.join(G.hx(e) for e in events))


def model_line(engine, vflags, tree, late, events):
    return 'run %s %s %d %d %s (%s)' % (engine, vflags, 1 if late else 0, FUEL, G.sx_tree(tree), ' '.join(G.hx(e) for e in events))


def canon(line):
    """split a trace line into (tokens, data dict)"""
    if '|' in line:
        t, d = line.split('|', 1)
    else:
        t, d = line, ''
    toks = t.split()
    data = {}
    for kv in d.split():
        if '=' in kv:
            k, v = kv.split('=', 1)
            # a late-bound variable whose declaring state was never entered does not exist yet: Lua reports nil,
            # the Promela datamodel false (undeclared reads false); the model's store has no entry for it
            if v in ('nil', 'false'):
                continue
            data[k] = v
    return toks, data


BIG = 2 ** 30


def cut_big(ta, da, tb, db):
    """integer values beyond 2^30 are outside the model (Lua numbers turn into floats, Promela ints wrap) and
    may already have influenced a comparison before they become visible: a run in which the model sees such a
    value (in a log token or in the final store) is not compared at all (both sides are returned empty)"""
    for t in tb:
        if t.startswith('LOG:'):
            try:
                if abs(int(t[4:])) > BIG:
                    return [], {}, [], {}
            except ValueError:
                pass
    for v in db.values():
        try:
            if abs(int(v)) > BIG:
                return [], {}, [], {}
        except ValueError:
            pass
    return ta, da, tb, db


def first_diff(a, b):
    for i, (x, y) in enumerate(zip(a, b)):
        if x != y:
            return i
    if len(a) != len(b):
        return min(len(a), len(b))
    return None


def microsteps(toks):
    """split a token list into microstep brackets: list of lists (tokens between MS{ and }MS inclusive)"""
    out = []
    cur = None
    for t in toks:
        if t == 'MS{':
            cur = [t]
        elif cur is not None:
            cur.append(t)
            if t == '}MS':
                out.append(cur)
                cur = None
    return out


def spec_line(tree, late, events):
    return 'spec %d %d %s (%s)' % (1 if late else 0, FUEL, G.sx_tree(tree), ' '.join(G.hx(e) for e in events))


KEEP = ('EV:', 'MS{', '}MS', 'X{:', '}X:', 'T{:', '}T:', 'E{:', '}E:', 'C{:', '}C:', 'LOG:', 'COMPL{', '}COMPL')


def spec_view(toks, from_impl):
    """projection of a trace onto what Appendix D determines: events consumed, the microstep brackets with
    exits, transition content, entries, executed content and log output in order, the configuration after
    every microstep, the completion bracket.  The <scxml> root (sid 0) is no state of the Recommendation's
    configuration: its entry and its membership are dropped (C02 checks the root separately)."""
    out = []
    want_cfg = False
    for t in toks:
        if t.startswith('CFG:'):
            if want_cfg or not from_impl:
                ids = [x for x in t[4:].split(',') if x not in ('', '0')]
                out.append('CFG:' + ','.join(ids))
            want_cfg = False
            continue
        if t in ('E{:0', '}E:0'):
            continue
        if t.startswith(KEEP):
            out.append(t)
            if t == '}MS':
                want_cfg = True
    return out


def complete_prefix(toks):
    """cut a projected trace after its last complete microstep/configuration pair (used when a run hit the step bound)"""
    last = 0
    for i, t in enumerate(toks):
        if t.startswith('CFG:'):
            last = i + 1
    return toks[:last]
