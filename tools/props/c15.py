"""C15 -- Data <-> JSON conversion is lossless and its parser robust; Event <-> Data.

Correspondence streams (implementation through `vdriver`, model through the extracted `vmodel`):
  tables   jsonEscape / jsonUnescape on all 256 bytes (+ homomorphism on random strings) against the
           tables regenerated from the source (GenJsonEsc.v) and against the variant's tables
  rt       Data trees -> toJSON -> fromJSON: text, parse outcome and parsed value against the model;
           the oracle data_eqb (extracted) judges every implementation output of a tree in the
           property's class
  parse    malformed texts (corpus, exhaustive small, token-budget thresholds, grammar + mutations):
           outcome against the model; the oracle is "value or clean error"; inputs on which the model
           predicts undefined behaviour (Oob) run one per child process
  event    Event -> Data -> Event against the model; the oracle event_eqb judges every output
The variant vector of the implementation (which of the modelled defects it has) is determined from
witness inputs first; the model is instantiated with it."""
import itertools, json, os, sys, threading
from vlib import *

FLAGS = ['escape_vtab', 'key_overread', 'container_key', 'null_atom', 'event_data_self']
CLASS_OF_FLAG = {'escape_vtab': 'escape-vtab', 'key_overread': 'key-overread', 'container_key': 'unguarded-stacks',
                 'null_atom': 'empty-as-null', 'event_data_self': 'event-data'}
ERR_KIND = [(b'not enough tokens', '1'), (b'invalid character', '2'), (b'not a full JSON packet', '3'),
            (b'unbalanced structure', '4')]


def vecstr(vec):
    return ''.join('1' if vec[f] else '0' for f in FLAGS)


# ------------------------------------------------------------------ trees

def enc(t):
    verb, atom, arr, comp = t
    return ('V' if verb else 'I') + atom.hex() + '[' + ''.join(enc(x) for x in arr) + ']{' + \
        ''.join(k.hex() + '=' + enc(comp[k]) for k in sorted(comp)) + '}'


EMPTY = (False, b'', [], {})


def S(b):
    return (True, b, [], {})


def Nn(b):
    return (False, b, [], {})


def A(*xs):
    return (False, b'', list(xs), {})


def M(**kw):
    return (False, b'', [], {k.encode('latin-1'): v for k, v in kw.items()})


def Mb(d):
    return (False, b'', [], dict(d))


def features(t, top=True, f=None):
    """what occurs in the tree (for the input distribution and the classification)"""
    if f is None:
        f = {'nul': False, 'vtab': False, 'escaped': False, 'empty_nested': False, 'depth': 0, 'high': False, 'nodes': 0}
    verb, atom, arr, comp = t
    f['nodes'] += 1

    def scan(b):
        if 0 in b: f['nul'] = True
        if 11 in b: f['vtab'] = True
        if any(c in b for c in (8, 9, 10, 12, 13, 34, 92)): f['escaped'] = True
        if any(c >= 128 for c in b): f['high'] = True
    if not arr and not comp:
        if verb: scan(atom)
        if not atom and not verb and not top: f['empty_nested'] = True
    d = 0
    for x in arr:
        d = max(d, features(x, False, f)['_d'])
    for k, x in comp.items():
        scan(k)
        d = max(d, features(x, False, f)['_d'])
    f['_d'] = d + 1
    f['depth'] = max(f['depth'], f['_d'])
    return f


SPECIAL = [0, 8, 9, 10, 11, 12, 13, 34, 47, 92, 32, 127, 128, 255, 117, 110, 98, 118, 123, 125, 91, 93, 58, 44, 39]
NUMCH = b'0123456789+-.eE'


def rnd_bytes(rng, maxlen=6, allow_nul=True):
    n = rng.choice([0, 1, 1, 2, 3, rng.randint(0, maxlen)])
    out = []
    for _ in range(n):
        r = rng.random()
        if r < 0.35:
            c = rng.choice(SPECIAL)
        elif r < 0.7:
            c = rng.randint(97, 122)
        else:
            c = rng.randint(0, 255)
        if c == 0 and (not allow_nul or rng.random() < 0.7):
            c = 1
        out.append(c)
    return bytes(out)


def rnd_tree(rng, depth, noncanon=False):
    r = rng.random()
    if depth <= 0 or r < 0.3:
        k = rng.random()
        if k < 0.55:
            return S(rnd_bytes(rng))
        if k < 0.85:
            return Nn(bytes(rng.choice(NUMCH) for _ in range(rng.randint(1, 5))))
        if noncanon and k < 0.93:
            return Nn(rnd_bytes(rng, allow_nul=False) or b'x')
        return EMPTY
    if r < 0.62:
        t = (False, b'', [rnd_tree(rng, depth - 1, noncanon) for _ in range(rng.randint(1, 4))], {})
    else:
        t = (False, b'', [], {rnd_bytes(rng, 5): rnd_tree(rng, depth - 1, noncanon) for _ in range(rng.randint(1, 4))})
    if noncanon and rng.random() < 0.3:
        # a Data that is several things at once, or a VERBATIM container
        v, a, l, m = t
        ch = rng.random()
        if ch < 0.35:
            t = (True, a, l, m)
        elif ch < 0.7:
            t = (v, b'7', l, m)
        else:
            t = (v, a, l or [S(b'x')], m or {b'k': Nn(b'1')})
    return t


def chain(depth, leaf, mixed=True):
    t = leaf
    for i in range(depth):
        t = A(t) if (mixed and i % 2) else Mb({b'k%d' % i: t})
    return t


def gen_trees(c):
    trees = []
    corpus = json.load(open(os.path.join(ROOT, 'corpus', 'c15.json')))
    for s in corpus['trees']:
        trees.append(('corpus', s))
    ncorpus = len(trees)
    # systematic: every byte value in a key, in a string, next to a quote, as the last character
    for b in range(256):
        bb = bytes([b])
        trees.append(('bytes', enc(Mb({bb: S(bb)}))))
        trees.append(('bytes', enc(A(S(b'a' + bb + b'"' + bb), S(bb + b'\\')))))
        trees.append(('bytes', enc(Mb({b'k' + bb + b'z': A(S(bb + bb))}))))
    # systematic: shapes
    leaves = [S(b''), S(b'x'), Nn(b'1'), Nn(b'-1.5e3'), EMPTY, S(b'null'), Nn(b'null')]
    for lf in leaves:
        trees.append(('shapes', enc(lf)))
        for d in range(1, 6):
            trees.append(('shapes', enc(chain(d, lf))))
            trees.append(('shapes', enc(chain(d, lf, mixed=False))))
        for n in range(1, 5):
            trees.append(('shapes', enc(A(*([lf] * n)))))
            trees.append(('shapes', enc(Mb({b'k' * (i + 1): lf for i in range(n)}))))
    # keys whose order depends on unsigned comparison and on the prefix rule
    trees.append(('shapes', enc(Mb({b'': Nn(b'0'), b'a': Nn(b'1'), b'ab': Nn(b'2'), b'\x80': Nn(b'3'), b'\xff': Nn(b'4'), b'B': Nn(b'5')}))))
    # systematic: text that LOOKS like a JSON escape sequence once it is escaped -- a literal backslash (or quote) followed by
    # an escape letter, by 'u' and hex digits, by another backslash ...: every word of length <= 3 over these characters,
    # in front of "0041" (so that \uXXXX shapes arise), as string, as key, and at the end of a string
    import itertools
    esc_alpha = [b'\\', b'"', b'u', b'n', b'/', b'b']
    for k in (1, 2, 3):
        for w in itertools.product(esc_alpha, repeat=k):
            ww = b''.join(w)
            trees.append(('escape-like', enc(A(S(ww + b'0041'), S(b'x' + ww)))))
            trees.append(('escape-like', enc(Mb({ww + b'00e9z': S(ww)}))))
    nsys = len(trees) - ncorpus
    rng = c.rng
    nrand = 4000 if c.tier == 'quick' else 60000
    for i in range(nrand):
        nc = (i % 8 == 7)
        t = rnd_tree(rng, rng.randint(1, 5), noncanon=nc)
        if i % 5 == 0:
            # top-level container always
            if not t[2] and not t[3]:
                t = A(t)
        trees.append(('noncanon' if nc else 'random', enc(t)))
    return trees, ncorpus, nsys, nrand


# ------------------------------------------------------------------ malformed texts

def gen_texts(c):
    texts = []
    corpus = json.load(open(os.path.join(ROOT, 'corpus', 'c15.json')))
    for s in corpus['texts']:
        texts.append(('corpus', bytes.fromhex(s) if s != '-' else b''))
    ncorpus = len(texts)
    # exhaustive small: an opening bracket followed by every word over the alphabet
    alpha = [b'{', b'}', b'[', b']', b'"', b'a', b':', b',', b'\\']
    maxlen = 4 if c.tier == 'quick' else 5
    for first in (b'{', b'['):
        for l in range(0, maxlen + 1):
            for w in itertools.product(alpha, repeat=l):
                texts.append(('exhaustive', first + b''.join(w)))
    nex = len(texts) - ncorpus
    # token-budget thresholds: k tokens in a text whose length sweeps over every ratio 1/8 .. 1/1
    for k in range(0, 11):
        body = b','.join([b'1'] * k)
        for pad in range(0, 8 * (k + 2) + 3):
            texts.append(('budget', b'[' + b' ' * pad + body + b']'))
        bodyo = b''.join([b'"a":1,'] * k)
        for pad in range(0, 8 * (2 * k + 3) + 3, 1 if k < 4 else 3):
            texts.append(('budget', b'{' + b' ' * pad + bodyo + b'"z"}'))       # a key as the last token
            texts.append(('budget', b'{' + b' ' * pad + bodyo + b'"z":2}'))
    for pad in range(0, 40):
        texts.append(('budget', b'[' + b' ' * pad + b'[[1],{"a":[2,{"b":"c"}]}]]'))
        texts.append(('budget', b'{' + b' ' * pad + b'"a":{"b":[1,2,{"c":"d"}]},"e"}'))
    nbud = len(texts) - ncorpus - nex
    # grammar-based + mutations
    rng = c.rng
    nrand = 6000 if c.tier == 'quick' else 100000

    def g(depth):
        r = rng.random()
        if depth <= 0 or r < 0.35:
            k = rng.random()
            if k < 0.4:
                s = rnd_bytes(rng, 5, allow_nul=False)
                s = s.replace(b'\\', b'\\\\').replace(b'"', b'\\"')
                return b'"' + s + b'"'
            if k < 0.7:
                return bytes(rng.choice(NUMCH) for _ in range(rng.randint(1, 4)))
            return rng.choice([b'true', b'false', b'null', b'x', b'{}', b'[]', b'""'])
        ws = lambda: rng.choice([b'', b'', b' ', b'\n', b'\t ', b'  '])
        if r < 0.65:
            return b'[' + ws() + (b',' + ws()).join(g(depth - 1) for _ in range(rng.randint(0, 4))) + ws() + b']'
        ents = []
        for _ in range(rng.randint(0, 4)):
            ents.append(b'"' + bytes(rng.randint(97, 100) for _ in range(rng.randint(0, 2))) + b'"' + ws() + b':' + ws() + g(depth - 1))
        return b'{' + ws() + (b',' + ws()).join(ents) + ws() + b'}'
    mut_alpha = b'{}[]":,\\ \n\t01a\x00\x0b\x7f\x80ubn/'
    for i in range(nrand):
        t = g(rng.randint(1, 4))
        if t[:1] not in b'{[':
            t = b'[' + t + b']'
        nm = rng.choice([0, 1, 1, 1, 2, 3])
        t = bytearray(t)
        for _ in range(nm):
            if not t:
                break
            p = rng.randrange(len(t))
            op = rng.random()
            if op < 0.4:
                del t[p]
            elif op < 0.7:
                t.insert(p, rng.choice(mut_alpha))
            elif op < 0.9:
                t[p] = rng.choice(mut_alpha)
            else:
                del t[p:]
        t = bytes(t)
        if i % 7 == 0:
            t = rng.choice([b' ', b'\n', b'\x0b', b'\t\r']) + t + rng.choice([b' ', b'\n', b'\x0c', b'x', b'}'])
        texts.append(('mutated', t))
    return texts, ncorpus, nex, nbud, nrand


# ------------------------------------------------------------------ events

def gen_events(c):
    rng = c.rng
    evs = []
    corpus = json.load(open(os.path.join(ROOT, 'corpus', 'c15.json')))
    for s in corpus['events']:
        evs.append(s)
    n = 600 if c.tier == 'quick' else 10000
    for i in range(n):
        def s():
            return rnd_bytes(rng, 6)
        data = rnd_tree(rng, rng.randint(0, 3)) if i % 4 else EMPTY
        nl = {rnd_bytes(rng, 4): rnd_tree(rng, 1) for _ in range(rng.choice([0, 0, 1, 2, 3]))}
        pk = sorted(rnd_bytes(rng, 3) if rng.random() < 0.6 else b'p' for _ in range(rng.choice([0, 0, 1, 2, 4])))
        ps = [Mb({k: rnd_tree(rng, 1)}) for k in pk]
        evs.append(' '.join([hexs(s()), hexs(s()), str(rng.randint(1, 3)), hexs(s()), hexs(s()), hexs(s()),
                             str(rng.randint(0, 1)), hexs(s()), hexs(s()), enc(data), enc(Mb(nl)), enc((False, b'', ps, {}))]))
    return evs


# ------------------------------------------------------------------ running

def run_resilient(exe, lines, shards=NCPU, env=None, timeout=600):
    """like run_lines_sharded, but a crash of the driver is the outcome of the line that caused it
    and the rest of the shard is run in a fresh process"""
    n = len(lines)
    if n == 0:
        return [], []
    if n < 64:
        shards = 1
    size = (n + shards - 1) // shards
    chunks = [(i, lines[i:i + size]) for i in range(0, n, size)]
    outs = [None] * n
    crashes = []
    lock = threading.Lock()

    def work(base, ch):
        pos = 0
        while pos < len(ch):
            try:
                rc, out, err = run_lines(exe, ch[pos:], timeout=timeout, env=env)
            except subprocess.TimeoutExpired:
                rc, out, err = -999, [], 'TIMEOUT'
            got = out[:len(ch) - pos]
            for j, o in enumerate(got):
                outs[base + pos + j] = o
            pos += len(got)
            if pos < len(ch):
                outs[base + pos] = 'CRASH rc=%s' % rc
                with lock:
                    crashes.append((base + pos, rc, err[-1500:]))
                pos += 1
    ths = [threading.Thread(target=work, args=(b, ch)) for b, ch in chunks]
    [t.start() for t in ths]
    [t.join() for t in ths]
    return outs, crashes


def run_isolated(exe, lines, env=None, timeout=20):
    """one child process per line"""
    outs = [None] * len(lines)
    errs = [''] * len(lines)

    def work(idx):
        for i in idx:
            try:
                rc, out, err = run_lines(exe, [lines[i]], timeout=timeout, env=env)
            except subprocess.TimeoutExpired:
                rc, out, err = -999, [], 'TIMEOUT'
            outs[i] = out[0] if (out and rc == 0) else 'CRASH rc=%s' % rc + ((' ' + out[0]) if out else '')
            errs[i] = err[-3000:]
    ths = [threading.Thread(target=work, args=(range(k, len(lines), NCPU),)) for k in range(NCPU)]
    [t.start() for t in ths]
    [t.join() for t in ths]
    return outs, errs


def norm_parse(o):
    """implementation's json-parse outcome -> the model's vocabulary"""
    if o.startswith('ERR '):
        nm, _, cause = o[4:].partition(':')
        cb = bytes.fromhex(cause) if cause not in ('', '-') else b''
        for pat, k in ERR_KIND:
            if pat in cb:
                return 'ERR ' + k
        return 'ERR ?' + o[4:]
    return o


def hx(b):
    return hexs(b)


def probe_tables(vdriver):
    """jsonEscape on every one-byte string, jsonUnescape on every one-byte string and on backslash+byte"""
    lines = ['json-escape %02x' % b for b in range(256)] + ['json-unescape 5c%02x' % b for b in range(256)] + \
            ['json-unescape %02x' % b for b in range(256)]
    rc, o, e = run_lines(vdriver, lines)
    if rc != 0 or len(o) != len(lines):
        raise BuildError('vdriver failed on the escape probes: rc=%s %s' % (rc, e[-500:]))
    unh = lambda s: [] if s == '-' else list(bytes.fromhex(s))
    import hashlib
    return {'escape': [unh(x) for x in o[:256]], 'unescape_after_backslash': [unh(x) for x in o[256:512]],
            'unescape_plain': [unh(x) for x in o[512:768]],
            'source_sha1': hashlib.sha1(open(REPO + '/src/uscxml/messages/Data.cpp', 'rb').read()).hexdigest()}


WIT = {
    'key_overread': [b'{"a"}', b'{"ab"}', b'[{"a"}]', b'{"a" "b" "c"}'],
    'container_key': [b'{[]1}', b'{[1]:2}'],
    'null_atom': [b'{"a":null}'],
}
EV_WIT = '666f6f - 2 - - 7331 0 - - I[]{61=V62[]{}} I[]{} I[]{}'


def variant_of_impl(vdriver, vmodel):
    """which of the modelled defects does the implementation have?  Each witness distinguishes on/off:
    the flag is off iff the implementation answers what the repaired model answers."""
    vec = {}
    ev = {}
    rc, o, e = run_lines(vdriver, ['json-escape 0b'])
    vec['escape_vtab'] = (o[0] == '5c76')
    ev['escape_vtab'] = {'input': '0b', 'observed': o[0]}
    for flag in ('key_overread', 'container_key', 'null_atom'):
        wl = WIT[flag]
        io, errs = run_isolated(vdriver, ['json-parse ' + hx(w) for w in wl])
        rc, mo, e = run_lines(vmodel, ['parse 00000 ' + hx(w) for w in wl])
        on = any(norm_parse(a) != b for a, b in zip(io, mo))
        vec[flag] = on
        ev[flag] = [{'input': w.decode(), 'observed': a, 'repaired_model': b} for w, a, b in zip(wl, io, mo)]
    io, errs = run_isolated(vdriver, ['event-todata ' + EV_WIT])
    rc, mo, e = run_lines(vmodel, ['event-todata 00000 ' + EV_WIT])
    vec['event_data_self'] = (io[0] != mo[0])
    ev['event_data_self'] = {'observed': io[0], 'repaired_model': mo[0]}
    return vec, ev


def private_copy(exe, flavor):
    """the vdriver binary is shared with the checks of other properties, which relink it when their
    units change; this check runs its own copy"""
    import shutil
    dst = exe + '.c15'
    with Lock('vdriver-' + flavor):
        if (not os.path.exists(dst)) or os.path.getmtime(dst) < os.path.getmtime(exe):
            shutil.copy2(exe, dst + '.tmp')
            os.replace(dst + '.tmp', dst)
    return dst


def run(c):
    # the probe of the compiled escape functions comes first: the translator cross-checks itself with it
    vdriver = private_copy(ensure_vdriver('hooks', units=['vd_json']), 'hooks')
    probe = probe_tables(vdriver)
    os.makedirs(GENINC, exist_ok=True)
    write_if_changed(os.path.join(GENINC, 'c15_escape_probe.json'), json.dumps(probe))
    broken = c.prove()
    vmodel = ensure_vmodel('json')
    c.assumptions += [
        'isspace of the classic "C" locale (boost::trim_copy); char comparisons as on x86-64 gcc',
        'inputs shorter than 2^31 bytes (jsmn positions are int); malloc does not fail',
        'Data::node and Data::binary are absent (NULL / empty) -- DOM nodes and blobs are outside the model',
        'strTo<size_t>/strTo<bool> are modelled on one-digit strings only (what Event::operator Data() writes)',
        'libstdc++: std::map/std::multimap iteration order = byte-wise key order, multimap::insert after equal keys',
        'the heap is not modelled: when the model says Oob the real outcome is whatever the over-read memory holds',
    ]
    c.cov['trusted_base'] += ['tools/translate/tr_jsonesc.py, tr_jsmnesc.py (cross-checked by the 256-byte probe)',
                              'harness/vd_json.cpp (tree codec, `#define private public` around Event.h for Event::uuid)',
                              'extract/json/driver.ml (tree codec)']
    tinfo = c.notes.get('translators', {})
    c.notes['translator_fallback'] = {k: tinfo.get(k, {}).get('translator_fallback') or tinfo.get(k, {}).get('error')
                                      for k in ('tr_jsonesc', 'tr_jsmnesc')}

    vec, vec_ev = variant_of_impl(vdriver, vmodel)
    V = vecstr(vec)
    c.notes['defect_vector'] = vec
    c.notes['defect_vector_evidence'] = vec_ev
    log('C15: implementation variant', vec)

    failures = []        # oracle failures: dict(class, stream, input, expected, observed, replay_cmd)
    disagreements = []   # model vs implementation without oracle verdict
    hist = {}
    nontriv = set()
    evaluations = 0
    VD = vdriver

    def bump(k, n=1):
        hist[k] = hist.get(k, 0) + n

    # ---------------------------------------------------------------- 1. tables
    # generated tables (GenJsonEsc.v) and the variant's tables against the compiled functions
    lines = ['escape-gen %02x' % b for b in range(256)] + ['unescape-gen 5c%02x' % b for b in range(256)] + \
            ['unescape-gen %02x' % b for b in range(256)] + ['escape %s %02x' % (V, b) for b in range(256)] + \
            ['unescape 5c%02x' % b for b in range(256)] + ['unescape %02x' % b for b in range(256)]
    rc, mo, e = run_lines(vmodel, lines)
    unh = lambda s: [] if s == '-' else list(bytes.fromhex(s))
    mo = [unh(x) for x in mo]
    pr = probe['escape'] + probe['unescape_after_backslash'] + probe['unescape_plain']
    tab_bad = []
    for i in range(768):
        b = i % 256
        what = ('escape', 'unescape-after-backslash', 'unescape')[i // 256]
        if mo[i] != pr[i]:
            tab_bad.append(('generated', what, b, mo[i], pr[i]))
        if mo[768 + i] != pr[i]:
            tab_bad.append(('variant', what, b, mo[768 + i], pr[i]))
    evaluations += 768
    # homomorphism f(s ++ t) = f s ++ f t is what makes 256 probes determine jsonEscape; jsonUnescape is
    # determined by the probes plus its one-bit state, checked on random strings
    rs = [rnd_bytes(c.rng, 12) for _ in range(1500 if c.tier == 'quick' else 20000)]
    rs += [bytes([a, b]) for a in (92, 34, 11, 0, 65) for b in range(256)]
    io, cr = run_resilient(vdriver, ['json-escape ' + hx(s) for s in rs] + ['json-unescape ' + hx(s) for s in rs])
    mo2, _ = run_lines_sharded(vmodel, ['escape %s %s' % (V, hx(s)) for s in rs] + ['unescape ' + hx(s) for s in rs])
    evaluations += 2 * len(rs)
    for k, (a, b) in enumerate(zip(io, mo2)):
        s = rs[k % len(rs)]
        if a != b:
            tab_bad.append(('variant', 'escape' if k < len(rs) else 'unescape', s.hex(), b, a))
    # the oracle on the tables: unescape (escape s) = s, on the implementation's outputs
    esc_out = io[:len(rs)]
    io3, _ = run_resilient(vdriver, ['json-unescape ' + x for x in esc_out])
    for s, back in zip(rs, io3):
        evaluations += 1
        if any(ch in s for ch in (8, 9, 10, 11, 12, 13, 34, 92)):
            nontriv.add(('esc', s))
        if back != hx(s):
            failures.append({'class': 'unescape-escape', 'stream': 'tables', 'input': s.hex(), 'expected': hx(s), 'observed': back,
                             'what': 'jsonUnescape(jsonEscape(s)) != s',
                             'replay_cmd': "printf 'json-escape %s\\n' | %s" % (hx(s), VD)})
    c.notes['table_mismatches'] = tab_bad[:10]
    for kind, what, b, m, p in tab_bad[:3]:
        disagreements.append({'stream': 'tables', 'kind': kind, 'function': what, 'input': b, 'model': m, 'observed': p})

    # ---------------------------------------------------------------- 2. round trips of trees
    trees, ntc, ntsys, ntrand = gen_trees(c)
    tl = [t for _, t in trees]
    impl, crashes = run_resilient(vdriver, ['json-rt ' + t for t in tl])
    model, _ = run_lines_sharded(vmodel, ['rt %s %s' % (V, t) for t in tl])
    modelf, _ = run_lines_sharded(vmodel, ['rt 00000 %s' % t for t in tl])
    evaluations += len(tl)
    judge_lines = []
    judge_idx = []
    parsed_impl = {}
    for i, (t, io_, mo_) in enumerate(zip(tl, impl, model)):
        m = dict(kv.split('=', 1) for kv in mo_.split() if '=' in kv)
        mparts = mo_.split()
        moutcome = ' '.join(mparts[1:3]) if mparts[1] in ('OK', 'ERR', 'OOB') else mparts[1]
        in_class = m.get('canon') == '1'
        bump('rt_' + trees[i][0])
        if in_class: bump('rt_in_class')
        if io_.startswith('CRASH') or io_.startswith('ERR tree') or io_.startswith('EXC'):
            ioutcome, itext = io_, None
        else:
            ip = io_.split()
            itext = ip[0][5:]
            ioutcome = norm_parse(' '.join(ip[1:3]))
        if mparts[1] == 'OOB':
            bump('rt_model_oob')
        elif itext != m.get('text') or ioutcome != moutcome:
            disagreements.append({'stream': 'rt', 'input': t, 'model': mo_, 'observed': io_})
        if in_class:
            nontriv.add(('rt', t))
            if ioutcome.startswith('OK '):
                judge_lines.append('judge-rt %s %s' % (t, ioutcome[3:]))
                judge_idx.append(i)
            else:
                parsed_impl[i] = ioutcome
    jo, _ = run_lines_sharded(vmodel, judge_lines)
    verdict = {i: o for i, o in zip(judge_idx, jo)}
    rt_fail = []
    for i in range(len(tl)):
        if i in verdict:
            # Data::operator== (printed by the driver) must be the structural equality data_eqb decides
            ieq = impl[i].rsplit(' eq=', 1)[-1]
            if ieq in ('0', '1') and ieq != verdict[i]:
                disagreements.append({'stream': 'rt', 'input': tl[i], 'model': 'data_eqb = ' + verdict[i], 'observed': impl[i],
                                      'what': 'Data::operator== and the structural equality of the model differ'})
            if verdict[i] != '1':
                rt_fail.append((i, 'parsed value differs: ' + impl[i].split(' ', 1)[1]))
            else:
                bump('rt_oracle_ok')
        elif i in parsed_impl:
            rt_fail.append((i, parsed_impl[i]))
    # classify each failing tree: a switch is a cause if the model with only that switch on (all others
    # repaired) fails the round trip as well
    cls_lines = []
    on_flags = [f for f in FLAGS[:4] if vec[f]]
    for i, _ in rt_fail:
        for f in on_flags:
            v2 = {g: (g == f) for g in FLAGS}
            cls_lines.append('rt %s %s' % (vecstr(v2), tl[i]))
    co, _ = run_lines_sharded(vmodel, cls_lines) if cls_lines else ([], [])
    k = 0
    for i, obs in rt_fail:
        mf = dict(kv.split('=', 1) for kv in modelf[i].split() if '=' in kv)
        causes = []
        for f in on_flags:
            mm = dict(kv.split('=', 1) for kv in co[k].split() if '=' in kv)
            k += 1
            if mm.get('eq') != '1':
                causes.append(CLASS_OF_FLAG[f])
        if mf.get('eq') != '1':
            # fails in the fully repaired model as well: not (only) one of the switches
            base = 'top-level-scalar' if mf.get('top') == '0' else ('nul-byte' if tree_has_nul(tl[i]) else 'other')
            causes = [base]
        elif dict(kv.split('=', 1) for kv in model[i].split() if '=' in kv).get('eq') == '1':
            causes = ['unmodelled']        # the model instantiated with the implementation's switches passes
        elif not causes:
            causes = ['several-switches']
        for cls in causes:
            failures.append({'class': cls, 'stream': 'rt', 'input': tl[i], 'expected': 'fromJSON(toJSON(d)) == d (data_eqb)',
                             'observed': obs, 'size': len(tl[i]) + 1000 * (len(causes) - 1),
                             'replay_cmd': "printf 'json-rt %s\\n' | %s" % (tl[i], VD)})
    for cr in crashes:
        bump('rt_crash')

    # ---------------------------------------------------------------- 3. malformed texts
    texts, nxc, nxex, nxbud, nxrand = gen_texts(c)
    xl = [t for _, t in texts]
    modelp, _ = run_lines_sharded(vmodel, ['parse %s %s' % (V, hx(t)) for t in xl])
    safe_idx = [i for i, m in enumerate(modelp) if not m.startswith('OOB')]
    oob_idx = [i for i, m in enumerate(modelp) if m.startswith('OOB')]
    implp = [None] * len(xl)
    so, scr = run_resilient(vdriver, ['json-parse ' + hx(xl[i]) for i in safe_idx])
    for i, o in zip(safe_idx, so):
        implp[i] = o
    # predicted undefined behaviour: one child process each (all of corpus/budget, shortest others first)
    oob_budget = 400 if c.tier == 'quick' else 4000
    oob_sorted = sorted(oob_idx, key=lambda i: (texts[i][0] not in ('corpus',), len(xl[i]), xl[i]))
    oob_run = oob_sorted[:oob_budget]
    oo, oerr = run_isolated(vdriver, ['json-parse ' + hx(xl[i]) for i in oob_run])
    for i, o in zip(oob_run, oo):
        implp[i] = o
    evaluations += len(safe_idx) + len(oob_run)
    bump('parse_model_oob_predicted', len(oob_idx))
    bump('parse_model_oob_executed', len(oob_run))
    for i, t in enumerate(xl):
        o = implp[i]
        if o is None:
            continue
        bump('parse_' + texts[i][0])
        mo_ = modelp[i]
        no = norm_parse(o)
        kind = mo_.split()[0]
        bump('parse_model_' + kind)
        if kind in ('OK', 'ERR') and mo_ != 'OK I[]{}':
            nontriv.add(('parse', t))
        clean = o.startswith('OK ') or o.startswith('ERR ')
        if mo_.startswith('OOB'):
            cls = {'1': 'key-overread', '2': 'unguarded-stacks', '3': 'unguarded-stacks'}.get(mo_.split()[1], 'oob-' + mo_.split()[1])
            if not clean:
                bump('parse_oob_observed_crash')
            else:
                bump('parse_oob_benign_in_this_run')
            failures.append({'class': cls, 'stream': 'parse', 'input': t.hex(), 'text': t.decode('latin-1'),
                             'expected': 'a value or a clean error; the model predicts undefined behaviour (%s)' % mo_,
                             'observed': o, 'size': len(t), 'observed_clean': clean,
                             'replay_cmd': "printf 'json-parse %s\\n' | %s" % (hx(t), VD)})
        else:
            if not clean:
                failures.append({'class': 'unpredicted-crash', 'stream': 'parse', 'input': t.hex(), 'text': t.decode('latin-1'),
                                 'expected': 'a value or a clean error (model: %s)' % mo_, 'observed': o, 'size': len(t),
                                 'replay_cmd': "printf 'json-parse %s\\n' | %s" % (hx(t), VD)})
            elif no != mo_:
                disagreements.append({'stream': 'parse', 'input': t.hex(), 'text': t.decode('latin-1'), 'model': mo_, 'observed': o})

    # ---------------------------------------------------------------- 4. events
    evs = gen_events(c)
    impe, ecr = run_resilient(vdriver, ['event-rt ' + e for e in evs])
    mode, _ = run_lines_sharded(vmodel, ['event-rt %s %s' % (V, e) for e in evs])
    evaluations += len(evs)
    jl = []
    ji = []
    for i, (e, io_, mo_) in enumerate(zip(evs, impe, mode)):
        bump('event')
        if io_.startswith('CRASH'):
            failures.append({'class': 'event-crash', 'stream': 'event', 'input': e, 'expected': 'an equal event', 'observed': io_,
                             'size': len(e), 'replay_cmd': "printf 'event-rt %s\\n' | %s" % (e, VD)})
            continue
        idata, _, irest = io_.partition(' event= ')
        mdata, _, mrest = mo_.partition(' event= ')
        iev = irest.rsplit(' eq=', 1)[0]
        mev = mrest.rsplit(' wf=', 1)[0]
        if idata != mdata or iev != mev:
            disagreements.append({'stream': 'event', 'input': e, 'model': mo_, 'observed': io_})
        if ' wf=1' in mo_:
            nontriv.add(('event', e))
            jl.append('judge-ev %s %s' % (e, iev))
            ji.append(i)
    jo, _ = run_lines_sharded(vmodel, jl)
    for i, o in zip(ji, jo):
        if o != '1':
            failures.append({'class': 'event-data' if vec['event_data_self'] else 'event-other', 'stream': 'event', 'input': evs[i],
                             'expected': 'Event::fromData(Data(e)) equals e in every field (event_eqb)',
                             'observed': impe[i], 'size': len(evs[i]),
                             'replay_cmd': "printf 'event-rt %s\\n' | %s" % (evs[i], VD)})
        else:
            bump('event_oracle_ok')

    # ---------------------------------------------------------------- 5. sanitizer build (thorough)
    if c.tier == 'thorough' and os.environ.get('VERIF_NO_ASAN') is None:
        try:
            vasan = private_copy(ensure_vdriver('asan', units=['vd_json']), 'asan')
            env = dict(os.environ, ASAN_OPTIONS='detect_leaks=0:abort_on_error=0:exitcode=86', UBSAN_OPTIONS='print_stacktrace=0')
            # (a) every input on which the model predicts Oob (sample) must give a sanitizer report
            sample = oob_run[:300]
            ao, aerr = run_isolated(vasan, ['json-parse ' + hx(xl[i]) for i in sample], env=env, timeout=60)
            seen = sum(1 for e in aerr if 'AddressSanitizer' in e or 'runtime error' in e)
            c.notes['asan_on_predicted_oob'] = {'inputs': len(sample), 'sanitizer_reports': seen,
                                                'example': (aerr[0][:400] if aerr else '')}
            for i, o, e in zip(sample, ao, aerr):
                if not ('AddressSanitizer' in e or 'runtime error' in e):
                    disagreements.append({'stream': 'asan', 'input': xl[i].hex(), 'model': modelp[i],
                                          'observed': o, 'what': 'the model predicts undefined behaviour, the sanitizer build reports none'})
            # (b) the inputs the model calls safe must be clean under the sanitizers
            ss = safe_idx if len(safe_idx) < 30000 else c.rng.sample(safe_idx, 30000)
            so2, scr2 = run_resilient(vasan, ['json-parse ' + hx(xl[i]) for i in ss], env=env)
            evaluations += len(ss) + len(sample)
            for (k, rc, err) in scr2:
                i = ss[k]
                failures.append({'class': 'sanitizer-report', 'stream': 'parse-asan', 'input': xl[i].hex(), 'text': xl[i].decode('latin-1'),
                                 'expected': 'no out-of-bounds access (model: %s)' % modelp[i], 'observed': err[-800:], 'size': len(xl[i]),
                                 'replay_cmd': "printf 'json-parse %s\\n' | ASAN_OPTIONS=detect_leaks=0 %s" % (hx(xl[i]), vasan)})
            rt_s = tl if len(tl) < 20000 else c.rng.sample(tl, 20000)
            ro2, rcr2 = run_resilient(vasan, ['json-rt ' + t for t in rt_s] + ['event-rt ' + e for e in evs[:3000]], env=env)
            evaluations += len(rt_s) + min(len(evs), 3000)
            for (k, rc, err) in rcr2:
                failures.append({'class': 'sanitizer-report', 'stream': 'rt-asan', 'input': (rt_s + evs[:3000])[k],
                                 'expected': 'no out-of-bounds access', 'observed': err[-800:], 'size': 0,
                                 'replay_cmd': 'see input'})
            c.notes['asan'] = 'built and used'
        except BuildError as e:
            c.notes['asan'] = 'sanitizer flavor could not be built: %s' % str(e)[-400:]

    # ---------------------------------------------------------------- extraction vs vm_compute (thorough)
    if c.tier == 'thorough':
        ks = [i for i in c.rng.sample(range(len(xl)), min(250, len(xl))) if len(xl[i]) <= 80]
        kt = [i for i in c.rng.sample(range(len(tl)), min(120, len(tl))) if len(tl[i]) <= 400]
        nk, rck, outk = kernel_cross_check(c, vec, [(xl[i], modelp[i]) for i in ks], [(tl[i], model[i]) for i in kt])
        c.notes['extraction_vs_vm_compute'] = {'cases': nk, 'agree': rck == 0}
        evaluations += nk
        if rck != 0:
            disagreements.append({'stream': 'kernel', 'input': 'KernelCheck.v', 'model': 'extracted vmodel', 'observed': outk,
                                  'what': 'the extracted model and vm_compute on the Gallina model differ'})

    # ---------------------------------------------------------------- coverage
    c.cov['evaluations'] = evaluations
    c.cov['distinct_nontrivial'] = len(nontriv)
    c.cov['rule'] = ('tables: 256 bytes x 3 probes + random strings; rt: corpus (%d) + systematic (every byte value in keys and strings, '
                     'shapes to depth 5; %d) + %d seeded random trees (depth <= 5, 1/8 outside the class); parse: corpus (%d) + exhaustive words '
                     'over {,},[,],",a,:,comma,backslash behind an opening bracket (%d) + token-budget sweeps (%d) + %d grammar-based mutated texts; '
                     'events: %d.  non-trivial = distinct string with a byte that is escaped / tree in the property\'s class / text that '
                     'reaches the tokenizer with a result other than the empty value / well-formed event'
                     % (ntc, ntsys, ntrand, nxc, nxex, nxbud, nxrand, len(evs)))
    c.cov['exhaustive'] = True
    c.cov['input_distribution'] = hist
    c.cov['samples'] = [{'stream': 'rt', 'tree': tl[ntc + 5], 'impl': impl[ntc + 5][:200], 'model': model[ntc + 5][:200]},
                        {'stream': 'parse', 'text': xl[nxc + 300].decode('latin-1'), 'impl': implp[nxc + 300], 'model': modelp[nxc + 300]},
                        {'stream': 'parse', 'text': xl[-1].decode('latin-1'), 'impl': implp[-1], 'model': modelp[-1]},
                        {'stream': 'event', 'event': evs[-1][:200], 'impl': impe[-1][:200], 'model': mode[-1][:200]}]
    c.cov['disagreements'] = len(disagreements)
    c.cov['oracle_failures'] = len(failures)

    # ---------------------------------------------------------------- classify and report
    byclass = {}
    for f in failures:
        byclass.setdefault(f['class'], []).append(f)
    c.notes['oracle_failures_by_class'] = {k: len(v) for k, v in byclass.items()}
    for cls, fl in sorted(byclass.items()):
        fl.sort(key=lambda f: (f.get('size', 0), str(f['input'])))
        mini = fl[0]
        kf = c.match_known({'class': cls})
        if kf:
            c.known(kf['id'], kf['what'])
            continue
        payload = dict(mini)
        payload['kind'] = 'oracle'
        payload['count_in_this_run'] = len(fl)
        payload['implementation_variant'] = vec
        c.violation(payload)
    # a switch that is on must be explained by an oracle failure (it always is: the witnesses are in the corpus)
    if not failures:
        if disagreements:
            d = disagreements[0]
            d = dict(d)
            d.update({'kind': 'correspondence', 'count': len(disagreements),
                      'what': 'model (variant %s) and implementation differ; no input on which the code contradicts the property was found' % V})
            c.violation(d, no_input=True)
        for b in broken:
            c.violation({'kind': 'obligation', 'theorem': b['name'], 'why': b.get('why', '')}, no_input=True)
    else:
        unexplained = [d for d in disagreements]
        if unexplained:
            # disagreements next to oracle failures: report them too, they are model errors or new behaviour
            d = dict(unexplained[0])
            d.update({'kind': 'correspondence', 'count': len(unexplained),
                      'what': 'model (variant %s) and implementation differ on an input the oracle does not condemn' % V})
            c.violation(d, no_input=True)
        for b in broken:
            log('broken obligation %s' % b['name'])
            if all(c.match_known({'class': k}) for k in byclass):
                c.violation({'kind': 'obligation', 'theorem': b['name'], 'why': b.get('why', '')}, no_input=True)
    c.notes['disagreement_examples'] = disagreements[:5]
    return c.finish()


# ------------------------------------------------------------------ extraction vs kernel evaluation

def parse_dump(s, i=0):
    """tree in the drivers' format -> (verb, atom, arr, [(key, child)]), next index"""
    verb = s[i] == 'V'
    i += 1
    j = i
    while j < len(s) and s[j] in '0123456789abcdef':
        j += 1
    atom = bytes.fromhex(s[i:j])
    i = j + 1           # '['
    arr = []
    while s[i] != ']':
        c, i = parse_dump(s, i)
        arr.append(c)
    i += 2              # ']{'
    comp = []
    while s[i] != '}':
        j = i
        while s[j] != '=':
            j += 1
        k = bytes.fromhex(s[i:j])
        c, i = parse_dump(s, j + 1)
        comp.append((k, c))
    return (verb, atom, arr, comp), i + 1


def coq_bytes(b):
    return '[' + '; '.join(str(x) for x in b) + ']'


def coq_tree(t):
    verb, atom, arr, comp = t
    return '(D %s %s [%s] [%s])' % ('true' if verb else 'false', coq_bytes(atom), '; '.join(coq_tree(x) for x in arr),
                                    '; '.join('(%s, %s)' % (coq_bytes(k), coq_tree(x)) for k, x in comp))


def coq_outcome(o):
    p = o.split()
    if p[0] == 'OK':
        return 'Ok ' + coq_tree(parse_dump(p[1])[0])
    if p[0] == 'ERR':
        return 'Err ' + p[1]
    if p[0] == 'OOB':
        return 'Oob ' + p[1]
    return 'OutOfFuel'


def kernel_cross_check(c, vec, texts_with_model, trees_with_model):
    """the answers of the extracted model, re-derived by the kernel's vm_compute on the Gallina model"""
    d = os.path.join(BUILD, 'c15-kernel')
    os.makedirs(d, exist_ok=True)
    var = '{| jv_escape_vtab := %s; jv_key_overread := %s; jv_container_key := %s; jv_null_atom := %s; jv_event_data_self := %s |}' % \
        tuple('true' if vec[f] else 'false' for f in FLAGS)
    L = ['From V Require Import Base Jsmn Json.', 'Local Open Scope N_scope.', 'Definition vv : js_variant := %s.' % var]
    n = 0
    for t, mo in texts_with_model:
        L.append('Example p%d : from_json vv %s = %s. Proof. vm_compute. reflexivity. Qed.' % (n, coq_bytes(t), coq_outcome(mo)))
        n += 1
    for tr, mo in trees_with_model:
        m = dict(kv.split('=', 1) for kv in mo.split() if '=' in kv)
        txt = bytes.fromhex(m['text']) if m['text'] != '-' else b''
        L.append('Example p%d : data_to_json vv %s = %s. Proof. vm_compute. reflexivity. Qed.' % (n, coq_tree(parse_dump(tr)[0]), coq_bytes(txt)))
        n += 1
    open(os.path.join(d, 'KernelCheck.v'), 'w').write('\n'.join(L) + '\n')
    rc, out = sh('timeout 1200 coqc -R %s V KernelCheck.v 2>&1' % COQ, cwd=d)
    return n, rc, out[-1500:]


def tree_has_nul(t):
    """does a key or a VERBATIM atom of the encoded tree contain a NUL byte?"""
    import re
    for m in re.finditer(r'([VI{}\[\]=])((?:[0-9a-f]{2})+)', t):
        h = m.group(2)
        if '00' in [h[j:j + 2] for j in range(0, len(h), 2)]:
            return True
    return False
