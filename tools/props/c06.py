"""C06 -- the Promela model emitted by `uscxml-transform -tpml` preserves the chart's behaviour.

Per generated chart (promela datamodel; raise/send/assign/if/log, history, parallel, <initial>, no invoke):
  impl   : uscxml-transform -tpml  ->  spin -T -DTRACE_EXECUTION=1  ->  every trace line (harness/pml_run.py)
  model  : PmlStep.pml_run (extracted) instantiated with the defect switches the implementation shows
  oracle : the interpreter (default engine LargeMicroStep, promela datamodel, vdriver `run`): events consumed,
           per microstep states exited / transitions taken / states entered / log output, configuration reached
Checks: (a) impl trace == model trace, line by line; (b) impl behaviour == interpreter behaviour (the property);
(c) the literals OR-ed into every transition guard == {event names that name_match_spec matches} (trie theorem);
(d) same output for different spin seeds; thorough: (e) `spin -a` + pan with a never claim built from the
predicted configuration sequence."""
import copy, json, os, random, re, sys, hashlib
from vlib import *
from chart_common import impl_line, canon, first_diff, FUEL
import chartgen as G
sys.path.insert(0, HARNESS)
import pml_run as P

# bit positions of PmlStep.pml_variant as extract/pmlstep/driver.ml reads them; bit 8 is no defect but a variant
# (histories covered inner-first, the alternative repair of history_completion_covered)
SWITCHES = ['in_predicate_reads_root', 'initial_ancestor_loop_breaks', 'deep_completion_test_unnegated',
            'history_default_only_if_parent_inactive', 'nested_history_for_shallow', 'star_in_descriptor_list_ignored',
            'history_completion_covered', 'transition_found_flag_stale', '(variant) history_covering_inner_first',
            'cond_not_parenthesised', 'completion_ancestors_only_when_not_a_child']
NV = len(SWITCHES)
VARIANT_BIT = 8
COND_BIT = 9
DEFECTS = [k for k in range(NV) if k != VARIANT_BIT]
AW = ''.join('0' if k == VARIANT_BIT else '1' for k in range(NV))      # the template as first found
K_ITER = 30


# ------------------------------------------------------------------ s-expression -> chart (inverse of chartgen.sx_tree)
def _sx_parse(s):
    toks = re.findall(r'\(|\)|[^\s()]+', s)
    pos = [0]

    def one():
        t = toks[pos[0]]
        pos[0] += 1
        if t == '(':
            l = []
            while toks[pos[0]] != ')':
                l.append(one())
            pos[0] += 1
            return l
        return t
    return one()


def _ie(x):
    if x == 'bad':
        return 'bad'
    if x[0] in ('n', 'v'):
        return (x[0], int(x[1]))
    return (x[0], _ie(x[1]), _ie(x[2]))


def _be(x):
    if isinstance(x, str):
        return x
    if x[0] == 'in':
        return ('in', int(x[1]))
    if x[0] == '<':
        return ('<', _ie(x[1]), _ie(x[2]))
    if x[0] == '!':
        return ('!', _be(x[1]))
    return (x[0], _be(x[1]), _be(x[2]))


def _ev(h):
    return b'' if h == '-' else bytes.fromhex(h)


def _instr(x):
    k = x[0]
    if k in ('raise', 'send', 'sendbt', 'sendbg'):
        return (k, int(x[1]), _ev(x[2]))
    if k == 'log':
        return ('log', int(x[1]), _ie(x[2]))
    if k == 'assign':
        return ('assign', int(x[1]), int(x[2]), _ie(x[3]))
    if k == 'if':
        items = []
        for y in x[3:]:
            if y[0] == 'elseif':
                items.append(('elseif', _be(y[1])))
            elif y[0] == 'else':
                items.append(('else',))
            else:
                items.append(_instr(y))
        return ('if', int(x[1]), _be(x[2]), items)
    raise ValueError(x)


def tree_of_sx(text):
    def node(x):
        assert x[0] == 'N'
        kind, sid, ini = x[1], int(x[2]), x[3]
        sect = {y[0]: y[1:] for y in x[4:]}
        tr = []
        for t in sect['T']:
            tr.append(G.trans(int(t[1]), None if t[2] == '-' else _ev(t[2]), None if t[3] == '-' else _be(t[3]),
                              None if t[4] == '-' else [int(z) for z in t[4]], t[5] == '1', [_instr(i) for i in t[6]]))
        return G.node(kind, sid, [node(k) for k in sect['K']], tr, None if ini == '-' else [int(z) for z in ini],
                      [[_instr(i) for i in b] for b in sect['EN']], [[_instr(i) for i in b] for b in sect['EX']],
                      [(int(d[0]), _ie(d[1])) for d in sect['D']])
    return node(_sx_parse(text))


def _bare(cond):
    """drop the outermost parentheses of a rendered condition whose top-level operator is || or &&"""
    if not (cond.startswith('(') and cond.endswith(')')):
        return cond
    depth = 0
    top = False
    for i, ch in enumerate(cond):
        if ch == '(':
            depth += 1
        elif ch == ')':
            depth -= 1
            if depth == 0 and i != len(cond) - 1:
                return cond                     # the first parenthesis does not enclose everything
        elif depth == 1 and (cond.startswith(' || ', i) or cond.startswith(' &amp;&amp; ', i)):
            top = True
    return cond[1:-1] if top else cond


def pml_scxml(tree, bare=False):
    """the document given to the transpiler: <log> gets a label, because the emitted printf has no newline and
    two numbers in a row could not be told apart.  bare: transition conditions `(x || y)` / `(x && y)` are
    spelled `x || y` / `x && y`, as a person writes them (chartgen always parenthesises)"""
    x = G.to_scxml(tree, 'promela').replace('<log expr=', '<log label="L" expr=')
    if bare:
        x = re.sub(r'(<transition\b[^>]*? cond=")([^"]*)(")', lambda m: m.group(1) + _bare(m.group(2)) + m.group(3), x)
    return x


# ------------------------------------------------------------------ generators
def strip_in(x, rng):
    """replace In() atoms by comparisons of variables"""
    if isinstance(x, tuple):
        if x and x[0] == 'in':
            return ('<', ('v', rng.choice([1, 2])), ('n', rng.randint(0, 3)))
        return tuple(strip_in(y, rng) for y in x)
    if isinstance(x, list):
        return [strip_in(y, rng) for y in x]
    if isinstance(x, dict):
        return {k: (strip_in(v, rng) if k in ('trans', 'onentry', 'onexit', 'kids', 'cond', 'body') else v) for k, v in x.items()}
    return x


def instrument(tree, rng, vidc):
    """a <log> of a constant after raise/send/assign elements makes the executed content visible in the model's output"""
    def blk(b):
        out = []
        for i in b:
            if i[0] == 'if':
                items = []
                for y in i[3]:
                    if y[0] in ('elseif', 'else'):
                        items.append(y)
                    else:
                        items.extend(blk([y]))
                out.append(('if', i[1], i[2], items))
                continue
            out.append(i)
            if i[0] in ('raise', 'send', 'assign') and rng.random() < 0.6:
                out.append(('log', vidc(), ('n', i[1])))
        return out
    for n in G.walk(tree):
        n['onentry'] = [blk(b) for b in n.get('onentry', [])]
        n['onexit'] = [blk(b) for b in n.get('onexit', [])]
        for t in n.get('trans', []):
            t['body'] = blk(t['body'])
    return tree


def gen_chart(rng, kind):
    vid = [500]

    def vidc():
        vid[0] += 1
        return vid[0]
    for _ in range(200):
        t = G.rand_chart(rng, content=0.55, faults=0.0)
        sx = G.sx_tree(t)
        if kind == 'history' and '(N h' not in sx:
            continue
        if kind == 'initial' and '(N initial' not in sx and not re.search(r'\(N state \d+ \(', sx):
            continue
        break
    if kind != 'with-in':
        t = strip_in(t, rng)
    if kind == 'history':
        # transitions targeting history states, so that they are entered
        hs = [n for n in G.walk(t) if n['kind'] in ('hs', 'hd')]
        props = [n for n in G.proper_states(t) if n['kind'] != 'final']
        for h in hs:
            for _ in range(rng.randint(1, 2)):
                src = rng.choice(props)
                src['trans'].append(G.trans(vidc(), rng.choice([None, b'e', b'f', b'*']), None, [h['sid']], False, []))
        # make events flow
        for n in props:
            if rng.random() < 0.5:
                n['onentry'] = n.get('onentry', []) + [[('raise', vidc(), rng.choice(G.EVENTS))]]
    if kind == 'orcond':
        # conditions whose top-level operator is || (and some &&), over the variables
        def cmp_():
            return ('<', rng.choice([('v', 1), ('v', 2), ('n', rng.randint(0, 3))]), rng.choice([('v', 1), ('v', 2), ('n', rng.randint(0, 3))]))
        for n in G.walk(t):
            for tr in n.get('trans', []):
                if rng.random() < 0.6:
                    tr['cond'] = (rng.choice(['|', '|', '|', '&']), cmp_(), rng.choice([cmp_(), ('!', cmp_()), ('&', cmp_(), cmp_()), ('|', cmp_(), cmp_())]))
    if kind == 'pow2':
        pad_to_power_of_two(t, rng, vidc)
    if kind == 'star':
        for n in G.walk(t):
            for tr in n.get('trans', []):
                if tr['ev'] is not None and rng.random() < 0.5:
                    tr['ev'] = rng.choice([b'f *', b'* e', b'e.x *', b'e.* f', b'f. e.x', b'e.x.*'])
    # keep events flowing: the only external events are the ones the chart sends itself
    for n in G.proper_states(t):
        if n['kind'] != 'final' and not n.get('onentry') and rng.random() < 0.2:
            n['onentry'] = [[(rng.choice(['raise', 'raise', 'send']), vidc(), rng.choice(G.EVENTS))]]
    if rng.random() < 0.6:
        instrument(t, rng, vidc)
    return t


KINDS = ['with-in'] * 2 + ['no-in'] * 4 + ['history'] * 3 + ['initial'] * 1 + ['star'] * 1 + ['orcond'] * 2 + ['pow2'] * 2


def is_pow2(n):
    return n >= 1 and (n & (n - 1)) == 0


def literal_estimate(tree):
    """number of literals PromelaCodeAnalyzer enumerates: event names (descriptors without trailing * and .,
    names raised and sent, done.state.<id> of compound and parallel states) + _sessionid + _name"""
    names = set()

    def blk(b):
        for i in b:
            if i[0] in ('raise', 'send', 'sendbt', 'sendbg'):
                names.add(i[2])
            elif i[0] == 'if':
                blk([y for y in i[3] if y[0] not in ('elseif', 'else')])
    for n in G.walk(tree):
        for b in n.get('onentry', []) + n.get('onexit', []):
            blk(b)
        for tr in n.get('trans', []):
            blk(tr['body'])
            if tr['ev'] is not None:
                for d in tr['ev'].split():
                    if d.endswith(b'*'):
                        d = d[:-1]
                    if d.endswith(b'.'):
                        d = d[:-1]
                    if d:
                        names.add(d)
        if n['kind'] == 'parallel' or (n['kind'] == 'state' and any(k['kind'] in ('state', 'parallel', 'final') for k in n['kids'])):
            names.add(b'done.state.s%d' % n['sid'])
    return len(names) + 2


def pad_to_power_of_two(tree, rng, vidc):
    """the widths of `unsigned x : n` in the emitted model are computed from the numbers of states, transitions and
    literals: put one of them (or its successor) on a power of two"""
    what = rng.choice(['states', 'states+1', 'trans', 'trans+1', 'literals', 'literals+1'])
    props = [n for n in G.proper_states(tree) if n['kind'] != 'final']
    host = rng.choice(props) if props else None
    maxsid = max(n['sid'] for n in G.walk(tree))
    for _ in range(70):
        nst = sum(1 for _ in G.walk(tree))
        ntr = sum(len(n.get('trans', [])) for n in G.walk(tree))
        nlit = literal_estimate(tree)
        v = {'states': nst, 'states+1': nst + 1, 'trans': ntr, 'trans+1': ntr + 1, 'literals': nlit, 'literals+1': nlit + 1}[what]
        if is_pow2(v) and v >= 4:
            break
        if what.startswith('states'):
            maxsid += 1
            tree['kids'].append(G.node('state', maxsid))
        elif what.startswith('trans') and host is not None:
            host['trans'].append(G.trans(vidc(), b'zz', None, None, False, []))
        elif host is not None:
            # one never-enabled transition whose body names new events: literals only
            pad = [tr for tr in host['trans'] if tr['ev'] == b'zz.pad']
            if not pad:
                host['trans'].append(G.trans(vidc(), b'zz.pad', None, None, False, []))
            else:
                pad[0]['body'].append(('raise', vidc(), b'p%d' % len(pad[0]['body'])))
        else:
            break
    return tree


# ------------------------------------------------------------------ views
def sid_of(idstr):
    if idstr == '':
        return '0'
    return idstr[1:] if idstr.startswith('s') else idstr


def view_raw(raw, state_sid, trans_vid, evname):
    """raw TRACE tokens -> observable view; returns (tokens, truncated, queue_full)"""
    out = []
    cfg = set()
    ms = False
    trunc = False
    qfull = False

    def close():
        nonlocal ms
        if ms:
            out.append('}MS')
            out.append('CFG:' + ','.join(sorted(cfg, key=int)))
            ms = False
    for t in raw:
        if t == 'STEP':
            close()
        elif t.startswith('EV:'):
            e = evname(t[3:])
            if e is not None:
                out.append('EV:' + e)
        elif t in ('INIT', 'FOUND'):
            out.append('MS{')
            ms = True
        elif t.startswith('X:'):
            s = state_sid(int(t[2:]))
            out.append('X:' + s)
            cfg.discard(s)
        elif t.startswith('E:'):
            s = state_sid(int(t[2:]))
            out.append('E:' + s)
            cfg.add(s)
        elif t.startswith('PT:'):
            out.append('T:' + trans_vid(int(t[3:])))
        elif t.startswith('LOG:'):
            out.append(t)
        elif t == 'FIN':
            close()
            out.append('FIN')
        elif t == 'TIMEOUT':
            close()
        elif t == 'LIMIT':
            trunc = True
            break
        elif t == 'QFULL' or (t.startswith('ERR:') and 'd_step_blocks' in t):
            trunc = True
            qfull = True
            break
        elif t.startswith('ERR:') or t.startswith('??:'):
            out.append(t)
    if not trunc:
        close()
    return out, trunc, qfull


def view_impl(r):
    lits = r['pml']['literal']
    ann = r['ann']
    return view_raw(r['raw'], lambda i: sid_of(ann['state_id'].get(i, '?')), lambda j: ann['trans_vid'].get(j, '?'),
                    lambda n: None if n == '0' else lits.get(int(n), '?' + n).encode('latin-1').hex())


def view_model(mline):
    raw, sids, vids, status = split_model(mline)
    return view_raw(raw, lambda i: sids[i], lambda j: vids[j], lambda h: None if h == '-' else h)


def split_model(mline):
    if ' | ' not in mline:
        return [], [], [], 'model-error'
    a, b = mline.split(' | ', 1)
    m = re.match(r'S:(\S*) T:(\S*) R:(\S+)', b.strip())
    sids = m.group(1).split(',') if m.group(1) else []
    vids = m.group(2).split(',') if m.group(2) else []
    return a.split(), sids, vids, m.group(3)


def view_interp(line):
    toks = canon(line)[0]
    out = []
    want = False
    for t in toks:
        if t.startswith('EV:'):
            out.append(t)
        elif t == 'MS{':
            out.append(t)
        elif t == '}MS':
            out.append(t)
            want = True
        elif t.startswith('CFG:'):
            if want:
                out.append(t)
                want = False
        elif t.startswith('X{:'):
            out.append('X:' + t[3:])
        elif t.startswith('E{:'):
            out.append('E:' + t[3:])
        elif t.startswith('T{:'):
            out.append('T:' + t[3:])
        elif t.startswith('LOG:'):
            out.append(t)
        elif t == 'COMPL{':
            out.append('FIN')
    trunc = sum(1 for x in toks if x.startswith('RET:')) >= FUEL
    return out, trunc


def complete_prefix(v):
    last = 0
    for i, t in enumerate(v):
        if t.startswith('CFG:'):
            last = i + 1
    return v[:last]


def same_behaviour(a, atr, b, btr, noev=False):
    """two observed behaviours, each possibly a truncated observation; a model of a document without
    transitions prints no line about the event it dequeued (noev)"""
    if noev:
        a = [t for t in a if not t.startswith('EV:')]
        b = [t for t in b if not t.startswith('EV:')]
    if atr:
        a = complete_prefix(a)
    if btr:
        b = complete_prefix(b)
    if not atr and not btr:
        return a == b
    if atr and not btr:
        return len(a) <= len(b) and b[:len(a)] == a
    if btr and not atr:
        return len(b) <= len(a) and a[:len(b)] == b
    n = min(len(a), len(b))
    return a[:n] == b[:n]


def norm_impl_raw(r):
    lits = r['pml']['literal']
    out = []
    for t in r['raw']:
        if t.startswith('EV:'):
            n = int(t[3:])
            out.append('EV:' + ('-' if n == 0 else lits.get(n, '?%d' % n).encode('latin-1').hex()))
        elif t.startswith('ERR:') and 'd_step_blocks' in t:
            out.append('QFULL')
            break
        else:
            out.append(t)
    return out


def cut_iters(raw, k):
    its = []
    cur = None
    for t in raw:
        if t == 'STEP':
            if cur is not None:
                its.append(cur)
            cur = [t]
        elif cur is None:
            its.append([t])
        else:
            cur.append(t)
    if cur is not None:
        its.append(cur)
    limited = bool(its) and bool(its[-1]) and its[-1][-1] == 'LIMIT'
    if limited:
        its = its[:-1]
    return its[:k], limited


def raw_equal(impl_raw, model_raw):
    a, al = cut_iters(impl_raw, K_ITER)
    b, bl = cut_iters(model_raw, K_ITER)
    if al or bl:
        n = min(len(a), len(b))
        a, b = a[:n], b[:n]
    fa = [t for it in a for t in it]
    fb = [t for it in b for t in it]
    return fa == fb, fa, fb


def vbits(vec, flip=None):
    v = list(vec)
    if flip is not None:
        v[flip] = '0'
    return ''.join(v)


def mline(vb, tree, caps=(7, 13)):
    return 'pml %s %d %d %d %s' % (vb, caps[0], caps[1], K_ITER + 3, G.sx_tree(tree))


# ------------------------------------------------------------------ the check
def run(c):
    broken = c.prove()
    vd = ensure_vdriver('hooks', units=['vd_run'])
    vm = ensure_vmodel('pmlstep')
    build = HOOKS
    work = os.path.join(BUILD, 'c06-work')
    import shutil
    shutil.rmtree(work, ignore_errors=True)
    quick = c.tier == 'quick'
    c.assumptions += [
        'spin 6.5.2 simulation semantics: inside d_step the first executable option of an `if` is taken; a run is observed for at most %d spin steps' % P.SPIN_STEPS,
        'the transpiler is driven through the uscxml-transform binary built from the working tree; trace lines are printed by the emitted model itself',
        'the oracle is the interpreter with its default engine (LargeMicroStep) and the promela datamodel on the same document '
        '(the <log> elements carry a label only in the copy given to the transpiler)',
        'integer values stay far below 2^31 (expressions of the generated charts grow linearly with the number of steps)',
        'external events are those the chart sends to itself; channel capacities are read from the emitted model; a run that fills a channel is compared up to that point',
    ]
    corpus = json.load(open(os.path.join(ROOT, 'corpus', 'c06.json')))

    # ---- 1. defect switches of the implementation, from the witnesses
    wit = [(w, tree_of_sx(w['sx'])) for w in corpus]
    wres = P.run_many([('w%d' % i, pml_scxml(t, True)) for i, (w, t) in enumerate(wit)], os.path.join(work, 'wit'), build)
    caps = (7, 13)
    for r in wres:
        if r['status'] == 'ok' and r['pml']['queues'].get('ROOT_iQ'):
            caps = (r['pml']['queues']['ROOT_iQ'], r['pml']['queues'].get('ROOT_eQ', 13))
            break
    c.notes['channel_capacities'] = {'iQ': caps[0], 'eQ': caps[1]}
    vec = ['0'] * NV
    swnotes = {}
    lines = []
    for (w, t) in wit:
        lines.append(mline(AW, t, caps))
        lines.append(mline(vbits(AW, w['switch']) if w['switch'] is not None else '0' * NV, t, caps))
        lines.append(mline('1' * NV, t, caps))
    rc, mo, _ = run_lines(vm, lines)
    needs_pass = False
    for i, ((w, t), r) in enumerate(zip(wit, wres)):
        if r['status'] != 'ok':
            swnotes[w['name']] = r['status']
            continue
        needs_pass = needs_pass or r.get('needs_pass_define', False)
        ir = norm_impl_raw(r)
        on, _, _ = raw_equal(ir, split_model(mo[3 * i])[0])
        off, _, _ = raw_equal(ir, split_model(mo[3 * i + 1])[0])
        if w['switch'] == 6 and not on and not off and raw_equal(ir, split_model(mo[3 * i + 2])[0])[0]:
            vec[6] = '1'
            vec[VARIANT_BIT] = '1'
            swnotes[w['name']] = 'covering walks the histories inner-first (alternative repair)'
            continue
        if w['switch'] is None:
            swnotes[w['name']] = 'agrees' if on else 'model differs'
            continue
        if on and not off:
            vec[w['switch']] = '1'
            swnotes[w['name']] = 'present'
        elif off and not on:
            swnotes[w['name']] = 'absent'
        elif on and off:
            swnotes[w['name']] = 'witness does not distinguish'
            vec[w['switch']] = '1'
        else:
            swnotes[w['name']] = 'neither variant matches'
            vec[w['switch']] = '1'
    vec = ''.join(vec)
    # second pass: a witness can need other switches at their detected value to distinguish its own
    # (the completion guard only exists in a template whose deep-completion test is repaired)
    lines = []
    for (w, t) in wit:
        k = w['switch'] if w['switch'] is not None else 0
        lines.append(mline(vec[:k] + '1' + vec[k + 1:], t, caps))
        lines.append(mline(vec[:k] + '0' + vec[k + 1:], t, caps))
    rc, mo, _ = run_lines(vm, lines)
    v2 = list(vec)
    for i, ((w, t), r) in enumerate(zip(wit, wres)):
        if r['status'] != 'ok' or w['switch'] is None or w['switch'] == 6:
            continue
        ir = norm_impl_raw(r)
        on = raw_equal(ir, split_model(mo[2 * i])[0])[0]
        off = raw_equal(ir, split_model(mo[2 * i + 1])[0])[0]
        if on != off:
            v2[w['switch']] = '1' if on else '0'
            swnotes[w['name']] = 'present' if on else 'absent'
    vec = ''.join(v2)
    c.notes['defect_switches'] = dict(zip(SWITCHES, vec))
    c.notes['witnesses'] = swnotes
    c.notes['ltl_needs_state_named_pass'] = needs_pass

    # ---- 2. cases
    rng = random.Random(c.seed * 104729 + 6)
    cases = [{'tree': t, 'origin': 'corpus:' + w['name'], 'bare': True} for (w, t) in wit]

    def cvec(x):
        """the switches for one case: the missing parentheses only matter for a document that leaves them out"""
        return vec if x['bare'] else vec[:COND_BIT] + '0' + vec[COND_BIT + 1:]
    nrand = 1000 if quick else 20000
    if os.environ.get('VERIF_C06_N'):
        nrand = int(os.environ['VERIF_C06_N'])
    for i in range(nrand):
        k = KINDS[i % len(KINDS)]
        cases.append({'tree': gen_chart(rng, k), 'origin': 'random-' + k, 'bare': k == 'orcond' or rng.random() < 0.5})
    items = [('c%d' % i, pml_scxml(x['tree'], x['bare'])) for i, x in enumerate(cases)]
    res = P.run_many(items, work, build)
    model, mcr = run_lines_sharded(vm, [mline(cvec(x), x['tree'], caps) for x in cases], timeout=1500)
    large, lcr = run_lines_sharded(vd, [impl_line('large', x['tree'], 'promela', False, []) for x in cases], timeout=1500)
    fast, fcr = run_lines_sharded(vd, [impl_line('fast', x['tree'], 'promela', False, []) for x in cases], timeout=1500)
    gmodel, _ = run_lines_sharded(vm, ['guards %s %s' % (cvec(x), G.sx_tree(x['tree'])) for x in cases], timeout=1500)
    gspec, _ = run_lines_sharded(vm, ['guardspec %s' % G.sx_tree(x['tree']) for x in cases], timeout=1500)

    attrs = sorted(set(tr['ev'] for x in cases for n in G.walk(x['tree']) for tr in n.get('trans', []) if tr['ev'] is not None))
    rc, ro, _ = run_lines(vm, ['resolvable %s' % G.hx(a) for a in attrs]) if attrs else (0, [], '')
    resolvable = dict(zip(attrs, ro))
    status_hist = {}
    tokkinds = {}
    corr_bad = []           # impl trace != model trace
    hung = []
    oracle_bad = []         # impl behaviour != interpreter behaviour
    guard_bad = []          # emitted guard literals != name_match_spec
    guard_corr_bad = []
    nontriv = set()
    qfull = 0
    hist = {'by_origin': {}, 'with_history': 0, 'with_parallel': 0, 'with_initial_element': 0, 'with_In': 0, 'terminated': 0, 'blocked_on_empty_queue': 0,
            'observation_limit': 0, 'transitions_with_event': 0, 'width_boundaries': {}, 'bare_conditions': 0}
    for i, (x, r) in enumerate(zip(cases, res)):
        o = x['origin'].split(':')[0]
        hist['by_origin'][o] = hist['by_origin'].get(o, 0) + 1
        sx = G.sx_tree(x['tree'])
        hist['with_history'] += '(N h' in sx
        hist['with_parallel'] += '(N parallel' in sx
        hist['with_initial_element'] += '(N initial' in sx
        hist['with_In'] += '(in ' in sx
        status_hist[r['status']] = status_hist.get(r['status'], 0) + 1
        if r['status'] != 'ok':
            continue
        for t in r['raw']:
            k = t.split(':')[0]
            tokkinds[k] = tokkinds.get(k, 0) + 1
        nlit = len(r['pml']['literal'])
        for key, val in (('states', r['ann']['nstates']), ('states+1', r['ann']['nstates'] + 1), ('transitions', r['ann']['ntrans']),
                         ('transitions+1', r['ann']['ntrans'] + 1), ('literals', nlit), ('literals+1', nlit + 1)):
            if val >= 4 and is_pow2(val):
                hist['width_boundaries'][key] = hist['width_boundaries'].get(key, 0) + 1
        hist['bare_conditions'] += bool(x['bare'] and re.search(r'<transition\b[^>]*? cond="[^("][^"]*( \|\| | &amp;&amp; )', items[i][1]))
        if 'FIN' in r['raw']:
            hist['terminated'] += 1
        elif 'TIMEOUT' in r['raw']:
            hist['blocked_on_empty_queue'] += 1
        else:
            hist['observation_limit'] += 1
        ir = norm_impl_raw(r)
        mraw, sids, vids, mstatus = split_model(model[i])
        eq, fa, fb = raw_equal(ir, mraw)
        if not eq:
            corr_bad.append(i)
        elif 'LIMIT' in ir and mstatus in ('terminated', 'blocked', 'queue-full'):
            # the model comes to rest within K_ITER iterations, the emitted model is still running after SPIN_STEPS
            # statements (e.g. a loop counter too narrow for its bound): a prefix that agrees is no agreement
            corr_bad.append(i)
            hung.append(i)
        # numbering: the annotated document must number states and transitions as the model does
        ann = r['ann']
        # (<initial> elements and the root have no id)
        if ann and (ann['nstates'] != len(sids) or
                    any(ann['state_id'].get(k, '') not in ('', 's' + sids[k]) for k in range(min(ann['nstates'], len(sids)))) or
                    [ann['trans_vid'].get(k, '?') for k in range(ann['ntrans'])] != vids):
            if i not in corr_bad:
                corr_bad.append(i)
        vp, ptr, pq = view_impl(r)
        qfull += pq
        vi, itr = view_interp(large[i])
        if sum(1 for t in vp if t.startswith('CFG:')) >= 3:
            nontriv.add(hashlib.sha1(sx.encode()).hexdigest())
        if large[i].startswith('CRASH'):
            oracle_bad.append((i, 'interpreter-crash'))
        elif not same_behaviour(vp, ptr, vi, itr, noev=(len(vids) == 0)):
            oracle_bad.append((i, None))
        # guards
        g = r['pml']['guards']
        gm = gmodel[i].split()
        gs = gspec[i].split()
        for j in range(len(gs)):
            if j not in g:
                continue
            impl_l = g[j]['literals']
            if impl_l == [] and j < len(gm) and gm[j] == '-' and (guard_trans(x['tree'], j) or {}).get('cond') == 'false':
                impl_l = None       # `&& (false)` is the parenthesised condition "false" of a transition without event test
            impl_s = '-' if impl_l is None else '[' + ','.join(sorted(set(z.encode('latin-1').hex() for z in impl_l))) + ']'
            hist['transitions_with_event'] += impl_l is not None
            if j < len(gm) and impl_s != gm[j]:
                guard_corr_bad.append((i, j, impl_s, gm[j]))
            spec = gs[j]
            if spec.startswith('all:'):
                ok = impl_s == '-' or impl_s == spec[4:]
            else:
                ok = impl_s == spec
            if not ok:
                guard_bad.append((i, j, impl_s, spec))

    # ---- 3. classify oracle failures with the model: which single repaired switch makes the model behave as the interpreter
    classes = {}
    if oracle_bad:
        idxs = [i for i, k in oracle_bad if k is None]
        lines = []
        for i in idxs:
            for k in range(NV):
                lines.append(mline(vbits(cvec(cases[i]), k), cases[i]['tree'], caps))
            lines.append(mline('0' * NV, cases[i]['tree'], caps))
        mo, _ = run_lines_sharded(vm, lines, timeout=1500)
        per = NV + 1
        # the oracle itself must be reproducible: the large engine is run again on these charts
        # (each in a process of its own: what was seen to vary is the large engine's result for the same document when
        # several interpreters have lived in one process)
        from concurrent.futures import ThreadPoolExecutor
        with ThreadPoolExecutor(max_workers=NCPU) as ex:
            large2 = list(ex.map(lambda i: (run_lines(vd, [impl_line('large', cases[i]['tree'], 'promela', False, [])])[1] or ['CRASH'])[0], idxs))
        for n, i in enumerate(idxs):
            if view_interp(large2[n]) != view_interp(large[i]):
                classes.setdefault('interpreter-not-reproducible(large-engine)', []).append(i)
                continue
            vi, itr = view_interp(large[i])
            vf, ftr = view_interp(fast[i])
            vp, ptr, pq = view_impl(res[i])
            noev = res[i]['ann']['ntrans'] == 0
            cls = None
            for k in DEFECTS:
                if cvec(cases[i])[k] != '1':
                    continue
                vm_, mtr, _ = view_model(mo[n * per + k])
                if same_behaviour(vm_, mtr, vi, itr, noev):
                    cls = SWITCHES[k]
                    break
            if cls is None:
                vm_, mtr, _ = view_model(mo[n * per + NV])
                if same_behaviour(vm_, mtr, vi, itr, noev):
                    cls = 'several-switches'
                elif same_behaviour(vp, ptr, vf, ftr, noev):
                    cls = 'engines-differ(model-follows-fast-engine)'
                elif same_behaviour(vm_, mtr, vf, ftr, noev):
                    cls = 'several-switches+engines-differ'
                else:
                    cls = 'other'
            if i in corr_bad:
                cls += '+model-disagrees'
            classes.setdefault(cls, []).append(i)
        for i, k in oracle_bad:
            if k is not None:
                classes.setdefault(k, []).append(i)

    # ---- 3b. declared widths of structured variables (ChartToPromela::declForRange) at their boundaries
    probes = range_probes(vd, os.path.join(work, 'range'), build)
    c.cov['declared_width_probes'] = {'documents': probes['n'], 'different': {k: len(v) for k, v in probes['bad'].items()}}

    # ---- 4. same output whatever seed resolves spin's choices (supports pml_deterministic)
    sample = [i for i, r in enumerate(res) if r['status'] == 'ok'][:: (10 if quick else 40)][:200]
    det_bad = []
    if sample:
        saved = P.SPIN_STEPS
        r2 = P.run_many([('d%d' % i, items[i][1]) for i in sample], os.path.join(work, 'det'), build)
        for i, a in zip(sample, r2):
            if a['status'] == 'ok' and norm_impl_raw(a) != norm_impl_raw(res[i]):
                det_bad.append(i)
    seeds_checked = determinism_seeds(c, [items[i] for i in sample[:40]], work, build)

    # ---- 5. thorough: pan with a never claim from the predicted configuration sequence
    pan = None
    if not quick or os.environ.get('VERIF_C06_PAN'):
        pan = pan_check(c, cases, res, model, items, work, build, 200 if not quick else int(os.environ.get('VERIF_C06_PAN', '10')))
        c.cov['pan'] = {k: v for k, v in pan.items() if k != 'bad'}

    # ---- coverage
    c.cov['evaluations'] = 4 * len(cases)
    c.cov['distinct_nontrivial'] = len(nontriv)
    c.cov['rule'] = ('witness corpus (%d) + %d seeded random charts of the fragment (generic with In(); without In(); history-heavy with transitions into '
                     'histories; <initial>/deep initial; descriptor lists with wildcards; about 60%% instrumented with <log> after raise/send/assign); '
                     'each transpiled, simulated with spin, run on the extracted PmlStep model, and interpreted with both engines; '
                     'non-trivial = distinct chart whose emitted model visits at least 3 configurations') % (len(wit), nrand)
    c.cov['input_distribution'] = dict(hist, transpile_status=status_hist, trace_line_kinds=tokkinds, runs_filling_a_channel=qfull)
    c.cov['model_disagreements'] = len(corr_bad)
    c.cov['emitted_model_still_running_where_the_model_rests'] = len(hung)
    c.cov['guard_literal_disagreements'] = {'with_model': len(guard_corr_bad), 'with_name_match_spec': len(guard_bad)}
    c.cov['event_attributes'] = {'distinct': len(attrs), 'satisfying_the_hypothesis_of_trie_guard_literals_correct': sum(1 for a in attrs if resolvable.get(a) == '1'),
                                 'outside': [a.decode('latin-1') for a in attrs if resolvable.get(a) != '1'][:10]}
    c.cov['behaviour_differs_from_interpreter'] = {k: len(v) for k, v in classes.items()}
    c.cov['spin_seed_dependence'] = {'reruns': len(sample), 'different': len(det_bad), 'other_seeds': seeds_checked}
    ok_idx = [i for i, r in enumerate(res) if r['status'] == 'ok']
    c.cov['samples'] = [{'origin': cases[i]['origin'], 'scxml': items[i][1][:500], 'impl_trace': ' '.join(res[i]['raw'][:60]),
                         'interpreter': ' '.join(view_interp(large[i])[0][:40])} for i in ok_idx[len(wit) + 1:len(wit) + 3]]

    # ---- violations
    def size(i):
        return (len(G.sx_tree(cases[i]['tree'])), i)

    def replay(i, extra):
        r = {'origin': cases[i]['origin'], 'scxml': items[i][1], 'chart_sexp': G.sx_tree(cases[i]['tree']),
             'replay_cmd': "python3 /verif/harness/pml_run.py <file with the scxml above>   # interpreter: echo '%s' | /verif/.build/vdriver-hooks/vdriver" %
                           impl_line('large', cases[i]['tree'], 'promela', False, [])[:20000]}
        r.update(extra)
        return r
    if needs_pass:
        f = c.match_known({'class': 'ltl-needs-state-pass'})
        if f:
            c.known(f['id'], f['what'])
        else:
            i = 0
            c.violation(replay(i, {'kind': 'oracle', 'class': 'ltl-needs-state-pass',
                                   'expected': 'an emitted model that spin accepts',
                                   'observed': "spin: Error: undeclared variable: ROOT_PASS (the emitted `ltl w3c { eventually (ROOT_config[ROOT_PASS]) }` "
                                               "needs a state with id 'pass'; the harness defines the macro to go on)"}))
    for st, n in status_hist.items():
        if st != 'ok':
            i = sorted([k for k, r in enumerate(res) if r['status'] == st], key=size)[0]
            f = c.match_known({'class': st})
            if f:
                c.known(f['id'], f['what'])
            else:
                c.violation(replay(i, {'kind': 'oracle', 'class': st, 'count': n, 'expected': 'a model spin accepts', 'observed': res[i].get('message', st)}))
    for cls, idxs in sorted(classes.items()):
        f = c.match_known({'class': cls})
        if f:
            c.known(f['id'], f['what'] + ' (%d charts this run)' % len(idxs))
            continue
        i = sorted(idxs, key=size)[0]
        vp, ptr, _ = view_impl(res[i])
        vi, itr = view_interp(large[i])
        a, b = (complete_prefix(vp) if ptr else vp), (complete_prefix(vi) if itr else vi)
        p = first_diff(a, b) or 0
        c.violation(replay(i, {'kind': 'oracle', 'class': cls, 'count': len(idxs),
                               'expected_interpreter': ' '.join(b[max(0, p - 10):p + 12]), 'observed_promela_model': ' '.join(a[max(0, p - 10):p + 12])}))
    seen = set(k for k in classes if not c.match_known({'class': k}))      # one report per class
    for (i, j, impl_s, spec) in sorted(guard_bad, key=lambda z: size(z[0])):
        cls = 'guard-literals'
        if vec[5] == '1' and re.search(rb'(^| )\*( |$)', guard_attr(cases[i]['tree'], j) or b''):
            cls = SWITCHES[5]
        if cls in seen:
            continue
        seen.add(cls)
        f = c.match_known({'class': cls})
        if f:
            c.known(f['id'], f['what'])
            continue
        c.violation(replay(i, {'kind': 'oracle', 'class': cls, 'transition_postfix_index': j, 'count': len(guard_bad),
                               'expected_by_name_match_spec': spec, 'observed_guard_literals': impl_s}))
    for cls, bad in sorted(probes['bad'].items()):
        f = c.match_known({'class': cls})
        if f:
            c.known(f['id'], f['what'])
            continue
        xml, exp, obs = bad[0]
        c.violation({'kind': 'oracle', 'class': cls, 'count': len(bad), 'scxml': xml, 'expected_interpreter_log': exp, 'observed_promela_model_log': obs,
                     'replay_cmd': 'python3 /verif/harness/pml_run.py <file with the scxml above>   # interpreter: vdriver `run large <hex scxml> 20 -`'})
    if det_bad:
        i = sorted(det_bad, key=size)[0]
        c.violation(replay(i, {'kind': 'oracle', 'class': 'nondeterministic-model', 'count': len(det_bad),
                               'expected': 'one execution', 'observed': 'two simulations of the same emitted model print different traces'}))
    if pan and pan['bad']:
        i = pan['bad'][0][0]
        c.violation(replay(i, {'kind': 'oracle', 'class': 'pan-leaves-predicted-sequence', 'count': len(pan['bad']), 'observed': pan['bad'][0][1]}))
    have_oracle = bool(classes) or bool(guard_bad)
    if corr_bad and not any('+model-disagrees' in k for k in classes):
        i = sorted(corr_bad, key=size)[0]
        eq, fa, fb = raw_equal(norm_impl_raw(res[i]), split_model(model[i])[0])
        p = first_diff(fa, fb) or 0
        c.violation(replay(i, {'kind': 'correspondence', 'count': len(corr_bad),
                               'what': 'PmlStep.pml_run (switches %s) and the emitted model differ in their trace lines' % vec,
                               'model': ' '.join(fb[max(0, p - 8):p + 8]), 'observed': ' '.join(fa[max(0, p - 8):p + 8])}), no_input=not have_oracle)
    if guard_corr_bad and not guard_bad:
        i, j, a, b = guard_corr_bad[0]
        c.violation(replay(i, {'kind': 'correspondence', 'what': 'Trie.resolve_attr and the emitted guard differ', 'transition': j, 'observed': a, 'model': b}), no_input=True)
    only_known = all(c.match_known({'class': k}) for k in classes)
    if broken and (not have_oracle or only_known):
        for b in broken:
            c.violation({'kind': 'obligation', 'theorem': b['name'], 'why': b.get('why', '')}, no_input=True)
    return c.finish()


def range_probes(vd, work, build):
    """documents with a structured variable whose field takes a constant K / a computed K + 1, K around the
    thresholds of declForRange (bool <= 1, byte <= 255, short <= 32767) and around powers of two: the log output
    of the emitted model against the interpreter's.  Outside the chart model (Chart.v has integer variables only)."""
    H = '<?xml version="1.0"?><scxml xmlns="http://www.w3.org/2005/07/scxml" version="1.0" datamodel="promela" name="m">'
    docs = []
    for K in (1, 2, 3, 4, 7, 8, 16, 64, 127, 128, 255, 256, 257, 1024, 32767, 32768, 65536):
        docs.append(('field-width-constant', H + '<datamodel><data id="VarS">{"a": 1, "b": %d}</data></datamodel><state id="s1"><onentry>'
                     '<log label="L" expr="VarS.b"/><assign location="VarS.a" expr="%d"/><log label="L" expr="VarS.a"/></onentry></state></scxml>' % (K, K)))
        docs.append(('field-width-computed', H + '<datamodel><data id="VarS">{"a": %d}</data></datamodel><state id="s1"><onentry>'
                     '<assign location="VarS.a" expr="VarS.a + 1"/><log label="L" expr="VarS.a"/></onentry></state></scxml>' % K))
    res = P.run_many([('r%d' % i, x) for i, (k, x) in enumerate(docs)], work, build)
    io, _ = run_lines_sharded(vd, ['run large %s 20 -' % x.encode('latin-1').hex() for k, x in docs])
    out = {'n': len(docs), 'bad': {}}
    for (k, x), r, il in zip(docs, res, io):
        exp = [t for t in canon(il)[0] if t.startswith('LOG:')]
        obs = [t for t in r['raw'] if t.startswith('LOG:')] if r['status'] == 'ok' else [r['status']]
        if exp != obs:
            out['bad'].setdefault(k, []).append((x, ' '.join(exp), ' '.join(obs)))
    return out


def guard_attr(tree, j):
    t = guard_trans(tree, j)
    return t['ev'] if t else None


def guard_trans(tree, j):
    """the transition with post-fix index j (children before parents, pseudo-states first)"""
    order = []

    def walk(n):
        kids = n['kids']
        h = [k for k in kids if k['kind'] in ('hs', 'hd')]
        rest = [k for k in kids if k['kind'] not in ('hs', 'hd')]
        k1 = list(reversed(h)) + rest
        ini = [k for k in k1 if k['kind'] == 'initial']
        rest2 = [k for k in k1 if k['kind'] != 'initial']
        for k in list(reversed(ini)) + rest2:
            walk(k)
        order.extend(n['trans'])
    walk(tree)
    return order[j] if j < len(order) else None


def determinism_seeds(c, its, work, build):
    """spin -n<seed>: the emitted model must print the same trace for every seed"""
    import subprocess
    n = 0
    d = os.path.join(work, 'seeds')
    os.makedirs(d, exist_ok=True)
    for name, xml in its[:20]:
        r = P.run_one(xml, d, name, build, keep=True)
        if r['status'] != 'ok':
            continue
        outs = set()
        for seed in (1, 7, 12345):
            p = subprocess.run(['spin', '-T', '-n%d' % seed, '-u%d' % P.SPIN_STEPS, '-DTRACE_EXECUTION=1'] + (['-DROOT_PASS=0'] if r.get('needs_pass_define') else []) +
                               [os.path.basename(r['files'][1])], cwd=d, stdout=subprocess.PIPE, stderr=subprocess.STDOUT, timeout=120)
            outs.add(' '.join(norm_impl_raw({'raw': P.parse_raw(p.stdout.decode('utf-8', 'replace'))[0], 'pml': r['pml']})))
        if len(outs) > 1:
            c.violation({'kind': 'oracle', 'class': 'nondeterministic-model', 'scxml': xml, 'observed': 'spin -n1/-n7/-n12345 print different traces',
                         'replay_cmd': 'spin -T -n<seed> -DTRACE_EXECUTION=1 on the emitted model'})
        n += 1
    return n


def pan_check(c, cases, res, model, items, work, build, want):
    """`spin -a` + pan (exhaustive over every choice spin could make): no execution of the emitted model leaves the
    predicted configurations, and every execution reaches the predicted last one; only runs the model observed completely"""
    from concurrent.futures import ThreadPoolExecutor
    jobs = []
    for i, r in enumerate(res):
        if len(jobs) >= want:
            break
        if r['status'] != 'ok':
            continue
        raw, sids, vids, st = split_model(model[i])
        if st not in ('terminated', 'blocked') or 'QFULL' in raw:
            continue
        # a never claim (like an LTL formula) moves only when the atomic sequence that is the whole step process is
        # interrupted: it sees the initial configuration and the one in which the process blocks or ends
        n = len(sids)
        cfg = ['0'] * n
        for t in raw:
            if t.startswith('E:'):
                cfg[int(t[2:])] = '1'
            elif t.startswith('X:'):
                cfg[int(t[2:])] = '0'
        seq = ['0' * n, ''.join(cfg)]
        if sum(1 for t in raw if t in ('INIT', 'FOUND')) < 3:
            continue
        jobs.append((i, seq))
    out = {'checked': 0, 'holds': 0, 'other': {}, 'bad': []}
    with ThreadPoolExecutor(max_workers=NCPU) as ex:
        futs = [(i, ex.submit(P.verify_one, items[i][1], seq, os.path.join(work, 'pan'), 'p%d' % i, build)) for k, (i, seq) in enumerate(jobs)]
        for i, f in futs:
            try:
                r = f.result()
            except Exception as e:
                r = {'status': 'exception:' + str(e)[:80]}
            out['checked'] += 1
            if r['status'] == 'holds':
                out['holds'] += 1
            elif r['status'].startswith('violated'):
                out['bad'].append((i, r.get('tail', '')))
            else:
                out['other'][r['status']] = out['other'].get(r['status'], 0) + 1
    return out
