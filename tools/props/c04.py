"""C04 -- the ANSI-C machine emitted by ChartToC behaves like the interpreted chart, and its step function
stays inside the arrays it declares."""
import copy, hashlib, json, os, random, re, shutil, subprocess, sys, threading
sys.path.insert(0, os.path.dirname(os.path.dirname(os.path.abspath(__file__))))
from vlib import *
from chart_common import *
import chartgen as G
import witnesses as W

CFUEL = 60
WORK = os.path.join(BUILD, 'c04')
HARNESS_C = os.path.join(HARNESS, 'cgen_harness.c')


# ------------------------------------------------------------------ cases

def load_corpus():
    """corpus/c04.json: [{name, chart (python literal of the chartgen tree), events [str]}]"""
    out = []
    for e in json.load(open(os.path.join(ROOT, 'corpus', 'c04.json'))):
        out.append((e['name'], tree_of_json(e['chart']), [x.encode('latin-1') for x in e['events']]))
    return out


def tree_of_json(j):
    """json has lists where chartgen has tuples / bytes"""
    def ev(x):
        return None if x is None else x.encode('latin-1')

    def bexpr(x):
        if x is None or isinstance(x, str):
            return x
        return tuple(bexpr(y) if isinstance(y, list) else y for y in x)

    def instr(i):
        k = i[0]
        if k in ('raise', 'send', 'sendbt', 'sendbg'):
            return (k, i[1], ev(i[2]))
        if k == 'if':
            return ('if', i[1], bexpr(i[2]), [item(x) for x in i[3]])
        raise ValueError(i)

    def item(x):
        if x[0] == 'elseif':
            return ('elseif', bexpr(x[1]))
        if x[0] == 'else':
            return ('else',)
        return instr(x)

    def tr(t):
        return G.trans(t['vid'], ev(t.get('ev')), bexpr(t.get('cond')), t.get('targets'), t.get('internal', False), [instr(i) for i in t.get('body', [])])

    def nd(n):
        return G.node(n['kind'], n['sid'], [nd(k) for k in n.get('kids', [])], [tr(t) for t in n.get('trans', [])], n.get('init'),
                      [[instr(i) for i in b] for b in n.get('onentry', [])], [[instr(i) for i in b] for b in n.get('onexit', [])])
    return nd(j)


def wide_chart(rng, nstates):
    """a chart with many states (multi-byte bit arrays; > 255: uint16_t index type): a random chart padded with
    atomic top-level states in front of / behind its states, plus a compound state with a final child far to the right"""
    t = G.rand_chart(rng, nprop=rng.randint(2, 6), content=0.3, only_in=True)
    maxsid = max(n['sid'] for n in G.walk(t))
    have = len(list(G.walk(t)))
    pad = max(0, nstates - have - 2)
    front = rng.randint(0, pad)
    mk = []
    for _ in range(pad):
        maxsid += 1
        mk.append(G.node('state', maxsid))
    first_proper = t['kids'][0]['sid'] if t['kids'] else None
    t['kids'] = mk[:front] + t['kids'] + mk[front:]
    if t.get('init') is None and first_proper is not None:
        t['init'] = [first_proper]
    # a compound state with a final child behind everything: reached by event g from the first original state
    maxsid += 2
    t['kids'].append(G.node('state', maxsid - 1, [G.node('final', maxsid)]))
    props = [n for n in G.walk(t) if n['kind'] in ('state', 'parallel') and n['sid'] == first_proper]
    if props:
        props[0]['trans'].append(G.trans(9000, b'g', None, [maxsid - 1]))
    return t


def gen_cases(c):
    """list of {tree, words: [[event]], origin}"""
    rng = random.Random(c.seed * 104729 + 4)
    cases = []
    for name, tree, events, dm in W.CORPUS:
        if G.uses_only_in(tree) and 'sendb' not in G.sx_tree(tree):
            cases.append({'tree': copy.deepcopy(tree), 'words': [list(events), []], 'origin': 'corpus:' + name})
    for name, tree, events in load_corpus():
        cases.append({'tree': tree, 'words': [events], 'origin': 'corpus:' + name})
    quick = c.tier == 'quick'
    nrand = 700 if quick else 12000
    nwide = 32 if quick else 400
    ncorpus = len(cases)
    for k in range(nrand):
        content = (0.0, 0.3, 0.6)[k % 3]
        t = G.rand_chart(rng, content=content, only_in=True)
        cases.append({'tree': t, 'words': [G.rand_events(rng), G.rand_events(rng, rng.randint(2, 4))], 'origin': 'random'})
    for k in range(nrand // 3):
        t = G.rand_chart(rng, content=(0.0, 0.3)[k % 2], only_in=True)
        if retarget_history(t, rng):
            cases.append({'tree': t, 'words': [G.rand_events(rng, rng.randint(2, 5)), G.rand_events(rng, rng.randint(3, 6))], 'origin': 'random-history'})
    import chart_runs
    for nprop, cap in ((2, 80 if quick else 1500), (3, 150 if quick else 4000)):
        charts, total = chart_runs.small_exhaustive(nprop, cap, rng)
        for k, t in enumerate(charts):
            cases.append({'tree': t, 'words': [chart_runs.WORDS2[k % 7], chart_runs.WORDS2[(k * 3 + 1) % 7] + [b'e']], 'origin': 'exhaustive%d' % nprop})
    # the families of the shared chart case set (parallels whose regions reach final states, with and without a <history> child
    # of the <parallel>; histories left and re-entered; multi-target transitions): several event words per compiled machine
    fam = [(t, chart_runs.DONE_WORDS, 'done-family') for t in chart_runs.done_family()]
    fam += [(t, chart_runs.DONE_WORDS, 'done-family-history') for h in ('hs', 'hd') for t in chart_runs.done_family(hist=h)]
    fam += [(t, chart_runs.HISTORY_WORDS, 'history-family') for t in chart_runs.history_family()]
    fam += [(t, [[b'e'], [b'e', b'e']], 'multi-target-family') for t in chart_runs.multi_target_family()]
    fam += [(t, chart_runs.PARALLEL_HISTORY_WORDS, 'parallel-history-family') for t in chart_runs.parallel_history_family()]
    for k, (t, words, org) in enumerate(fam):
        if quick and org != 'done-family-history' and k % 2:
            continue
        ws = list(words) if not quick else [words[k % len(words)], words[(k + 3) % len(words)]]
        cases.append({'tree': copy.deepcopy(t), 'words': [list(w) for w in ws], 'origin': org})
    for k in range(nwide):
        n = rng.choice([9, 12, 16, 17, 24, 33, 64]) if k % 8 else rng.choice([255, 256, 257, 300])
        t = wide_chart(rng, n)
        cases.append({'tree': t, 'words': [[b'g'], G.rand_events(rng, 3) + [b'g']], 'origin': 'wide%d' % n})
    return cases, ncorpus


# ------------------------------------------------------------------ transpile, compile, run

def par_map(fn, items, workers=NCPU):
    res = [None] * len(items)
    idx = [0]
    lock = threading.Lock()

    def work():
        while True:
            with lock:
                i = idx[0]
                idx[0] += 1
            if i >= len(items):
                return
            res[i] = fn(items[i])
    ths = [threading.Thread(target=work) for _ in range(min(workers, max(1, len(items))))]
    [t.start() for t in ths]
    [t.join() for t in ths]
    return res


def transpile(vd, cases, wdir):
    """emitted C of every case into wdir/m<i>.c (in-process ChartToC::transform through vdriver `cgen`)"""
    lines = []
    for i, x in enumerate(cases):
        x['scxml'] = G.to_scxml(x['tree'], 'null', False)
        x['cfile'] = os.path.join(wdir, 'm%d.c' % i)
        lines.append('cgen %s %s' % (x['scxml'].encode('latin-1').hex(), x['cfile']))
    out, crashes = run_lines_sharded(vd, lines, timeout=1500)
    for x, o in zip(cases, out):
        x['cgen'] = o
    return crashes


def compile_one(job):
    cfile, exe, cc, flags = job
    cmd = [cc] + flags + ['-w', '-I', os.path.dirname(cfile), '-DCGEN_MACHINE_FILE="%s"' % os.path.basename(cfile), HARNESS_C, '-o', exe]
    try:
        p = subprocess.run(cmd, stdout=subprocess.PIPE, stderr=subprocess.STDOUT, timeout=300)
        return p.returncode, p.stdout.decode('utf-8', 'replace')[-1500:]
    except subprocess.TimeoutExpired:
        return -999, 'compiler timeout'


def run_one(job):
    exe, lines, env = job
    try:
        p = subprocess.run([exe], input=('\n'.join(lines) + '\n').encode(), stdout=subprocess.PIPE, stderr=subprocess.PIPE, timeout=120, env=env)
        out = p.stdout.decode('utf-8', 'replace').split('\n')
        if out and out[-1] == '':
            out.pop()
        return p.returncode, out, p.stderr.decode('utf-8', 'replace')[-3000:]
    except subprocess.TimeoutExpired:
        return -999, [], 'TIMEOUT'


def build_and_run(cases, idxs, cc, flags, tag, env=None):
    """compile cases[idxs] with `cc flags`, run every word; returns {i: (compile rc, compile log, run rc, [trace line], stderr)}"""
    jobs = [(cases[i]['cfile'], cases[i]['cfile'][:-2] + '.' + tag, cc, flags) for i in idxs]
    comp = par_map(compile_one, jobs)
    rjobs = []
    for (cf, exe, _, _), (rc, log_) in zip(jobs, comp):
        rjobs.append(None if rc != 0 else exe)
    runs = par_map(lambda j: (None if j[0] is None else run_one(j)),
                   [(exe, ['T'] + ['%d %s' % (CFUEL, ' '.join(G.hx(e) for e in w)) for w in cases[i]['words']], env) for exe, i in zip(rjobs, idxs)])
    res = {}
    for i, (crc, clog), r in zip(idxs, comp, runs):
        if r is None:
            res[i] = (crc, clog, None, [], '')
        else:
            # first answer: the emitted tables (line `T`)
            cases[i]['tables_' + tag] = r[1][0] if r[1] else ''
            res[i] = (crc, clog, r[0], r[1][1:], r[2])
    return res


# ------------------------------------------------------------------ views

def cmodel_line(vflags, tree, events, fuel=CFUEL):
    return 'run %s %d %s (%s)' % (vflags, fuel, G.sx_tree(tree), ' '.join(G.hx(e) for e in events))


def vid_map(tree):
    """vid of executable content -> trace token of the C callback it becomes (None: no callback of its own)"""
    m = {}

    def instr(i):
        if i[0] == 'raise':
            m[i[1]] = 'RAISE:' + G.hx(i[2])
        elif i[0] == 'send':
            m[i[1]] = 'SEND:' + G.hx(i[2])
        elif i[0] == 'if':
            m[i[1]] = None
            for x in i[3]:
                if x[0] not in ('elseif', 'else'):
                    instr(x)
        else:
            m[i[1]] = 'OTHER:' + i[0]
    for n in G.walk(tree):
        for b in n.get('onentry', []) + n.get('onexit', []):
            for i in b:
                instr(i)
        for t in n.get('trans', []):
            for i in t['body']:
                instr(i)
    return m


def interp_view(toks, vmap):
    """projection of an interpreter trace (vd_run / extract/chart format) onto what a generated machine shows through
    its callbacks: dequeued events, raise/send in execution order, result and configuration after every step that
    was a microstep, idle or finished.  Steps that only found no transition or only signalled a stable configuration
    do not exist in the generated machine (it loops back to DEQUEUE_EVENT) and are dropped."""
    out = []
    in_ms = False
    i = 0
    n = len(toks)
    while i < n:
        t = toks[i]
        if t.startswith('EV:'):
            out.append(t)
        elif t == '}MS':
            in_ms = True
        elif t.startswith('C{:'):
            try:
                k = vmap.get(int(t[3:]), 'UNKNOWN:' + t[3:])
            except ValueError:
                k = 'UNKNOWN:' + t[3:]
            if k is not None:
                out.append(k)
        elif t.startswith('RET:'):
            cfg = toks[i + 1] if i + 1 < n and toks[i + 1].startswith('CFG:') else 'CFG:?'
            if t == 'RET:MICROSTEPPED':
                if in_ms:
                    out += ['RET:OK', cfg]
            elif t == 'RET:IDLE':
                out += ['RET:IDLE', cfg]
            elif t == 'RET:FINISHED':
                out += ['RET:DONE', cfg]
            elif t == 'RET:MACROSTEPPED':
                pass
            else:
                out += [t, cfg]
            in_ms = False
        i += 1
    return out


def c_view(toks, keep_model_only=False):
    """the generated machine's trace on the same projection (done-event and history tokens are compared with the
    CGen model only)"""
    if keep_model_only:
        return list(toks)
    return [t for t in toks if not (t.startswith('DONE:') or t.startswith('H:'))]


def nsteps(view):
    return sum(1 for t in view if t.startswith('RET:'))


def truncated(raw_toks, fuel):
    return sum(1 for t in raw_toks if t.startswith('RET:')) >= fuel


def compare_views(a, b, ta, tb):
    """equal, or equal on the common complete prefix when a side ran into its step bound (ta / tb)"""
    if a == b:
        return None
    if ta or tb:
        a2, b2 = complete_prefix(a), complete_prefix(b)
        k = min(len(a2), len(b2))
        # cut at a step boundary of the shorter side
        short = a2 if len(a2) <= len(b2) else b2
        k = len(complete_prefix(short[:k]))
        if a2[:k] == b2[:k]:
            return None
        return first_diff(a2[:k], b2[:k])
    return first_diff(a, b) if first_diff(a, b) is not None else 0


def probe(charts, tag='probe', quiet=False):
    """charts: [(name, tree, [word])]; prints the three views per run (development / replay helper)"""
    vd = ensure_vdriver('hooks', units=['vd_run', 'vd_cgen'])
    cases = [{'tree': t, 'words': ws, 'origin': nm} for nm, t, ws in charts]
    wdir = os.path.join(WORK, tag)
    shutil.rmtree(wdir, ignore_errors=True)
    os.makedirs(wdir)
    transpile(vd, cases, wdir)
    res = build_and_run(cases, list(range(len(cases))), 'gcc', ['-O0'], 'gcc')
    lines = []
    for eng in ('large', 'fast'):
        for x in cases:
            for w in x['words']:
                lines.append(impl_line(eng, x['tree'], 'null', False, w))
    io, _ = run_lines_sharded(vd, lines)
    half = len(lines) // 2
    vm_ = ensure_vmodel('cgen')
    mo, _ = run_lines_sharded(vm_, [cmodel_line('111', x['tree'], w) for x in cases for w in x['words']])
    k = 0
    rows = []
    for i, x in enumerate(cases):
        crc, clog, rrc, out, err = res[i]
        vm = vid_map(x['tree'])
        for j, w in enumerate(x['words']):
            lv = interp_view(canon(io[k])[0], vm)
            fv = interp_view(canon(io[half + k])[0], vm)
            craw = out[j].split() if j < len(out) else ['NO-OUTPUT', 'compile-rc=%s' % crc, 'run-rc=%s' % rrc] + clog.split()[-30:] + err.split()[-30:]
            rows.append((x['origin'], w, craw, lv, fv, mo[k].split()))
            if not quiet:
                print('==', x['origin'], [e.decode() for e in w], x['cgen'])
                print('  C    :', ' '.join(craw))
                print('  model:', 'same as C' if mo[k].split() == craw else mo[k])
                print('  large:', ' '.join(lv))
                print('  fast :', ' '.join(fv))
            k += 1
    return rows



# ------------------------------------------------------------------ generators specific to this check

def retarget_history(tree, rng):
    """rand_chart never targets a history state: redirect some transitions to history states (any transition may
    target a history), and add a transition that leaves and one that re-enters the history's parent"""
    hs = [n for n in G.walk(tree) if n['kind'] in ('hs', 'hd')]
    if not hs:
        return False
    srcs = [n for n in G.proper_states(tree) if n['kind'] != 'final']
    vid = max([t['vid'] for n in G.walk(tree) for t in n.get('trans', [])] + [500]) + 1000
    k = 0
    for n in srcs:
        for t in n['trans']:
            if t['targets'] is not None and rng.random() < 0.3:
                t['targets'] = [rng.choice(hs)['sid']]
                t['internal'] = False
                k += 1
    for _ in range(rng.randint(1, 3)):
        src = rng.choice(srcs)
        vid += 1
        src['trans'].append(G.trans(vid, rng.choice([b'e', b'f', b'e.x']), None, [rng.choice(hs)['sid']]))
    return True


def tree_to_json(n):
    def ev(x):
        return None if x is None else x.decode('latin-1')

    def bexpr(x):
        return list(x) if isinstance(x, tuple) else x

    def instr(i):
        if i[0] in ('raise', 'send', 'sendbt', 'sendbg'):
            return [i[0], i[1], ev(i[2])]
        if i[0] == 'if':
            return ['if', i[1], bexpr(i[2]), [item(x) for x in i[3]]]
        raise ValueError(i)

    def item(x):
        if x[0] == 'elseif':
            return ['elseif', bexpr(x[1])]
        if x[0] == 'else':
            return ['else']
        return instr(x)
    return {'kind': n['kind'], 'sid': n['sid'], 'init': n.get('init'),
            'trans': [{'vid': t['vid'], 'ev': ev(t['ev']), 'cond': bexpr(t['cond']), 'targets': t['targets'], 'internal': t['internal'],
                       'body': [instr(i) for i in t['body']]} for t in n.get('trans', [])],
            'onentry': [[instr(i) for i in b] for b in n.get('onentry', [])], 'onexit': [[instr(i) for i in b] for b in n.get('onexit', [])],
            'kids': [tree_to_json(k) for k in n.get('kids', [])]}


SWITCHES = ['history_of_active_parent', 'top_level_final_first_byte', 'history_cover_outer_first']


def switch_witnesses():
    """name -> (tree, events): each distinguishes one switch of CGen.cg_variant"""
    by = {n: (t, e) for n, t, e in load_corpus()}
    return [(SWITCHES[0], ) + by['w-history-active-parent'], (SWITCHES[1], ) + by['w-top-level-final-byte'], (SWITCHES[2], ) + by['w-nested-history-shallow']]


def detect_cflags(vd, vm):
    """switch vector of the generator under test: transpile + compile + run the witnesses, compare with the model
    with only that switch on / off"""
    wit = switch_witnesses()
    cases = [{'tree': t, 'words': [ev], 'origin': 'witness:' + nm} for nm, t, ev in wit]
    wdir = os.path.join(WORK, 'wit')
    shutil.rmtree(wdir, ignore_errors=True)
    os.makedirs(wdir)
    transpile(vd, cases, wdir)
    res = build_and_run(cases, list(range(len(cases))), 'gcc', ['-O0'], 'gcc')
    flags, notes = [], {}
    for k, x in enumerate(cases):
        on = ''.join('1' if j == k else '0' for j in range(len(SWITCHES)))
        rc, mo, _ = run_lines(vm, [cmodel_line(on, x['tree'], x['words'][0]), cmodel_line('000', x['tree'], x['words'][0])])
        out = res[k][3]
        ct = out[0].split() if out else ['NO-OUTPUT']
        if ct == mo[0].split() and ct != mo[1].split():
            flags.append('1')
            notes[SWITCHES[k]] = 'present'
        elif ct == mo[1].split():
            flags.append('0')
            notes[SWITCHES[k]] = 'absent'
        else:
            flags.append('1')
            notes[SWITCHES[k]] = 'neither variant matches: ' + ' '.join(ct)[:300]
    # the history tables have two repaired forms (no covering = '0', covering with inner histories first = '2'): the
    # emitted tables tell them apart
    if flags[2] == '0':
        x = cases[2]
        rc, mo, _ = run_lines(vm, ['tables %s0 %s' % (''.join(flags[:2]), G.sx_tree(x['tree'])), 'tables %s2 %s' % (''.join(flags[:2]), G.sx_tree(x['tree']))])
        t = x.get('tables_gcc', '')
        if t != mo[0] and t == mo[1]:
            flags[2] = '2'
            notes[SWITCHES[2]] = 'absent (covering, inner histories first)'
        elif t == mo[0]:
            notes[SWITCHES[2]] = 'absent (no covering)'
    return ''.join(flags), notes, cases


def cli_agrees(vd, cases, idxs, wdir):
    """the command line tool and the in-process call emit the same text (up to the machine prefix, which is the MD5 of
    a pointer, and the source URL)"""
    exe = os.path.join(HOOKS, 'bin', 'uscxml-transform')
    if not os.path.exists(exe):
        return {'skipped': 'uscxml-transform not built'}
    def norm(t):
        t = re.sub(r'"[0-9A-Fa-f]{32}"', '"md5"', t)                       # uuid = MD5 of the text of a pointer
        t = re.sub(r'Generated from source:\s*\n[^\n]*\n', '', t)         # source URL
        t = re.sub(r'_uscxml_[0-9A-Fa-f]{8}_', '_uscxml_X_', t)             # prefix derived from that MD5
        return re.sub(r'USCXML_MACHINE_\d+', 'USCXML_MACHINE_N', t)        # running number of the machine in the process
    diff = []
    for i in idxs:
        f = os.path.join(wdir, 'cli%d.scxml' % i)
        open(f, 'w', encoding='latin-1').write(cases[i]['scxml'])
        o = os.path.join(wdir, 'cli%d.c' % i)
        rc, out = sh([exe, '-tc', '-i', f, '-o', o], timeout=120)
        try:
            a, b = norm(open(o, encoding='latin-1').read()), norm(open(cases[i]['cfile'], encoding='latin-1').read())
        except OSError:
            diff.append(i)
            continue
        if a != b:
            diff.append(i)
    return {'compared': len(idxs), 'different': diff}


DONE_HEX = 'done.state.'.encode().hex()


def explain(vm, x, word, craw, mraw, lv, fv, vflags, tr, trf):
    """the set of reasons why the generated machine's view differs from the interpreter's (large engine):
    defect switches of CGen that influence this run; then, with all switches repaired in the model, whether the
    remainder is the behaviour of the fast engine (the template is its algorithm) or something else"""
    reasons = set()
    if mraw != craw:
        return {'model-disagrees'}
    on = [k for k in range(len(SWITCHES)) if vflags[k] == '1']
    lines = [cmodel_line(vflags[:k] + '0' + vflags[k + 1:], x['tree'], word) for k in on] + [cmodel_line('0' * len(SWITCHES), x['tree'], word)]
    rc_, o_, _ = run_lines(vm, lines)
    views = [c_view(t.split()) for t in o_]
    base = c_view(mraw)
    for k, v in zip(on, views):
        if v != base:
            reasons.add(SWITCHES[k])
    rep = views[-1]
    if compare_views(rep, lv, tr, tr) is None:
        return reasons
    if compare_views(rep, fv, trf, trf) is None:
        i = first_diff(lv, fv)
        a = lv[i] if i is not None and i < len(lv) else ''
        b = fv[i] if i is not None and i < len(fv) else ''
        reasons.add('as-fast-engine:parallel-done' if (DONE_HEX in a or DONE_HEX in b) else 'as-fast-engine:selection')
    else:
        reasons.add('other')
    return reasons


def msan_sample(cases, idxs, oracle):
    if not shutil.which('clang'):
        return {'skipped': 'clang not installed'}
    r = build_and_run(cases, idxs, 'clang', ['-O0', '-g', '-fsanitize=memory'], 'msan')
    bad = []
    for i in idxs:
        crc, clog, rrc, out, err = r[i]
        if crc != 0:
            continue
        if 'MemorySanitizer' in err:
            m = re.search(r'in uscxml_step [^\n]*', err)
            bad.append(i)
            oracle.setdefault('uninitialised-read', []).append((i, 0, (m.group(0) if m else err[-300:])))
    return {'machines': len(idxs), 'reports': len(bad)}


def cbmc_sample(cases, idxs):
    if not shutil.which('cbmc'):
        return {'skipped': 'cbmc not installed'}

    def one(i):
        x = cases[i]
        n = len(list(G.walk(x['tree']))) + sum(len(n_.get('trans', [])) for n_ in G.walk(x['tree'])) + 2
        cmd = ['cbmc', '-DCGEN_MACHINE_FILE="%s"' % os.path.basename(x['cfile']), '-I', os.path.dirname(x['cfile']), os.path.join(HARNESS, 'cgen_cbmc.c'),
               '--bounds-check', '--pointer-check', '--unwind', str(n), '--no-unwinding-assertions']
        try:
            p = subprocess.run(cmd, stdout=subprocess.PIPE, stderr=subprocess.STDOUT, timeout=600)
            o = p.stdout.decode('utf-8', 'replace')
        except subprocess.TimeoutExpired:
            return (i, 'timeout', '')
        m = re.search(r'\*\* (\d+) of (\d+) failed', o)
        return (i, 'ok' if 'VERIFICATION SUCCESSFUL' in o else 'failed', m.group(0) if m else o[-300:])
    rs = par_map(one, idxs)
    return {'machines': len(idxs), 'successful': sum(1 for r in rs if r[1] == 'ok'), 'results': [(cases[i]['origin'], st, d) for i, st, d in rs if st != 'ok'][:5]}


# ------------------------------------------------------------------ the check

def run(c):
    T0 = time.time()
    def mark(what):
        log('c04 %6.1fs %s' % (time.time() - T0, what))
    broken = c.prove()
    mark('proved')
    vd = ensure_vdriver('hooks', units=['vd_run', 'vd_cgen'])
    vm = ensure_vmodel('cgen')
    c.assumptions += [
        'callbacks of the generated machine are those of harness/cgen_harness.c (two FIFO queues, SCXML 3.12.1 event matching, In(id) against ctx->config, '
        'every callback returns USCXML_ERR_OK); null datamodel, no <invoke>, <script>, <foreach>, <data>',
        'the interpreter is observed through the recording monitor of harness/vd_run.cpp; the comparison is on the projection a generated machine can show: '
        'dequeued events, raise/send callbacks in order (executable content is identified by kind and event name: the vid attribute does not survive '
        'transpilation), result and configuration after every microstep / idle / finished step',
        'the emitted structural tables (exit sets, conflicts, targets) are taken to be the interval tables of Large.v/Fast.v; that is property C05',
    ]
    c.cov['trusted_base'] += ['harness/cgen_harness.c (callbacks and driver loop of the generated machine), harness/vd_cgen.cpp, gcc / clang with -fsanitize=address,undefined,memory, cbmc (supporting evidence for bounds only)',
                              'tools/translate/tr_cgen.py (macro values and defect sites read from the template text; cross-checked against witness charts and against the tables a compiled machine prints)']
    os.makedirs(WORK, exist_ok=True)
    mark('drivers built')
    vflags, notes, wit_cases = detect_cflags(vd, vm)
    mark('switches detected')
    c.notes['defect_switches'] = notes
    cases, ncorpus = gen_cases(c)
    wdir = os.path.join(WORK, 'run')
    shutil.rmtree(wdir, ignore_errors=True)
    os.makedirs(wdir)
    crashes = transpile(vd, cases, wdir)
    mark('transpiled %d' % len(cases))
    c.notes['cli_vs_inprocess'] = cli_agrees(vd, cases, list(range(min(4, len(cases)))), wdir)
    if c.notes['cli_vs_inprocess'].get('different'):
        i = c.notes['cli_vs_inprocess']['different'][0]
        c.violation(chart_replay(cases[i], [], {'kind': 'correspondence', 'what': '`uscxml-transform -tc` and ChartToC::transform called in process (vdriver cgen) emit different text for this document '
                                                '(beyond prefix, uuid, source URL and machine number)'}), no_input=True)
    good = [i for i, x in enumerate(cases) if x['cgen'].startswith('OK')]
    mark('cli compared')
    res = build_and_run(cases, good, 'gcc', ['-O0'], 'gcc')
    mark('compiled and run')
    # sanitizer builds: all in thorough, a sample in quick
    san_idx = good[:ncorpus] + good[ncorpus::(8 if c.tier == 'thorough' else 20)]
    if c.tier == 'thorough' and shutil.which('clang'):
        san = build_and_run(cases, san_idx, 'clang', ['-O1', '-g', '-fsanitize=address,undefined', '-fno-sanitize-recover=undefined'], 'asan',
                            env=dict(os.environ, ASAN_OPTIONS='detect_leaks=0'))
    else:
        san = build_and_run(cases, san_idx, 'gcc', ['-O1', '-g', '-fsanitize=address,undefined', '-fno-sanitize-recover=undefined'], 'asan',
                            env=dict(os.environ, ASAN_OPTIONS='detect_leaks=0'))
    mark('sanitizer builds run')
    # interpreter (both engines) and model (variant of the generator under test)
    flat = [(i, j) for i in good for j in range(len(cases[i]['words']))]
    il = [impl_line('large', cases[i]['tree'], 'null', False, cases[i]['words'][j]) for i, j in flat]
    fl = [impl_line('fast', cases[i]['tree'], 'null', False, cases[i]['words'][j]) for i, j in flat]
    lo, lcr = run_lines_sharded(vd, il, timeout=1500)
    fo, fcr = run_lines_sharded(vd, fl, timeout=1500)
    mo, _ = run_lines_sharded(vm, [cmodel_line(vflags, cases[i]['tree'], cases[i]['words'][j]) for i, j in flat], timeout=1500)
    bo, _ = run_lines_sharded(vm, ['b' + cmodel_line(vflags, cases[i]['tree'], cases[i]['words'][j]) for i, j in flat], timeout=2500)
    ao, _ = run_lines_sharded(vm, ['agree' + cmodel_line(vflags, cases[i]['tree'], cases[i]['words'][j])[3:] for i, j in flat], timeout=1500)

    mark('interpreter and models run')
    to, _ = run_lines_sharded(vm, ['tables %s %s' % (vflags, G.sx_tree(cases[i]['tree'])) for i in good], timeout=1500)
    tables_differ = []
    for i, t in zip(good, to):
        if res[i][0] == 0 and cases[i].get('tables_gcc', '') != t:
            tables_differ.append((i, t))
    oracle = {}        # class -> [(i, j, detail)]
    multi = {}
    bcorr = []         # byte-level model disagrees with the machine
    phi_false = []     # runs in which a microstep fails the side condition of the partial equivalence theorems
    corr = []          # model disagrees with the machine
    nontriv = set()
    hist = {'origin': {}, 'states<=8': 0, 'states9-255': 0, 'states>=256': 0, 'uses_history': 0, 'parallel': 0, 'runs_with_microstep>1': 0,
            'history_restored': 0}
    for i in good:
        o = cases[i]['origin'].split(':')[0]
        hist['origin'][o] = hist['origin'].get(o, 0) + 1
        ns = len(list(G.walk(cases[i]['tree'])))
        hist['states<=8' if ns <= 8 else ('states9-255' if ns <= 255 else 'states>=256')] += 1
        sx = G.sx_tree(cases[i]['tree'])
        hist['uses_history'] += 1 if ('(N hs' in sx or '(N hd' in sx) else 0
        hist['parallel'] += 1 if '(N parallel' in sx else 0
    for i, x in enumerate(cases):
        if not x['cgen'].startswith('OK'):
            oracle.setdefault('transpiler-fails', []).append((i, 0, x['cgen']))
    vmaps = {}
    for k, (i, j) in enumerate(flat):
        x = cases[i]
        crc, clog, rrc, out, err = res[i]
        if crc != 0:
            if j == 0:
                oracle.setdefault('does-not-compile', []).append((i, 0, clog[-600:]))
            continue
        if j >= len(out) or rrc != 0:
            oracle.setdefault('crash' if not (out and 'STEP-DOES-NOT-RETURN' in out[-1]) else 'step-does-not-return', []).append((i, j, 'rc=%s %s' % (rrc, err[-300:])))
            continue
        craw = out[j].split()
        if lo[k].startswith('CRASH') or fo[k].startswith('CRASH'):
            continue
        vmap = vmaps.setdefault(i, vid_map(x['tree']))
        lraw, fraw = canon(lo[k])[0], canon(fo[k])[0]
        lv, fv, cv_ = interp_view(lraw, vmap), interp_view(fraw, vmap), c_view(craw)
        if sum(1 for t in craw if t == 'RET:OK') > 1:
            hist['runs_with_microstep>1'] += 1
            nontriv.add(hash((x['scxml'], tuple(x['words'][j]))))
        if any(t.startswith('H:') and len(t) > 2 for t in craw):
            hist['history_restored'] += 1
        mraw = mo[k].split()
        model_ok = (mraw == craw)
        if not model_ok:
            corr.append((i, j))
        braw = bo[k].split()
        if braw != craw:
            bcorr.append((i, j))
        if braw and (braw[-1].startswith('OOB:') or braw[-1] in ('DIVERGE', 'OUT-OF-FUEL')):
            oracle.setdefault('byte-model-' + braw[-1].split(':')[0].lower(), []).append((i, j, braw[-1]))
        if ao[k] != '1':
            phi_false.append((i, j))
        tr = truncated(craw, CFUEL) or truncated(lraw, FUEL)
        d = compare_views(cv_, lv, tr, tr)
        if d is not None:
            for r in explain(vm, x, x['words'][j], craw, mraw, lv, fv, vflags, tr, tr or truncated(fraw, FUEL)):
                oracle.setdefault(r, []).append((i, j, d))
                multi[(i, j)] = multi.get((i, j), 0) + 1
    mark('judged')
    # sanitizer builds: same trace, no report
    san_bad = []
    for i in san_idx:
        crc, clog, rrc, out, err = san[i]
        if crc != 0:
            san_bad.append((i, 'sanitizer build does not compile: ' + clog[-300:]))
        elif rrc != 0 or 'ERROR: AddressSanitizer' in err or 'runtime error' in err:
            san_bad.append((i, 'rc=%s %s' % (rrc, err[-600:])))
        elif res[i][0] == 0 and out != res[i][3]:
            san_bad.append((i, 'trace differs from the build without sanitizers'))
    for i, why in san_bad:
        oracle.setdefault('sanitizer', []).append((i, 0, why))

    nruns = len(flat)
    c.cov['evaluations'] = nruns + sum(len(cases[i]['words']) for i in san_idx)
    c.cov['distinct_nontrivial'] = len(nontriv)
    c.cov['rule'] = ('each chart (corpus of defect witnesses; seeded random charts of the null-datamodel fragment with history, <initial>, parallel, executable content; '
                     'the same with transitions redirected to history states; pairs of transitions on all trees with <= 3 states; charts padded to 9..300 states) is transpiled '
                     '(ChartToC::transform in process; the command line tool on a sample), compiled together with harness/cgen_harness.c by gcc (and with '
                     '-fsanitize=address,undefined: thorough all / quick a sample), run on 2 event histories, and compared with the interpreter (large engine = oracle, '
                     'fast engine for classification) and with the extracted CGen model; non-trivial = distinct (chart, history) in which the machine takes a '
                     'microstep after the initial one')
    c.cov['input_distribution'] = hist
    c.cov['charts'] = len(cases)
    c.cov['sanitizer_builds'] = len(san_idx)
    c.cov['variant_of_generator'] = vflags
    c.cov['differences_from_interpreter'] = {k: len(v) for k, v in oracle.items()}
    c.cov['model_disagreements'] = len(corr)
    c.cov['emitted_tables_compared'] = {'machines': len(good), 'different_from_CGen.bmachine_of': len(tables_differ)}
    if tables_differ:
        i, t = sorted(tables_differ, key=lambda it: len(cases[it[0]]['scxml']))[0]
        a, b = cases[i].get('tables_gcc', '').split(), t.split()
        p = first_diff(a, b) or 0
        c.violation(chart_replay(cases[i], [], {'kind': 'correspondence', 'count': len(tables_differ),
                                                'what': 'the emitted macros / state and transition tables differ from CGen.bmachine_of (variant %s): N:states,transitions,MAX_NR_STATES_BYTES,MAX_NR_TRANS_BYTES,bits of the index types; S:i:parent:type:children:completion:ancestors; T:j:source:type:target:conflicts:exit_set:has event/cond' % vflags,
                                                'model': ' '.join(b[max(0, p - 2):p + 3]), 'observed': ' '.join(a[max(0, p - 2):p + 3])}), no_input=True)
    c.cov['byte_model_disagreements'] = len(bcorr)
    c.cov['side_condition_of_partial_theorems'] = {
        'what': 'CGen.run_agree: in every microstep the emitted entry-set / history pass adds exactly what the fast engine\'s pass adds',
        'runs': len(flat), 'false': len(phi_false),
        'false_by_origin': {o: sum(1 for (i, j) in phi_false if cases[i]['origin'].split(':')[0] == o) for o in sorted(set(cases[i]['origin'].split(':')[0] for i, j in phi_false))},
        'example': (cases[phi_false[0][0]]['scxml'][:400] if phi_false else None)}
    # memory sanitizer (uninitialised reads) and cbmc (bounds) on a few machines: supporting evidence
    c.cov['msan'] = msan_sample(cases, good[:3] if c.tier == 'quick' else good[:ncorpus] + good[ncorpus::400], oracle)
    c.cov['cbmc'] = cbmc_sample(cases, [i for i in good if len(list(G.walk(cases[i]['tree']))) <= 8][:3 if c.tier == 'quick' else 16])
    mark('msan/cbmc')
    # the variant read from the template text must be the one the witnesses show
    src = (c.notes.get('translators', {}).get('tr_cgen', {}) or {}).get('cg_source')
    if src is not None:
        srcflags = ''.join('1' if src[n] else '0' for n in SWITCHES[:2]) + str((c.notes.get('translators', {}).get('tr_cgen', {}) or {}).get('history_cover_mode', 1))
        c.notes['variant_from_source_text'] = srcflags
        if srcflags != vflags:
            c.violation({'kind': 'translator', 'what': 'tr_cgen.py reads variant %s from ChartToC.cpp, the witness charts show %s: the template changed in a way the translator does not see' % (srcflags, vflags)}, no_input=True)
    else:
        c.violation({'kind': 'translator', 'what': 'tr_cgen.py could not read ChartToC.cpp: %s' % c.notes.get('translators', {}).get('tr_cgen')}, no_input=True)
    if flat:
        i, j = flat[len(flat) // 2]
        c.cov['samples'] = [{'origin': cases[i]['origin'], 'events': [e.decode() for e in cases[i]['words'][j]], 'scxml': cases[i]['scxml'][:500],
                             'machine_trace': (res[i][3][j] if j < len(res[i][3]) else '')[:400]}]
    # defect switches that are on
    for k, ch in enumerate(vflags):
        if ch == '1':
            f = c.match_known({'switch': SWITCHES[k]})
            if f:
                c.known(f['id'], f['what'])
            else:
                x = wit_cases[k]
                c.violation(chart_replay(x, x['words'][0], {'kind': 'defect-switch', 'switch': SWITCHES[k], 'note': notes[SWITCHES[k]],
                                                            'what': 'the generated machine shows the defect this witness distinguishes (see CGen.cg_variant)'}))
    for cls, items in sorted(oracle.items()):
        f = c.match_known({'class': cls}) or (c.match_known({'switch': cls}) if cls in SWITCHES else None)
        if f:
            c.known(f['id'], f['what'] + ' (%d runs this time)' % len(items))
            continue
        if cls in SWITCHES and vflags[SWITCHES.index(cls)] == '1' and not c.match_known({'switch': cls}):
            continue      # already reported through its witness
        items = sorted(items, key=lambda it: (multi.get((it[0], it[1]), 1), len(cases[it[0]]['scxml']), len(cases[it[0]]['words'][it[1]]) if it[1] < len(cases[it[0]]['words']) else 0))
        i, j, d = items[0]
        x = cases[i]
        extra = {'kind': 'oracle', 'class': cls, 'count': len(items)}
        if isinstance(d, int):
            k = flat.index((i, j))
            vmap = vid_map(x['tree'])
            cv_, lv = c_view(res[i][3][j].split()), interp_view(canon(lo[k])[0], vmap)
            extra['generated_machine'] = ' '.join(cv_[max(0, d - 10):d + 10])
            extra['expected_interpreter'] = ' '.join(lv[max(0, d - 10):d + 10])
        else:
            extra['detail'] = d
        c.violation(chart_replay(x, x['words'][j] if j < len(x['words']) else [], extra))
    found_by_search = None
    if (corr or bcorr) and 'model-disagrees' not in oracle:
        found_by_search = search_harder(c, vd, cases, sorted(set(i for i, _ in (corr or bcorr)), key=lambda i: len(cases[i]['scxml']))[:40])
        mark('searched around the model disagreement')
        if found_by_search:
            x, w, extra = found_by_search
            c.violation(chart_replay(x, w, extra))
    if bcorr and not corr and not found_by_search:
        i, j = sorted(bcorr, key=lambda it: len(cases[it[0]]['scxml']))[0]
        k = flat.index((i, j))
        a, b = res[i][3][j].split(), bo[k].split()
        p = first_diff(a, b) or 0
        c.violation(chart_replay(cases[i], cases[i]['words'][j], {'kind': 'correspondence', 'count': len(bcorr),
                                                                    'what': 'the byte-level model CGen.run_bgen (variant %s) and the generated machine differ' % vflags,
                                                                    'model': ' '.join(b[max(0, p - 8):p + 8]), 'observed': ' '.join(a[max(0, p - 8):p + 8])}), no_input=True)
    if corr and 'model-disagrees' not in oracle and not found_by_search:
        i, j = sorted(corr, key=lambda it: len(cases[it[0]]['scxml']))[0]
        k = flat.index((i, j))
        a, b = res[i][3][j].split(), mo[k].split()
        p = first_diff(a, b) or 0
        c.violation(chart_replay(cases[i], cases[i]['words'][j], {'kind': 'correspondence', 'count': len(corr),
                                                                    'what': 'CGen.run_cgen (variant %s) and the generated machine differ; the machine still agrees with the interpreter on these inputs' % vflags,
                                                                    'model': ' '.join(b[max(0, p - 8):p + 8]), 'observed': ' '.join(a[max(0, p - 8):p + 8])}), no_input=True)
    only_known = all(c.match_known({'class': k}) or k in SWITCHES for k in oracle)
    if broken and (not oracle or only_known):
        for b in broken:
            c.violation({'kind': 'obligation', 'theorem': b['name'], 'why': b.get('why', '')}, no_input=True)
    return c.finish()


def search_harder(c, vd, cases, idxs):
    """the model and the machine disagree although the interpreter-visible traces agreed: look for a history of events
    on the same charts on which the machine's behaviour differs from the interpreter's (longer words over the chart's
    own event alphabet, the already compiled machines)"""
    rng = random.Random(c.seed * 31 + 7)
    for i in idxs:
        x = cases[i]
        alpha = sorted(set(d for n in G.walk(x['tree']) for t in n.get('trans', []) if t['ev'] for d in t['ev'].replace(b'*', b'e').replace(b'e.e', b'e.x').split()) | {b'e', b'f'})
        alpha = [a.rstrip(b'.') for a in alpha if a.rstrip(b'.')]
        words = [[rng.choice(alpha) for _ in range(rng.randint(6, 14))] for _ in range(24)]
        exe = x['cfile'][:-2] + '.gcc'
        if not os.path.exists(exe):
            continue
        rc, out, err = run_one((exe, ['%d %s' % (CFUEL, ' '.join(G.hx(e) for e in w)) for w in words], None))
        io, _ = run_lines_sharded(vd, [impl_line('large', x['tree'], 'null', False, w) for w in words])
        fo, _ = run_lines_sharded(vd, [impl_line('fast', x['tree'], 'null', False, w) for w in words])
        vmap = vid_map(x['tree'])
        for w, o, il, fl in zip(words, out, io, fo):
            craw, lraw = o.split(), canon(il)[0]
            tr = truncated(craw, CFUEL) or truncated(lraw, FUEL)
            cv_, lv = c_view(craw), interp_view(lraw, vmap)
            d = compare_views(cv_, lv, tr, tr)
            # a difference the fast engine shares is one of the inherited classes, not what we are looking for
            trf = tr or truncated(canon(fl)[0], FUEL)
            if d is not None and compare_views(cv_, interp_view(canon(fl)[0], vmap), trf, trf) is not None:
                return (x, w, {'kind': 'oracle', 'class': 'found-by-search-around-model-disagreement',
                               'generated_machine': ' '.join(cv_[max(0, d - 10):d + 10]), 'expected_interpreter': ' '.join(lv[max(0, d - 10):d + 10])})
    return None


def chart_replay(x, events, extra):
    r = {'origin': x['origin'], 'events': [e.decode('latin-1') for e in events], 'scxml': x.get('scxml') or G.to_scxml(x['tree'], 'null', False),
         'chart_json': tree_to_json(x['tree'])}
    r.update(extra)
    r['replay_cmd'] = '/verif/tools/vcheck C04 --replay <this file>   # transpiles, compiles with harness/cgen_harness.c, runs, prints machine / model / interpreter traces'
    return r


def replay(path):
    r = json.load(open(path))
    print(json.dumps({k: v for k, v in r.items() if k != 'chart_json'}, indent=1))
    if 'chart_json' in r:
        probe([(r.get('origin', 'replay'), tree_of_json(r['chart_json']), [[e.encode('latin-1') for e in r.get('events', [])]])], tag='replay')
    return 0


if __name__ == '__main__':
    sys.exit(replay(sys.argv[1]))
