"""C10 -- interpreter life-cycle is well defined and always terminates.

Correspondence (README-dev rule 4): the extracted model (extract/lifecycle) and the implementation
(harness/vd_lifecycle.cpp; every case in a forked child with a watchdog) run on the same API
sequences / schedules; the property oracles (Lifecycle.lifecycle_okb and friends, extracted) judge
every *implementation* output."""
import itertools, json, os, shutil, sys, time
from vlib import *

PC = 'delay.run.started_checked'
PB = 'delay.stop.before_loopbreak'
PA = 'delay.stop.after_loopbreak'
PM = 'canceller:interp.cancel.marked'
PS = 'stepper:queue.dequeue.locked'


# ------------------------------------------------------------------ charts: XML + the model's table

def _st(i, body='', tag='state'):
    return '<%s id="%d"><onexit><log label="%d"/></onexit>%s</%s>' % (tag, i, i, body, tag)


def _tr(ev, target):
    return '<transition %starget="%d"/>' % (('event="e%d" ' % ev) if ev else '', target)


CHARTS = {
    # flat: two states toggled by e1, e2 leads into a top-level final
    'flat': {
        'xml': '<scxml>' + _st(10, _tr(1, 11) + _tr(2, 12)) + _st(11, _tr(1, 10)) + _st(12, '', 'final') + '</scxml>',
        'spec': 'I:0:0:-:-;T:0:1:1:0:10:-;T:1:1:0:0:11:-;T:0:2:2:1:10:-;X:0:10;X:1:11;X:2:12'},
    # nested: compound state, exit handlers of child and parent
    'nested': {
        'xml': '<scxml>' + _st(20, _st(21, _tr(1, 22)) + _st(22, _tr(1, 21)) + _tr(2, 29)) + _st(29, '', 'final') + '</scxml>',
        'spec': 'I:0:0:-:-;T:0:1:1:0:21:-;T:1:1:0:0:22:-;T:0:2:2:1:21,20:-;T:1:2:2:1:22,20:-;X:0:20,21;X:1:20,22;X:2:29'},
    # parallel: no top-level final, only cancel() ends it; five active states
    'parallel': {
        'xml': '<scxml><parallel id="30"><onexit><log label="30"/></onexit>' +
               _st(31, _st(32, _tr(1, 33)) + _st(33, _tr(1, 32))) + _st(34, _st(35, _tr(2, 36)) + _st(36)) + '</parallel></scxml>',
        'spec': 'I:0:0:-:-;T:0:1:1:0:32:-;T:1:1:0:0:33:-;T:2:1:3:0:32:-;T:3:1:2:0:33:-;T:0:2:2:0:35:-;T:1:2:3:0:35:-;'
                'X:0:30,31,32,34,35;X:1:30,31,33,34,35;X:2:30,31,32,34,36;X:3:30,31,33,34,36'},
    # raise: an internal event is queued by the initial entry
    'raise': {
        'xml': '<scxml><state id="40"><onentry><raise event="e3"/></onentry><onexit><log label="40"/></onexit>' + _tr(3, 41) +
               '</state>' + _st(41, _tr(1, 42)) + _st(42, '', 'final') + '</scxml>',
        'spec': 'I:0:0:-:3;T:0:3:1:0:40:-;T:1:1:2:1:41:-;X:0:40;X:1:41;X:2:42'},
    # final: the initial configuration is final
    'final': {
        'xml': '<scxml>' + _st(50, '', 'final') + '</scxml>',
        'spec': 'I:0:1:-:-;X:0:50'},
    # chain: eventless transitions into the final state (test-lifecycle's "two microsteps")
    'chain': {
        'xml': '<scxml>' + _st(60, _tr(0, 61)) + _st(61, _tr(0, 62)) + _st(62, '', 'final') + '</scxml>',
        'spec': 'I:0:0:-:-;T:0:-:1:0:60:-;T:1:-:2:1:61:-;X:0:60;X:1:61;X:2:62'},
}
ENGINES = ('default', 'fast')

# warm-up prefixes: the points of the life-cycle from which the exhaustive suffixes start
PREFIXES = {
    'fresh': [],
    'idle': ['s'] * 5,                       # INITIALIZED, initial entry, ..., MACROSTEPPED (IDLE next)
    'mid': ['s', 's', 'r1', 's'],            # inside a macrostep, an event pending or being processed
    'finishing': ['s', 's', 's', 's', 'r2', 's', 'c', 's'],   # around CANCELLED / FINISHED
}


def sequences(alpha, maxlen):
    """all sequences over alpha up to maxlen in which destroy ('d') occurs at most once, as last call"""
    out = [[]]
    for l in range(1, maxlen + 1):
        for t in itertools.product(alpha, repeat=l):
            if 'd' in t[:-1]:
                continue
            out.append(list(t))
    return out


def strip_end(tokens):
    """implementation output -> (observation tokens, ended normally?)"""
    if tokens and tokens[-1] == 'end':
        return tokens[:-1], True
    return tokens, False


def norm_impl(tokens):
    """CRASH:sig11 -> CRASH (the model does not predict the signal number)"""
    return [('CRASH' if t.startswith('CRASH') else t) for t in tokens]


def first_step_index(ops):
    for i, o in enumerate(ops):
        if o == 's':
            return i
    return len(ops)


def run(c):
    broken = c.prove()
    exe0 = ensure_vdriver('hooks', units=['vd_lifecycle'])
    vmodel = ensure_vmodel('lifecycle')
    # private copy: other checks relink the shared vdriver concurrently
    priv = os.path.join(BUILD, 'c10')
    os.makedirs(priv, exist_ok=True)
    vdriver = os.path.join(priv, 'vdriver')
    with Lock('vdriver-hooks'):
        shutil.copy(exe0, vdriver)
    quick = c.tier == 'quick'
    c.assumptions += [
        'the chart is an arbitrary oracle (initial micro-step, selection function, exit handlers); executable content does not call back into the life-cycle API',
        'each access to _isStarted / _isCancelled and each libevent call is atomic (the model interleaves at these units); libevent: event_base_loop clears event_break on entry, event_base_loopbreak notifies only a running loop (2.1.12 source), an activated event survives loop entry',
        'sequential API cases give the timer thread 0.5 ms to reach its dispatcher before destruction, so that the tear-down race is exercised only by the forced schedules and the unforced stress runs',
        'wall-clock bounds are not carried: the model proves absence of a blocked state, a watchdog (4-8 s) observes it']
    corpus = json.load(open(os.path.join(ROOT, 'corpus', 'c10.json')))
    hexxml = {k: hexs(v['xml']) for k, v in CHARTS.items()}

    # ---------------------------------------------------------------- 0. translator cross-check (probe of the compiled enum)
    rc, eo_, _ = run_lines(vdriver, ['lifecycle_enum'])
    probed = {kv.split('=')[0]: int(kv.split('=')[1]) for kv in eo_[0].split()} if eo_ and '=' in eo_[0] else {}
    tmeta = c.notes.get('translators', {}).get('tr_flags', {})
    c.notes['enum_probe'] = {'compiled': probed, 'translated': tmeta.get('enum'), 'agree': probed == tmeta.get('enum')}
    if probed != tmeta.get('enum'):
        broken.append({'name': 'GenFlags.v (translator tr_flags.py disagrees with the compiled enum InterpreterState)', 'ok': False,
                       'why': 'translated %s, compiled %s' % (tmeta.get('enum'), probed)})
    # ---------------------------------------------------------------- 1. variant vector of the implementation
    wit = corpus['witnesses']
    wl = ['lifecycle default %s %s' % (hexxml['flat'], ' '.join(wit['receive_before_first_step'])),
          'lifecycle default %s %s' % (hexxml['flat'], ' '.join(wit['queued_event_survives_reset'])),
          'lifecycle default %s %s' % (hexxml['flat'], ' '.join(wit['fresh_after_reset_suffix'])),
          'teardown queue 0 0 0 1 0 1 0 %s %s %s' % (PB, PA, PC),
          'cancelblock default %s c,w20 300 %s %s %s %s %s' % (hexxml['parallel'], PS, PS, PS, PS, PM)]
    # each witness three times, majority (a forced schedule is deterministic; a loaded machine is not)
    wo3 = [[o.split() for o in run_lines_sharded(vdriver, wl, shards=5)[0]] for _ in range(3)]
    wo = wo3[0]
    suffix_len = len(wit['fresh_after_reset_suffix'])

    def maj(f):
        return 1 if sum(1 for w in wo3 if f(w)) >= 2 else 0
    vec = {'lazy_queues': maj(lambda w: any(t.startswith('CRASH') for t in w[0])),
           'reset_keeps_queue': maj(lambda w: strip_end(w[1])[0][-suffix_len:] != strip_end(w[2])[0][-suffix_len:]),
           'sticky_wakeup': 1 - maj(lambda w: 'HANG' in w[3]),
           'cancel_enqueue_first': maj(lambda w: 'HANG' in w[4])}
    c.notes['defect_vector'] = vec
    c.notes['witness_outputs'] = {'receive_before_first_step': ' '.join(wo[0]), 'queued_event_survives_reset': ' '.join(wo[1]),
                                  'teardown_BAC': ' '.join(wo[3]), 'cancel_SSSSM': ' '.join(wo[4])}
    log('C10 defect vector of the implementation: %s  (t=%.0fs)' % (vec, time.time() - c.t0))

    # ---------------------------------------------------------------- 2. API sequences
    alpha = ['s', 'r1', 'c', 'x', 'd']
    maxlen = 4 if quick else 6
    seqs = sequences(alpha, maxlen)
    cases = []      # (chart, engine, ops)
    for w in corpus['sequences']:
        cases.append((w['chart'], w.get('engine', 'default'), w['ops']))
    ncorpus = len(cases)
    for ch in CHARTS:
        for eng in ENGINES:
            for pname, pre in PREFIXES.items():
                ss = seqs if (pname == 'fresh' or quick) else sequences(alpha, maxlen - 1)
                for s in ss:
                    cases.append((ch, eng, pre + s))
    nex = len(cases) - ncorpus
    rng = c.rng
    nrand = 3000 if quick else 30000
    ralpha = ['s'] * 6 + ['r1', 'r1', 'r2', 'r3', 'r0', 'c', 'x', 'd']
    for _ in range(nrand):
        n = rng.randint(5, 24)
        ops = []
        for _ in range(n):
            o = rng.choice(ralpha)
            ops.append(o)
            if o == 'd':
                break
        cases.append((rng.choice(list(CHARTS)), rng.choice(ENGINES), ops))
    # de-duplicate, keep order
    seen = set()
    uniq = []
    for cs in cases:
        k = (cs[0], cs[1], tuple(cs[2]))
        if k not in seen:
            seen.add(k)
            uniq.append(cs)
    cases = uniq
    il = ['lifecycle %s %s %s' % (eng, hexxml[ch], ' '.join(ops)) for ch, eng, ops in cases]
    ml = ['seq %d %d %s %s' % (vec['lazy_queues'], vec['reset_keeps_queue'], CHARTS[ch]['spec'], ' '.join(ops)) for ch, eng, ops in cases]
    impl, icr = run_lines_sharded(vdriver, il)
    model, _ = run_lines_sharded(vmodel, ml)
    for cr in icr:
        c.violation({'kind': 'driver-crash', 'at_case': il[min(cr[0], len(il) - 1)], 'rc': cr[1], 'stderr': cr[2]}, no_input=True)
    obs = []
    for o in impl:
        toks, ended = strip_end(o.split())
        obs.append((toks, ended))
    ol = ['oracle %s %s' % (','.join(ops) if ops else '-', ' '.join(toks)) for (ch, eng, ops), (toks, ended) in zip(cases, obs)]
    orc, _ = run_lines_sharded(vmodel, ol)
    index = {(ch, eng, tuple(ops)): i for i, (ch, eng, ops) in enumerate(cases)}

    # reset_like_fresh on the implementation's own outputs: what follows the last reset() must be what
    # a fresh interpreter shows for the same calls
    extra = []
    for i, (ch, eng, ops) in enumerate(cases):
        if 'x' in ops:
            k = len(ops) - 1 - ops[::-1].index('x')
            suf = tuple(ops[k + 1:])
            if (ch, eng, suf) not in index and (ch, eng, suf) not in extra:
                extra.append((ch, eng, suf))
    eo, _ = run_lines_sharded(vdriver, ['lifecycle %s %s %s' % (eng, hexxml[ch], ' '.join(ops)) for ch, eng, ops in extra])
    fresh_out = {k: strip_end(o.split())[0] for k, o in zip(extra, eo)}

    def fresh_obs(ch, eng, suf):
        if (ch, eng, suf) in index:
            return obs[index[(ch, eng, suf)]][0]
        return fresh_out[(ch, eng, suf)]

    fails = []          # (class, chart, engine, ops, detail)
    disagreements = []
    nontriv = set()
    hist = {'with_cancel': 0, 'with_reset': 0, 'with_destroy': 0, 'call_before_first_step': 0, 'reached_FINISHED': 0,
            'reached_CANCELLED': 0, 'reached_IDLE': 0, 'crash': 0, 'hang': 0}
    nreset_cmp = 0
    for i, ((ch, eng, ops), (toks, ended)) in enumerate(zip(cases, obs)):
        o = dict(kv.split('=') for kv in orc[i].split()) if '=' in orc[i] else {'ok': '0', 'parse': orc[i]}
        fs = first_step_index(ops)
        early = any(x != 's' for x in ops[:fs])
        after = ('c' in ops and ops.index('c') < len(ops) - 1) or ('x' in ops and ops.index('x') < len(ops) - 1)
        if early or after:
            nontriv.add((ch, tuple(ops)))
        if 'c' in ops: hist['with_cancel'] += 1
        if 'x' in ops: hist['with_reset'] += 1
        if 'd' in ops: hist['with_destroy'] += 1
        if early: hist['call_before_first_step'] += 1
        joined = ' '.join(toks)
        if 'FINISHED' in joined: hist['reached_FINISHED'] += 1
        if 'CANCELLED' in joined: hist['reached_CANCELLED'] += 1
        if 'IDLE' in joined: hist['reached_IDLE'] += 1
        if 'CRASH' in joined: hist['crash'] += 1
        if 'HANG' in joined: hist['hang'] += 1
        # -- property oracles on the implementation's output
        if o.get('ok') != '1' or not ended:
            if o.get('nocrash') == '0' or not ended:
                # which call died
                k = len(toks) - 2 if toks and (toks[-1].startswith('CRASH') or toks[-1] == 'HANG') else len(toks) - 1
                died_in = ops[k] if 0 <= k < len(ops) else 'destruction'
                if toks and toks[-1] == 'HANG' and died_in in ('d', 'destruction'):
                    cls = 'teardown-hang'      # the tear-down race, met without forcing
                elif toks and toks[-1] == 'HANG':
                    cls = 'hang-in-' + died_in
                elif died_in in ('r1', 'r2', 'r3', 'r0', 'c') and 's' not in ops[:k]:
                    cls = 'receive-or-cancel-before-first-step-crash'
                else:
                    cls = 'crash-in-' + died_in
                fails.append((cls, ch, eng, ops, {'oracle': orc[i], 'observed': joined}))
            else:
                bad = [k for k in ('regex', 'quiet', 'completion', 'cancel') if o.get(k) != '1']
                fails.append(('oracle-' + '+'.join(bad or ['parse']), ch, eng, ops, {'oracle': orc[i], 'observed': joined}))
        if 'x' in ops and ended:
            k = len(ops) - 1 - ops[::-1].index('x')
            suf = tuple(ops[k + 1:])
            mine = toks[k + 2:]                      # after state:INSTANTIATED and the k+1 calls up to the reset
            ref = fresh_obs(ch, eng, suf)[1:]
            nreset_cmp += 1
            if mine != ref and not any(t.startswith('CRASH') or t == 'HANG' for t in ref):
                fails.append(('reset-not-like-fresh', ch, eng, ops, {'after_reset': ' '.join(mine), 'fresh': ' '.join(ref)}))
        # -- correspondence with the model at the implementation's variant vector
        mt = model[i].split()
        if toks and toks[-1] == 'HANG' and norm_impl(toks[:-1]) == mt[:len(toks) - 1] and len(mt) <= len(toks):
            pass        # hang in a destruction: the sequential model does not contain the timer thread (see teardown)
        elif norm_impl(toks) != mt:
            disagreements.append((ch, eng, ops, joined, model[i]))
    c.cov['evaluations'] = len(cases) + len(extra)
    c.notes['api_sequences'] = {'corpus': ncorpus, 'exhaustive': nex, 'random': nrand, 'distinct': len(cases), 'maxlen': maxlen,
                                'charts': list(CHARTS), 'engines': list(ENGINES), 'prefixes': {k: ' '.join(v) for k, v in PREFIXES.items()},
                                'reset_vs_fresh_comparisons': nreset_cmp, 'model_disagreements': len(disagreements),
                                'oracle_failures': len(fails)}

    log('C10 API sequences done: %d cases, %d oracle failures, %d disagreements (t=%.0fs)' % (len(cases), len(fails), len(disagreements), time.time() - c.t0))
    # ---------------------------------------------------------------- 3. tear-down schedules
    td_fail, td_dis, td_stats = teardown(c, vdriver, vmodel, vec, quick)
    # ---------------------------------------------------------------- 4. cancel() against a blocked step()
    cu_fail, cu_dis, cu_stats = cancel_unblocks(c, vdriver, vmodel, vec, hexxml, quick)
    # ---------------------------------------------------------------- 4b. reset() against the timer thread (section "reset race" below)
    rr_fail, rr_dis, rr_stats = reset_race(c, vdriver, quick, broken)
    log('C10 schedule replays done (t=%.0fs)' % (time.time() - c.t0))
    c.cov['evaluations'] += td_stats['replays'] + cu_stats['replays']
    c.cov['evaluations'] += rr_stats.get('replays', 0)
    c.cov['reset_race'] = rr_stats.get('cov', {})
    c.notes['reset_race'] = rr_stats
    # ---------------------------------------------------------------- 4c. destruction against the timer thread (section "destroy race" below)
    dr_fail, dr_dis, dr_stats = destroy_race(c, vdriver, quick, broken)
    c.cov['evaluations'] += dr_stats.get('replays', 0)
    c.cov['destroy_race'] = dr_stats.get('cov', {})
    c.notes['destroy_race'] = dr_stats
    c.cov['distinct_nontrivial'] = len(nontriv) + td_stats['nontrivial'] + cu_stats['nontrivial']
    c.cov['rule'] = ('API sequences: corpus + all sequences over {step, receive(e1), cancel, reset, destroy} up to length %d from 4 life-cycle '
                     'points (fresh, idle, inside a macrostep, around CANCELLED/FINISHED) on 6 charts x 2 engines + %d seeded random sequences '
                     '(length 5-24, also e2/e3/empty-name events); non-trivial = distinct (chart, sequence) with a call after cancel()/reset() or '
                     'a non-step call before the first step.  Tear-down: every maximal execution of the model with 0-2 timers (%s) whose hook-point '
                     'projection can be forced, replayed; non-trivial = stop() falls into the window between the _isStarted test and the dispatcher. '
                     'Cancel: schedule shapes with cancel() racing a blocked / busy step().') % (maxlen, nrand, '%d reachable (state, projection) pairs' % td_stats['model_states'])
    c.cov['input_distribution'] = hist
    c.cov['exhaustive'] = True
    c.cov['samples'] = [{'chart': cases[i][0], 'engine': cases[i][1], 'ops': ' '.join(cases[i][2]), 'impl': impl[i], 'model': model[i], 'oracle': orc[i]}
                        for i in (ncorpus + 7, ncorpus + 400, len(cases) - 2) if i < len(cases)]
    c.notes['teardown'] = td_stats
    c.notes['cancel_unblocks'] = cu_stats

    # ---------------------------------------------------------------- 5. classify
    allfails = fails + td_fail + cu_fail + rr_fail + dr_fail
    alldis = disagreements + td_dis + cu_dis + rr_dis + dr_dis
    c.cov['oracle_failures'] = len(allfails)
    c.cov['disagreements'] = len(alldis)
    byclass = {}
    for f in allfails:
        byclass.setdefault(f[0], []).append(f)
    c.notes['failure_classes'] = {k: len(v) for k, v in byclass.items()}
    for cls, fl in sorted(byclass.items()):
        f = c.match_known({'class': cls})
        if f:
            c.known(f['id'], f['what'])
            continue
        fl.sort(key=lambda x: (len(x[3]), x[1] != 'flat', x[2], x[3]))
        cls_, ch, eng, ops, det = fl[0]
        payload = {'kind': 'oracle', 'class': cls, 'count': len(fl), 'chart': ch, 'engine': eng, 'ops': ops, 'detail': det,
                   'expected': EXPECT.get(cls.split('-in-')[0], 'Lifecycle.lifecycle_okb = true (no crash, no hang, life-cycle language, quiet after FINISHED, completion runs the remaining exit handlers once, no IDLE after cancel)')}
        if ch in CHARTS:
            payload['xml'] = CHARTS[ch]['xml']
            payload['replay_cmd'] = "echo 'lifecycle %s %s %s' | /verif/.build/vdriver-hooks/vdriver" % (eng, hexxml[ch], ' '.join(ops))
        else:
            payload['replay_cmd'] = "echo '%s' | /verif/.build/vdriver-hooks/vdriver" % det.get('cmd', '')
        c.violation(payload)
    if not [1 for cls in byclass if not c.match_known({'class': cls})]:
        if alldis:
            d = sorted(alldis, key=lambda x: len(x[2]))[0]
            c.violation({'kind': 'correspondence', 'count': len(alldis), 'chart': d[0], 'engine': d[1], 'ops': d[2], 'observed': d[3], 'model': d[4],
                         'what': 'model Lifecycle (variant %s) and the implementation differ; no input on which the code contradicts the property oracles was found' % json.dumps(vec)},
                        no_input=True)
        for b in broken:
            c.violation({'kind': 'obligation', 'theorem': b['name'], 'why': b.get('why', '')}, no_input=True)
    else:
        for b in broken:
            log('broken obligation %s (failing inputs reported above)' % b['name'])
        if alldis:
            log('%d model/implementation disagreements (failing inputs reported above), first: %s' % (len(alldis), (alldis[0],)))
    return c.finish()


EXPECT = {
    'receive-or-cancel-before-first-step-crash': 'receive()/cancel() are safe in every life-cycle state, including before the first step (Lifecycle.no_crashb)',
    'reset-not-like-fresh': 'after reset() the interpreter shows what a fresh interpreter shows for the same calls (obs_eqb)',
    'teardown-hang': 'destruction returns in bounded time under every interleaving with the timer thread (no reachable td_deadlocked state)',
    'cancel-lost': 'cancel() unblocks a blocked step() and leads to CANCELLED, FINISHED (no reachable cu_lost state)',
}


# ------------------------------------------------------------------ tear-down

def teardown(c, vdriver, vmodel, vec, quick):
    """all maximal executions of the model (finite: td_step_decreases), projected to hook points; the
    projections that the controller can force are replayed"""
    import re
    keys = [(timers, s0) for timers in (0, 1, 2) for s0 in (0, 1)]
    out, _ = run_lines_sharded(vmodel, ['tdenum %d %d %d' % (vec['sticky_wakeup'], t, s0) for t, s0 in keys])
    classes = {}     # (mode, fired, late, form) -> set of predictions
    nproj = 0
    nstates = 0
    for (timers, s0), o in zip(keys, out):
        toks = o.split()
        nstates += int(toks[0].split('=')[1])
        for tok in toks[2:]:
            pts, pred = tok.split(':')
            nproj += 1
            pts = pts.replace('-', '')
            if 'B' not in pts:
                continue
            head, tail = pts.split('B', 1)
            if 'E' in tail or 'F' in tail:
                continue           # a timer expires during the tear-down: not forcible (timers are 15 ms or 60 s)
            fired = head.count('E')
            if head.count('F') != fired:
                continue
            p = pts.replace('E', '').replace('K', '')
            m1 = re.fullmatch(r'C(FC)*BA', p)
            m2 = re.fullmatch(r'(CF)*BAC', p)
            if m1 and p.count('F') == fired:
                form = 1           # the timer thread is (back) in its dispatcher when stop() starts
            elif m2 and p.count('F') == fired:
                form = 2           # stop() runs between the _isStarted test and event_base_loop
            else:
                continue           # e.g. BCA: the race of r2 against s2 is not decided by the points
            classes.setdefault(('interp' if s0 else 'queue', fired, timers - fired, form), set()).add(pred)
    maxlen = 0
    replay = []
    reps_ok = 3 if quick else 25
    reps_hang = 1 if quick else 4
    for (mode, fired, late, form), preds in sorted(classes.items()):
        if len(preds) != 1:
            continue
        pred = list(preds)[0]
        if form == 1:
            items = [PC] * (fired + 1) + [PB, PA]
            cmd = 'teardown %s %d 15 %d %d %d 0 30 %s' % (mode, fired, late, fired + 1, fired, ' '.join(items))
        else:
            items = [PC] * fired + [PB, PA, PC]
            cmd = 'teardown %s %d 15 %d %d %d 1 0 %s' % (mode, fired, late, fired + 1, fired, ' '.join(items))
        for _ in range(reps_hang if pred == 'deadlock' else reps_ok):
            replay.append((cmd, pred, (mode, fired, late, form)))
    # unforced stress: destroy immediately after initialisation (the "1 in 200" of the property text)
    nstress = 300 if quick else 3000
    for _ in range(nstress):
        replay.append(('teardown interp 0 0 0 0 0 0 0', 'any', ('interp', 0, 0, 0)))
    out, _ = run_lines_sharded(vdriver, [r[0] for r in replay])
    fails, dis = [], []
    hangs_forced = hangs_stress = 0
    for (cmd, pred, key), o in zip(replay, out):
        hang = 'HANG' in o.split() or not o.strip().endswith('end')
        if hang:
            if key[3] == 0:
                hangs_stress += 1
            else:
                hangs_forced += 1
            fails.append(('teardown-hang', 'teardown:%s fired=%d late=%d form=%d' % key, 'n/a', cmd.split()[9:] or ['unforced'],
                          {'cmd': cmd, 'observed': o, 'model': pred}))
        if pred != 'any' and hang != (pred == 'deadlock'):
            dis.append(('teardown', 'n/a', cmd.split(), o, pred))
    stats = {'maxlen': 'unbounded (all maximal executions, <= 2 timers)', 'model_states': nstates, 'projections': nproj,
             'forcible_classes': {('%s fired=%d late=%d form=%d' % k): sorted(v) for k, v in classes.items()},
             'replays': len(replay), 'stress_runs': nstress, 'hangs_forced': hangs_forced, 'hangs_unforced': hangs_stress,
             'nontrivial': len([1 for k in classes if k[3] == 2])}
    return fails, dis, stats


# ------------------------------------------------------------------ cancel() against a blocked step()

def cancel_unblocks(c, vdriver, vmodel, vec, hexxml, quick):
    # (name, model schedule, script of the canceller thread, controller items)
    P2 = [PS, PS]       # one blocking step() passes the dequeue point twice (internal, external queue)
    shapes = [
        ('blocked-then-cancel', 'P C C P P', 'p2,c', []),
        ('cancel-before-step', 'C C P P', 'c,w20', []),
        ('named-event-then-cancel', 'R1 P P C C P P', 'p2,r1,w5,c', []),
        ('empty-event-then-cancel', 'R0 P P C C P P', 'p2,r0,w5,c', []),
        ('events-queued-behind-cancel', 'R1 R1 C C P P P P P P', 'r1,r1,c', []),
        ('canceller-held-between-mark-and-enqueue', 'P C R0 P P C', 'p2,c', P2 + [PM]),
        ('second-step-before-enqueue', 'C P P C P P', 'p2,c', P2 + P2 + [PM]),
    ]
    lines, mlines, meta = [], [], []
    reps = 2 if quick else 10
    for name, msched, script, items in shapes:
        for eng in ENGINES:
            for ch in ('parallel', 'flat'):
                for _ in range(reps):
                    lines.append('cancelblock %s %s %s 300 %s' % (eng, hexxml[ch], script, ' '.join(items)))
                    mlines.append('cu %d - %s' % (vec['cancel_enqueue_first'], msched))
                    meta.append((name, eng, ch))
    out, _ = run_lines_sharded(vdriver, lines)
    mout, _ = run_lines_sharded(vmodel, mlines)
    fails, dis = [], []
    for (name, eng, ch), l, o, m in zip(meta, lines, out, mout):
        toks = o.split()
        lost = 'HANG' in toks or 'end' not in toks
        res = [t for t in toks if t.isupper() and t not in ('HANG',)]
        ok = (not lost) and res[-2:] == ['CANCELLED', 'FINISHED'] and res.count('CANCELLED') == 1
        md = dict(kv.split('=') for kv in m.split())
        if not ok:
            fails.append(('cancel-lost', 'cancel:%s/%s' % (name, ch), eng, l.split()[3:], {'cmd': l, 'observed': o, 'model': m}))
        if (md['lost'] == '1') != lost:
            dis.append(('cancel:' + name, eng, l.split()[3:], o, m))
    return fails, dis, {'shapes': [s[0] for s in shapes], 'replays': len(lines), 'nontrivial': len(shapes) * 4, 'lost': len(fails)}


# ================================================================== reset race (work package rr) ==================
# reset() against the timer thread: model coq/theories/ResetRace.v (theorems reset_leaves_nothing_behind,
# reset_like_fresh_concurrent, gen_reset_order_ok in props/Properties_C10.v), regenerated order of the three
# sub-steps coq/gen/GenResetOrder.v (tools/translate/tr_resetorder.py), extracted model extract/resetrace,
# implementation side harness/vd_resetrace.cpp.  Hook points delay.reset.enter/.done, queue.reset.enter/.done
# (patches/C10-resetrace-hooks.diff); a tree without them cannot be forced and the section is skipped (loudly).

EXPECT.update({
    'reset-race-stale': 'a reset interpreter behaves like a freshly created one under every interleaving with the timer thread: after '
                        'reset() returned both event queues are empty, no timer of the previous life is pending, and the restarted machine '
                        'stepped without events shows the trace of a new interpreter (ResetRace.nothing_leftb / reset_like_fresh_concurrent)',
    'reset-inflight-callback': 'a timer callback of the previous life that is past its critical section when reset() cancels the timers must '
                               'not deliver into the restarted machine (ResetRace, variant rv_locks_targets; reset_inflight_refuted for the code without '
                               'patches/C10-reset-inflight-callback.diff)',
    'reset-race-hang': 'reset() returns in bounded time under every interleaving with the timer thread',
})

RR_REQUIRE_HOOKS = True       # set to True once the hook points are in /repo: their absence is then an error, not a skip


def rr_model_sched(order, locks, hold, k):
    """the model schedule that a forced hold stands for: the sub-steps of reset() that are complete when the
    resetting thread waits, the timer thread as far as it gets, the rest of reset(), the rest of the callback, step()"""
    steps = {'D': 2 if locks else 1, 'E': 1, 'I': 1}
    total = sum(steps[p] for p in order)
    if hold == 'cb':
        return ['F', 'T'] + ['R'] * (total + 1) + ['T'] * 3 + ['S'] * 3
    if hold == 'none' or k > len(order):
        before = total
    else:
        before = sum(steps[p] for p in order[:k - 1])
        if hold == 'enter' and order[k - 1] == 'D' and locks:
            before += 1                    # delay.reset.enter is reached with _delayMutex taken and the targets cleared
        if hold == 'done':
            before += steps[order[k - 1]]
    return ['R'] * before + ['F', 'T', 'T', 'T'] + ['R'] * (total - before + 1) + ['T'] * 3 + ['S'] * 3


def rr_parse(o):
    d = {}
    for t in o.split():
        if '=' in t:
            k_, v_ = t.split('=', 1)
            d[k_] = v_
    d['_hang'] = 'HANG' in o.split()
    d['_crash'] = any(t.startswith('CRASH') for t in o.split())
    d['_end'] = o.strip().endswith('end')
    return d


def rr_impl_class(d):
    if d['_hang']:
        return 'hang'
    if d['_crash'] or not d['_end']:
        return 'crash'
    if d.get('pre') != 'ok':
        return 'inconclusive'
    if d.get('q1') != '0/0' or d.get('q2') != '0/0' or d.get('after') != d.get('fresh'):
        return 'stale'
    return 'clean'


def reset_race(c, vdriver, quick, broken):
    t_start = time.time()
    stats = {'replays': 0, 'cov': {}}
    tmeta = c.notes.get('translators', {}).get('tr_resetorder', {})
    stats['translator'] = tmeta
    try:
        rmodel = ensure_vmodel('resetrace')
    except BuildError as e:
        broken.append({'name': 'extract/resetrace (the reset-race model does not build)', 'ok': False, 'why': str(e)[-600:]})
        stats['skipped'] = 'model does not build'
        return [], [], stats
    rc, g, _ = run_lines(rmodel, ['gen'])
    gen = dict(kv.split('=') for kv in g[0].split()) if g and '=' in g[0] else {}
    stats['generated'] = gen
    order = [] if gen.get('order', '-') == '-' else gen['order'].split(',')
    locks = gen.get('locks') == '1'
    short = {'ResetDelay': 'D', 'ResetExternal': 'E', 'ResetInternal': 'I'}
    if 'error' in tmeta or gen.get('ok') != '1':
        # the proof obligation gen_reset_order_ok is broken already (fallback); replay with the order the running code shows
        log('C10 reset race: tr_resetorder could not read InterpreterImpl::reset(): %s' % tmeta.get('error'))
    elif [short[p] for p in tmeta.get('order', [])] != order or bool(tmeta.get('locks_targets')) != locks:
        broken.append({'name': 'GenResetOrder.v (the compiled Coq file is not what tr_resetorder.py produced)', 'ok': False,
                       'why': 'translator %s, compiled %s' % (tmeta, gen)})

    # ---- probe: are the hook points there, and does the running code pass them in the translated order?
    probe_line = 'resetrace default ext none 0 15 40'
    rc, po, _ = run_lines(vdriver, [probe_line])
    if not po or po[0].startswith('ERR unknown command'):
        broken.append({'name': 'harness/vd_resetrace.cpp (does not compile against the working tree)', 'ok': False, 'why': str(po)})
        stats['skipped'] = 'harness unit missing'
        return [], [], stats
    pd = rr_parse(po[0])
    arrivals = [] if pd.get('arrivals', '-') == '-' else pd['arrivals'].split(',')
    enters = [a for a in arrivals if a.endswith('.enter')]
    stats['probe'] = {'cmd': probe_line, 'arrivals': arrivals}
    stats['cov']['hooks_present'] = bool(arrivals)
    if not arrivals:
        msg = 'the hook points delay.reset.* / queue.reset.* are not in this tree (patches/C10-resetrace-hooks.diff): the reset race cannot be forced, section skipped'
        log('C10 reset race: ' + msg)
        stats['skipped'] = msg
        if RR_REQUIRE_HOOKS:
            broken.append({'name': 'reset race replay (hook points missing)', 'ok': False, 'why': msg})
        return [], [], stats
    observed_order = [('D' if a.startswith('delay.') else 'Q') for a in enters]
    expected_order = [('D' if p == 'D' else 'Q') for p in order]
    stats['probe']['agree_with_translator'] = observed_order == expected_order
    if observed_order != expected_order and gen.get('ok') == '1':
        broken.append({'name': 'GenResetOrder.v (translator tr_resetorder.py disagrees with the running code)', 'ok': False,
                       'why': 'translated order %s, reset() passed %s' % (order, enters)})
    nparts = len(enters)

    # ---- the schedules
    engines = ('default', 'fast') if quick else ('default', 'large', 'fast')
    reps = 1 if quick else 4
    holds = [('none', 0)] + [('enter', k) for k in range(1, nparts + 1)] + [('done', k) for k in range(1, nparts + 1)] + [('cb', 0)]
    cases = []
    for eng in engines:
        for kind in ('ext', 'int'):
            for hold, k in holds:
                for _ in range(reps):
                    cases.append((eng, kind, hold, k))
    # what the model predicts (for the order in which the running code passes the points if the source could not be read)
    morder = order if gen.get('ok') == '1' and order else None
    mlines = []
    for eng, kind, hold, k in cases:
        if morder is None:
            mlines.append('gen')
        else:
            mlines.append('rr %d %s %s %s' % (1 if locks else 0, ','.join(morder), 'd' if kind == 'ext' else 'e',
                                              ','.join(rr_model_sched(morder, locks, hold, k))))
    mout, _ = run_lines_sharded(rmodel, mlines)

    def impl_run(delay, hold_ms, idx):
        lines = ['resetrace %s %s %s %d %d %d' % (cases[i][0], cases[i][1], cases[i][2], cases[i][3], delay, hold_ms) for i in idx]
        out, _ = run_lines_sharded(vdriver, lines, shards=min(NCPU, 8))
        return lines, out
    res = [None] * len(cases)
    todo = list(range(len(cases)))
    attempts = 0
    for delay, hold_ms in ((15, 40), (60, 60), (250, 100)):
        if not todo:
            break
        attempts += 1
        lines, out = impl_run(delay, hold_ms, todo)
        nxt = []
        for i, l, o in zip(todo, lines, out):
            d = rr_parse(o)
            cls = rr_impl_class(d)
            res[i] = (l, o, d, cls)
            stats['replays'] += 1
            if cls == 'inconclusive':
                nxt.append(i)          # the machine was too slow: the timer fired before reset() was called
        todo = nxt
    fails, dis = [], []
    classes = {}
    held_hist = {}
    delivered_in_hold = 0
    for (eng, kind, hold, k), m, (l, o, d, cls) in zip(cases, mout, res):
        md = dict(kv.split('=') for kv in m.split() if '=' in kv)
        mcls = md.get('class', 'unknown') if morder is not None else 'unknown'
        classes[(hold, cls, mcls)] = classes.get((hold, cls, mcls), 0) + 1
        held = d.get('held', '-')
        key = '%s#%d@%s' % (hold, k, held) if hold in ('enter', 'done') else hold
        held_hist[key] = held_hist.get(key, 0) + 1
        if d.get('delivered_in_hold') == '1':
            delivered_in_hold += 1
        if hold in ('enter', 'done') and cls in ('clean', 'stale') and held == '-':
            dis.append(('resetrace:' + kind, eng, [hold, str(k)], o, 'the resetting thread never reached its hold point'))
            continue
        if cls in ('stale', 'hang', 'crash'):
            fcls = 'reset-inflight-callback' if (hold == 'cb' and cls == 'stale') else ('reset-race-stale' if cls == 'stale' else 'reset-race-' + cls)
            fails.append((fcls, 'resetrace:%s' % kind, eng, [hold, str(k)],
                          {'cmd': l, 'observed': o, 'model': m, 'order': ','.join(order), 'schedule':
                           ('timer thread held at delay.callback.unlocked until reset() returned' if hold == 'cb' else
                            'resetting thread held at arrival %d of *.reset.%s (%s) until the delayed send of the previous life was delivered / overdue' % (k, hold, held))}))
        elif cls == 'inconclusive':
            dis.append(('resetrace:' + kind, eng, [hold, str(k)], o, 'schedule not established in %d attempts' % attempts))
        elif mcls not in ('unknown', cls):
            # the model (regenerated order) predicts a stale event and the implementation is clean
            dis.append(('resetrace:' + kind, eng, [hold, str(k)], o, m))
    stats.update({
        'order': order, 'locks_targets': locks, 'engines': list(engines), 'kinds': ['ext', 'int'],
        'holds': ['%s#%d' % h for h in holds], 'attempts': attempts,
        'outcome_classes': {'%s impl=%s model=%s' % k_: v for k_, v in sorted(classes.items())},
        'oracle_failures': len(fails), 'disagreements': len(dis), 'wall_s': round(time.time() - t_start, 2)})
    stats['cov'].update({
        'schedules_replayed': len(cases), 'hook_arrivals_held': held_hist, 'timer_delivered_during_hold': delivered_in_hold,
        'outcome_classes': stats['outcome_classes'], 'generated_order': order, 'reset_locks_targets': locks})
    stats['samples'] = [{'cmd': res[i][0], 'impl': res[i][1], 'model': mout[i]} for i in (0, 1, len(cases) - 1) if i < len(cases)]
    log('C10 reset race: order %s locks=%s, %d schedules, %d oracle failures, %d disagreements (%.1fs)' %
        (','.join(order) or '-', locks, len(cases), len(fails), len(dis), time.time() - t_start))
    return fails, dis, stats


# ================================================================== destroy race (work package rr, follow-up) ======
# ~InterpreterImpl() against the timer thread: model coq/theories/ResetRaceDestroy.v (theorems destroy_no_use_after_free,
# destroy_safe_by_member_order, gen_destroy_ok in props/Properties_C10.v), regenerated switches and member order
# coq/gen/GenDestroyOrder.v (tools/translate/tr_destroyorder.py), extracted model extract/resetrace (commands dgen, dr),
# implementation side harness/vd_resetrace.cpp (command destroyrace).  Observation without a sanitizer: the schedule
# point interp.destroy.done (patches/C10-destroy-hooks.diff) at the end of the destructor's body; a callback of the
# timer thread that passes interp.eventReady.* / delay.callback.delivered AFTER it works on an object whose members are
# being destroyed.  Thorough tier: the same schedules under valgrind (if installed), invalid accesses are failures.

EXPECT.update({
    'delivered-after-destruction': 'destruction is safe under every interleaving with the timer thread: no timer callback works on the '
                                   'interpreter after its destructor body has finished (ResetRaceDestroy.d_after_done / d_fault = false, '
                                   'theorem destroy_no_use_after_free; a use of freed memory: C09)',
    'destroy-use-after-free': 'no use of freed memory while an interpreter is destroyed (valgrind memcheck: no invalid read/write)',
    'destroy-race-hang': 'destroying an interpreter returns in bounded time under every interleaving with the timer thread',
    'destroy-race-crash': 'destroying an interpreter is safe under every interleaving with the timer thread',
})

RR_REQUIRE_DESTROY_HOOK = True     # set to True once interp.destroy.done is in /repo: its absence is then an error, not a skip


def dr_model_sched(locks, hold):
    if hold == 'none':
        return ['D'] * 30
    if hold == 'locked' and locks:
        # the callback holds _delayMutex: the destructor waits for it at its lock
        return ['F', 'T', 'T', 'T'] + ['D'] * 30
    return ['F', 'T'] + ['D'] * 30 + ['T'] * 3 + ['D'] * 30


def dr_impl_class(d):
    if d['_hang']:
        return 'hang'
    if d['_crash'] or not d['_end']:
        return 'crash'
    if d.get('pre') != 'ok':
        return 'inconclusive'
    if d.get('after_done', '-') != '-':
        return 'after-destruction'
    return 'clean' if d.get('destroyed') == '1' else 'hang'


def destroy_race(c, vdriver, quick, broken):
    t_start = time.time()
    stats = {'replays': 0, 'cov': {}}
    tmeta = c.notes.get('translators', {}).get('tr_destroyorder', {})
    stats['translator'] = tmeta
    try:
        rmodel = ensure_vmodel('resetrace')
    except BuildError as e:
        broken.append({'name': 'extract/resetrace (the destroy-race model does not build)', 'ok': False, 'why': str(e)[-600:]})
        stats['skipped'] = 'model does not build'
        return [], [], stats
    rc, g, _ = run_lines(rmodel, ['dgen'])
    gen = dict(kv.split('=') for kv in g[0].split()) if g and '=' in g[0] else {}
    stats['generated'] = gen
    if 'error' in tmeta or gen.get('ok') != '1':
        log('C10 destroy race: tr_destroyorder could not read ~InterpreterImpl(): %s' % tmeta.get('error'))
    else:
        tr = {'locks': '1' if tmeta.get('locks_targets') else '0', 'drops_al': '1' if tmeta.get('drops_al') else '0',
              'joins': '1' if tmeta.get('joins_in_body') else '0'}
        if any(gen.get(k_) != v_ for k_, v_ in tr.items()):
            broken.append({'name': 'GenDestroyOrder.v (the compiled Coq file is not what tr_destroyorder.py produced)', 'ok': False,
                           'why': 'translator %s, compiled %s' % (tmeta, gen)})
    locks = gen.get('locks') == '1'
    probe_line = 'destroyrace default ext none 0 15 60'
    rc, po, _ = run_lines(vdriver, [probe_line])
    if not po or po[0].startswith('ERR unknown command'):
        broken.append({'name': 'harness/vd_resetrace.cpp (destroyrace: does not compile against the working tree)', 'ok': False, 'why': str(po)})
        stats['skipped'] = 'harness command missing'
        return [], [], stats
    pd = rr_parse(po[0])
    stats['probe'] = {'cmd': probe_line, 'answer': po[0]}
    stats['cov']['hook_present'] = pd.get('done_seen') == '1'
    if pd.get('done_seen') != '1':
        msg = 'the schedule point interp.destroy.done is not in this tree (patches/C10-destroy-hooks.diff): a callback after the destructor body cannot be observed, section skipped'
        log('C10 destroy race: ' + msg)
        stats['skipped'] = msg
        if RR_REQUIRE_DESTROY_HOOK:
            broken.append({'name': 'destroy race replay (hook point missing)', 'ok': False, 'why': msg})
        return [], [], stats

    engines = ('default', 'fast') if quick else ('default', 'large', 'fast')
    reps = 1 if quick else 4
    cases = [(eng, kind, hold, alref) for eng in engines for kind in ('ext', 'int') for hold in ('none', 'unlocked', 'locked')
             for alref in (0, 1) for _ in range(reps)]
    mlines = ['dr gen gen %s %d %s' % ('d' if kind == 'ext' else 'e', alref, ','.join(dr_model_sched(locks, hold)))
              for eng, kind, hold, alref in cases]
    mout, _ = run_lines_sharded(rmodel, mlines)
    res = [None] * len(cases)
    todo = list(range(len(cases)))
    attempts = 0
    for delay, hold_ms in ((15, 60), (80, 100), (300, 150)):
        if not todo:
            break
        attempts += 1
        lines = ['destroyrace %s %s %s %d %d %d' % (cases[i][0], cases[i][1], cases[i][2], cases[i][3], delay, hold_ms) for i in todo]
        out, _ = run_lines_sharded(vdriver, lines, shards=min(NCPU, 8))
        nxt = []
        for i, l, o in zip(todo, lines, out):
            d = rr_parse(o)
            cls = dr_impl_class(d)
            res[i] = (l, o, d, cls)
            stats['replays'] += 1
            if cls == 'inconclusive':
                nxt.append(i)
        todo = nxt
    fails, dis = [], []
    classes = {}
    released = {}
    for (eng, kind, hold, alref), m, (l, o, d, cls) in zip(cases, mout, res):
        md = dict(kv.split('=') for kv in m.split() if '=' in kv)
        mcls = md.get('class', 'unknown')
        classes[(hold, alref, cls, mcls)] = classes.get((hold, alref, cls, mcls), 0) + 1
        released[d.get('released_by', '?')] = released.get(d.get('released_by', '?'), 0) + 1
        what = {'none': 'a delayed send pending', 'unlocked': 'the timer callback held at delay.callback.unlocked (past its critical section)',
                'locked': 'the timer callback held at interp.eventReady.locked (inside eventReady, holding _delayMutex)'}[hold]
        det = {'cmd': l, 'observed': o, 'model': m,
               'schedule': 'interpreter destroyed on a second thread with %s%s; the callback released 20 ms after interp.destroy.done or when the hold expired'
                           % (what, ', getActionLanguage() called before' if alref else '')}
        ops = [hold, 'alref=%d' % alref]
        if cls == 'after-destruction':
            fails.append(('delivered-after-destruction', 'destroyrace:%s' % kind, eng, ops, det))
        elif cls in ('hang', 'crash'):
            fails.append(('destroy-race-' + cls, 'destroyrace:%s' % kind, eng, ops, det))
        elif cls == 'inconclusive':
            dis.append(('destroyrace:' + kind, eng, ops, o, 'schedule not established in %d attempts' % attempts))
        elif mcls not in ('unknown', cls):
            dis.append(('destroyrace:' + kind, eng, ops, o, m))
    memcheck = None
    if not quick and shutil.which('valgrind'):
        # the in-flight schedules once more under memcheck (the forked child is followed)
        vl = ['destroyrace default %s unlocked %d 15 200' % (kind, alref) for kind in ('ext', 'int') for alref in (0, 1)]
        import subprocess
        try:
            p = subprocess.run(['valgrind', '-q', '--trace-children=no', '--child-silent-after-fork=no', vdriver],
                               input=('\n'.join(vl) + '\n').encode(), stdout=subprocess.PIPE, stderr=subprocess.PIPE, timeout=900,
                               env=dict(os.environ, USCXML_NOCACHE_FILES='true'))
            err = p.stderr.decode('utf-8', 'replace')
            bad = [ln for ln in err.split('\n') if 'Invalid read' in ln or 'Invalid write' in ln or 'Invalid free' in ln]
            memcheck = {'cases': len(vl), 'invalid_accesses': len(bad), 'rc': p.returncode}
            stats['replays'] += len(vl)
            if bad:
                i0 = err.find(bad[0])
                fails.append(('destroy-use-after-free', 'destroyrace:memcheck', 'default', ['unlocked'],
                              {'cmd': vl[0], 'observed': err[max(0, i0 - 100):i0 + 2500], 'model': '-',
                               'schedule': 'valgrind -q vdriver < the destroyrace unlocked schedules'}))
        except Exception as e:   # valgrind present but unusable: noted, not a verdict
            memcheck = {'error': str(e)[-300:]}
    stats.update({'switches': gen, 'engines': list(engines), 'attempts': attempts, 'memcheck': memcheck,
                  'outcome_classes': {'%s alref=%d impl=%s model=%s' % k_: v for k_, v in sorted(classes.items())},
                  'oracle_failures': len(fails), 'disagreements': len(dis), 'wall_s': round(time.time() - t_start, 2)})
    stats['cov'].update({'schedules_replayed': len(cases), 'callback_released_by': released, 'outcome_classes': stats['outcome_classes'],
                         'generated_switches': {k_: gen.get(k_) for k_ in ('locks', 'drops_al', 'joins', 'members', 'safe', 'safe_by_order')},
                         'memcheck': memcheck})
    stats['samples'] = [{'cmd': res[i][0], 'impl': res[i][1], 'model': mout[i]} for i in (0, 2, len(cases) - 1) if i < len(cases)]
    log('C10 destroy race: switches locks=%s drops_al=%s joins=%s, %d schedules, %d oracle failures, %d disagreements (%.1fs)' %
        (gen.get('locks'), gen.get('drops_al'), gen.get('joins'), len(cases), len(fails), len(dis), time.time() - t_start))
    return fails, dis, stats
