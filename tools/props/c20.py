"""C20 -- transformation and interpretation are deterministic functions of their input.

The proof part (Properties_C20.v) is a set of noninterference theorems over the environment inputs the model
lists (address-space layout, std::hash, random generator, cache directory): partial by nature.  The detection
power is here: every generated document is transformed by every back-end in SEPARATE processes under different
address-space layouts and with cold and warm cache directories, and the outputs are compared byte for byte; the
differing regions are compared with what the model (instantiated with the variant the regenerated inventory
GenEnvDeps.v selects) predicts to vary; the process-dependent inputs observed in-process (printed addresses, map
iteration order) are fed to the extracted model, which must reproduce the implementation's identifiers; interpreter
traces of repeated runs are compared, including stale and corrupt cache files."""
import concurrent.futures, hashlib, json, os, platform, re, shutil, subprocess, sys, tempfile, time
from vlib import *
import chartgen as G

BACKENDS = ('c', 'pml', 'vhdl')
XMLNS = 'http://www.w3.org/2005/07/scxml'

EV_POOL = [b'e', b'f', b'e.x', b'go', b'done.x', b'error.y', b'a.b.c', b'timer-1', b'sensor_2.low', b'k9', b'Up', b'x.y-z', b'q.*', b'e f',
           b'foo.bar', b'child1.done', b'btn:press', b'a+b', b'long.event.name.with.many.segments.in.it']
ID_POOL = ['inv1', 'inv2', 'child.a', 'x-1', 'Inv_3', 'sub', 'i4', 'm.n.o', 'worker', 'Z']
LABELS = ['hello world', 'state entered', 'value of x', 'a "quoted" label'.replace('"', '&quot;'), 'umlaut äö', 'tab\there', 'x' * 40,
          'semi;colon', 'percent %d %s', "apostrophe's", 'back\\slash']


# ------------------------------------------------------------------ documents

def render(tree, dm, extra=None, top=True):
    """chartgen rendering with text inserted after the opening tag of given states: extra = {sid: xml}"""
    s = G.r_node(tree, dm, False, True)
    if not top:
        s = s.replace(' xmlns="%s"' % XMLNS, '', 1)
    for sid, x in (extra or {}).items():
        if sid == 0:
            k = s.index('>') + 1
        else:
            m = re.search(r'<(state|parallel) id="s%d"[^>]*>' % sid, s)
            if not m:
                continue
            k = m.end()
        s = s[:k] + x + s[k:]
    return s


def invoke_xml(iid, inner):
    return '<invoke type="scxml"%s><content>%s</content></invoke>' % ((' id="%s"' % iid) if iid is not None else '', inner)


def gen_machine(rng, dm, depth, ninv, with_ids, events_extra, literals, idpool, nprop=None):
    """returns (xml of the <scxml> element, description)"""
    tree = G.rand_chart(rng, nprop=nprop or rng.randint(2, 5), only_in=(dm == 'null'), nvars=2)
    hosts = [n for n in G.proper_states(tree) if n['kind'] in ('state', 'parallel')]
    extra = {}
    desc = {'invokes': []}
    rng.shuffle(hosts)
    for k in range(ninv):
        if not hosts:
            break
        host = hosts[k % len(hosts)]
        iid = idpool.pop(0) if (with_ids and idpool) else None
        sub_ninv = rng.choice([0, 0, 1]) if depth < 2 else 0
        inner, d = gen_machine(rng, dm, depth + 1, sub_ninv, with_ids, 0, 0, idpool, nprop=rng.randint(1, 3 if depth == 0 else 2))
        extra[host['sid']] = extra.get(host['sid'], '') + invoke_xml(iid, inner)
        desc['invokes'].append({'id': iid, 'host': host['sid'], 'sub': d})
    # many events and string literals
    evs = []
    for _ in range(events_extra):
        h = rng.choice(hosts) if hosts else None
        if h is None:
            break
        ev = rng.choice(EV_POOL)
        tgt = rng.choice([n['sid'] for n in G.proper_states(tree)])
        evs.append(ev)
        extra[h['sid']] = extra.get(h['sid'], '') + '<transition event="%s" target="s%d"/>' % (ev.decode(), tgt)
    for _ in range(literals):
        h = rng.choice(hosts) if hosts else None
        if h is None:
            break
        lab = rng.choice(LABELS)
        r = rng.random()
        if r < 0.5:
            x = '<onentry><log label="%s" expr="%d"/></onentry>' % (lab, rng.randint(0, 9))
        elif r < 0.8:
            x = '<onentry><raise event="%s"/></onentry>' % rng.choice(EV_POOL[:12]).decode().split()[0].rstrip('.*')
        else:
            x = '<onexit><send event="%s" delay="%dms"/></onexit>' % (rng.choice(EV_POOL[:8]).decode().split()[0].rstrip('.*'), rng.choice([0, 10, 200]))
        extra[h['sid']] = extra.get(h['sid'], '') + x
    desc['events_extra'] = [e.decode() for e in evs]
    return render(tree, dm, extra, top=(depth == 0)), desc


def order_invokes(xml):
    """ids of the root machine's own <invoke> elements in document order (None when absent) -- those not inside a nested <content>"""
    out = []
    depth = 0
    for m in re.finditer(r'<(/?)(content|invoke)\b([^>]*)>', xml):
        close, tag, attrs = m.group(1), m.group(2), m.group(3)
        if tag == 'content':
            if attrs.rstrip().endswith('/'):
                continue
            depth += -1 if close else 1
        elif tag == 'invoke' and not close and depth == 0:
            i = re.search(r'\bid="([^"]*)"', attrs)
            out.append(i.group(1) if i else None)
    return out


def xml_depth(xml):
    d = m = 0
    for t in re.finditer(r'<(/?)[A-Za-z][^>]*?(/?)>', xml):
        if t.group(1):
            d -= 1
        elif not t.group(2):
            d += 1
            m = max(m, d)
    return m


MAX_DEPTH = 12     # ChartToC::resortStates visits every child three times per level: time grows as 3^depth


def gen_docs(c, n):
    """list of dicts: xml (one line), cls, has_ids, dm"""
    rng = c.rng
    docs = []
    corpus = json.load(open(os.path.join(ROOT, 'corpus', 'c20.json')))
    for w in corpus['documents']:
        docs.append({'xml': w['xml'], 'cls': 'corpus:' + w['name'], 'has_ids': w.get('has_ids', True), 'dm': w.get('dm', 'promela'),
                     'skip': w.get('skip', [])})
    # string literals as child text of state-local <data> and of <assign> elements, in documents large enough for the
    # DOM to span several heap blocks: the order in which a back-end walks lists of such elements decides the numbers
    # of the literals it emits
    for nst in (12, 40, 70):
        parts = ['<scxml xmlns="http://www.w3.org/2005/07/scxml" version="1.0" datamodel="promela" binding="late" initial="s0" name="lit">'
                 '<datamodel><data id="mode" type="int">\'idle\'</data><data id="last" type="int">\'none\'</data></datamodel>']
        for i in range(nst):
            nxt = 's%d' % (i + 1) if i + 1 < nst else 'pass'
            parts.append('<state id="s%d"><datamodel><data id="tag%d" type="int">\'tag.%d.initial\'</data></datamodel>'
                         '<onentry><assign location="mode">\'mode.%d.entered\'</assign><raise event="step.%d.begin"/></onentry>'
                         '<transition event="step.%d.begin" target="%s"><assign location="last">\'last.%d.taken\'</assign>'
                         '<log label="step" expr="tag%d"/></transition></state>' % (i, i, i, i, i, i, nxt, i, i))
        parts.append('<final id="pass"/></scxml>')
        docs.append({'xml': ''.join(parts), 'cls': 'literal-text', 'has_ids': True, 'dm': 'promela', 'skip': []})
    while len(docs) < n:
        r = rng.random()
        dm = 'promela' if rng.random() < 0.85 else rng.choice(['null', 'lua'])
        idpool = list(ID_POOL)
        rng.shuffle(idpool)
        if r < 0.25:
            cls, ninv, ids, ev, lit = 'plain', 0, True, rng.randint(0, 3), rng.randint(0, 2)
        elif r < 0.65:
            cls, ninv, ids, ev, lit = 'nested', rng.randint(1, 4), True, rng.randint(0, 4), rng.randint(0, 3)
        elif r < 0.85:
            cls, ninv, ids, ev, lit = 'events', rng.choice([0, 1, 2]), True, rng.randint(6, 14), rng.randint(4, 10)
        elif r < 0.93:
            cls, ninv, ids, ev, lit = 'big', rng.randint(2, 5), True, rng.randint(0, 3), rng.randint(0, 2)
        else:
            cls, ninv, ids, ev, lit = 'noid', rng.randint(1, 3), False, 0, 0
        xml, desc = gen_machine(rng, dm, 0, ninv, ids, ev, lit, idpool)
        if xml_depth(xml) > MAX_DEPTH:
            continue
        if cls == 'big':
            # many small nodes after each <invoke>: the DOM heap of the document then spans several blocks, whose
            # relative addresses depend on the allocator (one large text node would get a block of its own)
            reps = rng.choice([20, 50, 100, 200])
            parts = xml.split('</invoke>')
            xml = parts[0] + ''.join('</invoke><onentry>' + ''.join('<log label="f%d" expr="%d"/>' % (k, j) for j in range(reps)) + '</onentry>' + p
                                     for k, p in enumerate(parts[1:]))
        docs.append({'xml': xml, 'cls': cls, 'has_ids': ids or ninv == 0, 'dm': dm, 'skip': []})
    return docs


# ------------------------------------------------------------------ process environments

def environments():
    arch = platform.machine()
    envs = [('aslr', [], {}),
            ('noaslr', ['setarch', arch, '-R'], {}),
            ('bigenv', [], {'C20_ENV_PADDING': 'x' * 70000, 'C20_MORE': 'y' * 3000}),
            ('mmap4k', [], {'GLIBC_TUNABLES': 'glibc.malloc.mmap_threshold=4096'}),
            ('tcache0', [], {'GLIBC_TUNABLES': 'glibc.malloc.tcache_count=0'})]
    # setarch -R needs the personality syscall
    rc, _ = sh(['setarch', arch, '-R', 'true'])
    note = None
    if rc != 0:
        envs[1] = ('toppad', [], {'GLIBC_TUNABLES': 'glibc.malloc.top_pad=1:glibc.malloc.tcache_count=0'})
        note = 'setarch -R not permitted here; replaced by a malloc tunable environment'
    return envs, note


def transform_once(exe, be, xml, cwd, tmpdir, prefix, extra_env, timeout=90, infile=None):
    env = {'PATH': os.environ.get('PATH', '/usr/bin:/bin'), 'TMPDIR': tmpdir, 'TMP': tmpdir, 'HOME': os.environ.get('HOME', '/root')}
    env.update(extra_env)
    # the text goes to a file: with stdout as destination the library's log lines ("[Info] HTTP server listening on
    # tcp/30444" or "[Error] ... cannot bind", depending on what else runs on the machine) are mixed into it
    out = os.path.join(tmpdir, 'out.txt')
    try:
        os.remove(out)
    except OSError:
        pass
    for attempt in range(4):
        try:
            p = subprocess.run(prefix + [exe, '-t' + be, '-o', out] + (['-i', infile] if infile else []),
                               input=None if infile else xml.encode('utf-8'), stdin=subprocess.DEVNULL if infile else None,
                               stdout=subprocess.PIPE, stderr=subprocess.PIPE, cwd=cwd, env=env, timeout=timeout)
        except subprocess.TimeoutExpired:
            return 'TIMEOUT', b''
        try:
            with open(out, 'rb') as f:
                text = f.read()
        except OSError:
            text = b'<no output file>'
        if p.returncode in (126, 127) and text == b'<no output file>' and attempt < 3:
            # the loader could not start the program: the build tree is being relinked by a concurrent check
            time.sleep(2)
            continue
        return p.returncode, text


def cmdline(exe, be, cwd, tmpdir, prefix, extra_env, docfile):
    ev = ' '.join("%s=%s" % (k, ("$(printf 'x%%.0s' $(seq %d))" % len(v)) if len(v) > 200 else v) for k, v in sorted(extra_env.items()))
    return 'cd %s && mkdir -p %s && env -i PATH=$PATH TMPDIR=%s %s %s %s -t%s -o %s/out.txt < %s; md5sum %s/out.txt' % (
        cwd, tmpdir, tmpdir, ev, ' '.join(prefix), exe, be, tmpdir, docfile, tmpdir)


MASK_C = [(re.compile(rb'_uscxml_[0-9A-F]{8}_'), b'_uscxml_########_'), (re.compile(rb'"[0-9A-F]{32}"'), b'"MD5"')]
MASK_PML = [(re.compile(rb'U[0-9A-Fa-f]{8}_'), b'U########_')]
PML_BLOCK = re.compile(rb'^\s*(\w+?)flags\[USCXML_CTX_PRISTINE\]\s*= true;', re.M)
VHDL_EVSIG = re.compile(rb'^signal event_(.*)_sig : std_logic;', re.M)


def words_sorted(t):
    return tuple(sorted(tuple(sorted(re.findall(rb'\w+', l))) for l in t.split(b'\n')))


def mask(b, rules):
    for r, s in rules:
        b = r.sub(s, b)
    return b


def classify(be, outs):
    """outs: list of (rc, bytes) of one document and back-end; returns None (all identical) or the class of the difference"""
    if all(o == outs[0] for o in outs):
        return None
    if len(set(o[0] for o in outs)) > 1:
        return 'exit-status'
    texts = [o[1] for o in outs]
    if be == 'c':
        if len(set(mask(t, MASK_C) for t in texts)) == 1:
            return 'c-symbol-prefix-from-address'
        return 'c-unlisted'
    if be == 'pml':
        orders = set(tuple(PML_BLOCK.findall(t)) for t in texts)
        if len(orders) > 1:
            return 'pml-machine-order-by-address'
        if len(set(tuple(sorted(mask(t, MASK_PML).split(b'\n'))) for t in texts)) == 1:
            return 'pml-literal-prefix-from-address'
        if len(set(words_sorted(mask(t, MASK_PML)) for t in texts)) == 1:
            return 'pml-event-order-by-address'        # same lines up to the order of the words in them (event disjunctions)
        return 'pml-unlisted'
    if be == 'vhdl':
        if len(set(tuple(VHDL_EVSIG.findall(t)) for t in texts)) > 1:
            return 'vhdl-event-order-by-address'
        return 'vhdl-unlisted'
    return be + '-unlisted'


def first_diff_region(a, b):
    n = min(len(a), len(b))
    i = next((k for k in range(n) if a[k] != b[k]), n)
    ls = a.rfind(b'\n', 0, i) + 1
    le = a.find(b'\n', i)
    le2 = b.find(b'\n', i)
    return {'offset': i, 'line': a.count(b'\n', 0, i) + 1,
            'run1': a[ls:le if le >= 0 else len(a)].decode('latin-1')[:200], 'run2': b[ls:le2 if le2 >= 0 else len(b)].decode('latin-1')[:200]}


# ------------------------------------------------------------------ the check

def run(c):
    broken = c.prove()
    impl = ensure_impl('hooks')
    texe = os.path.join(impl, 'bin', 'uscxml-transform')
    vdriver = ensure_vdriver('hooks', units=['vd_determinism', 'vd_run'])
    vmodel = ensure_vmodel('determinism')
    c.cov['trusted_base'] += ['tools/translate/tr_envdeps.py (regular-expression inventory, no finite probe)',
                              'MD5 as implemented by OCaml Digest / Python hashlib agrees with uscxml::md5 (checked on every observed pointer)',
                              'rendering of the text around the identifier skeleton, createMacroName, table computation and the interpreter are abstract (universally quantified) in the theorems']
    c.notes['output_destination'] = ('the compared bytes are those of the -o file; with stdout as destination the library\'s log lines '
                                     '("[Info] HTTP server listening on tcp/30444" or "[Error] WebSocket server cannot bind to tcp/30445", depending on '
                                     'which other uscxml processes run on the machine) are mixed into the generated text (observed, not judged)')
    c.assumptions += [
        'PARTIAL BY NATURE: the model is a pure function of (document, url, env); the theorems are noninterference in the inputs env lists (address-space layout, std::hash, random generator, cache directory) and say nothing about a source of nondeterminism that is not listed; such a source is searched for by the multi-process byte comparison only',
        'every element needing an id carries one (has_ids); documents without ids are run to confirm that the proviso is needed, not judged',
        'refutation theorems assume that MD5 separates the printed forms of two addresses and that the emitted text shows its identifiers (checked on the observed runs)',
        'cache theorem assumes MD5 distinguishes the compared documents',
        'interp_deterministic is immediate for a Gallina function and carried by the trace comparison only',
        'same machine, same C++ library: the std::hash dependence of escapeMacro (VHDL) cannot show in repeated runs here; it is a model-level refutation and a reported portability defect']

    # 0. the variant the inventory selects
    rc, o, e = run_lines(vmodel, ['variant'])
    vinfo = dict(kv.split('=') for kv in o[0].split())
    bits = vinfo['bits']
    V = {'c_prefix_ptr': bits[0] == '1', 'pml_prefix_leak': bits[1] == '1', 'pml_ptr_order': bits[2] == '1',
         'vhdl_std_hash': bits[3] == '1', 'trie_ptr_merge': bits[4] == '1', 'fast_cache': bits[5] == '1', 'md5_guard': bits[6] == '1'}
    c.notes['model_variant_from_inventory'] = dict(V, clean=vinfo['clean'] == '1', cache_safe=vinfo['cache_safe'] == '1',
                                                   inventory=int(vinfo['inventory']), harmful=int(vinfo['harmful']), unaccounted=int(vinfo['unaccounted']))
    c.notes['no_env_dependence'] = ('inventory clean: transformers proved environment independent for this tree' if vinfo['clean'] == '1'
                                    else 'inventory holds %s harmful entries, each a flow of the model; refuted variant applies' % vinfo['harmful'])

    quick = c.tier == 'quick'
    ndocs = 200 if quick else 3000
    docs = gen_docs(c, ndocs)
    envs, envnote = environments()
    if envnote:
        c.notes['environments'] = envnote
    work = tempfile.mkdtemp(prefix='c20-', dir=os.path.join(BUILD, 'cache') if os.path.isdir(os.path.join(BUILD, 'cache')) else None)
    viol = []          # (class, payload)
    hist = {'cls': {}, 'dm': {}, 'varying': {}, 'varying_without_ids_not_judged': {}, 'exit_status': {}, 'too_slow_left_out': 0}
    evaluations = 0
    nontriv = set()
    try:
        # ---------------------------------------------------------- 1. multi-process byte comparison
        # pre-pass: a document on which a transformer needs more than 20 s is left out (its cost is exponential in the
        # nesting depth); counted in the distribution
        os.makedirs(os.path.join(work, 'pre'))

        def pre_one(ib):
            i, be = ib
            t = os.path.join(work, 'pre', 't%d%s' % (i, be))
            os.makedirs(t)
            return ib, transform_once(texe, be, docs[i]['xml'], os.path.join(work, 'pre'), t, [], {}, timeout=20)[0]
        slow = set()
        with concurrent.futures.ThreadPoolExecutor(max_workers=NCPU) as ex:
            for (i, be), rc in ex.map(pre_one, [(i, be) for i in range(len(docs)) for be in BACKENDS if be not in docs[i]['skip']
                                                and (xml_depth(docs[i]['xml']) > 10 or docs[i]['cls'].startswith('corpus'))]):
                if rc == 'TIMEOUT':
                    slow.add(i)
                evaluations += 1
        hist['too_slow_left_out'] = len(slow)
        jobs = []
        for i, d in enumerate(docs):
            if i in slow:
                continue
            cwd = os.path.join(work, 'd%d' % i)
            os.makedirs(cwd)
            with open(os.path.join(cwd, 'doc.scxml'), 'w', encoding='utf-8') as f:
                f.write(d['xml'])
            hist['cls'][d['cls'].split(':')[0]] = hist['cls'].get(d['cls'].split(':')[0], 0) + 1
            hist['dm'][d['dm']] = hist['dm'].get(d['dm'], 0) + 1
            for be in BACKENDS:
                if be in d['skip']:
                    continue
                for (en, prefix, extra) in envs:
                    tmpdir = os.path.join(cwd, 'tmp-%s-%s' % (be, en))
                    os.makedirs(tmpdir)
                    jobs.append((i, be, en, prefix, extra, cwd, tmpdir))

        def work_one(j):
            i, be, en, prefix, extra, cwd, tmpdir = j
            cold = transform_once(texe, be, docs[i]['xml'], cwd, tmpdir, prefix, extra)
            ncache = len(os.listdir(os.path.join(tmpdir, 'uscxml'))) if os.path.isdir(os.path.join(tmpdir, 'uscxml')) else 0
            warm = transform_once(texe, be, docs[i]['xml'], cwd, tmpdir, prefix, extra)
            return j, cold, warm, ncache
        results = {}
        cachefiles = 0
        with concurrent.futures.ThreadPoolExecutor(max_workers=NCPU) as ex:
            for j, cold, warm, ncache in ex.map(work_one, jobs):
                results.setdefault((j[0], j[1]), []).append((j[2], 'cold', cold, j))
                results[(j[0], j[1])].append((j[2], 'warm', warm, j))
                cachefiles += 1 if ncache else 0
                evaluations += 2
        c.notes['runs_with_cache_file_left_behind'] = cachefiles
        # 1b. the same through a file URL (-i doc.scxml; Interpreter::fromURL, about a second per run): first documents only
        nfile = 10 if quick else 60
        fjobs = [(i, be, en, prefix, extra, os.path.join(work, 'd%d' % i)) for i in range(min(nfile, len(docs))) if i not in slow
                 for be in BACKENDS if be not in docs[i]['skip'] for (en, prefix, extra) in (envs[0], envs[3])]

        def file_one(j):
            i, be, en, prefix, extra, cwd = j
            t = os.path.join(cwd, 'ftmp-%s-%s' % (be, en))
            os.makedirs(t)
            return j, [transform_once(texe, be, docs[i]['xml'], cwd, t, prefix, extra, infile='doc.scxml') for _ in (0, 1)]
        with concurrent.futures.ThreadPoolExecutor(max_workers=NCPU) as ex:
            for j, (cold, warm) in ex.map(file_one, fjobs):
                results.setdefault((j[0], j[1] + '@file'), []).append((j[2], 'cold', cold, j[:5] + (j[5], os.path.join(j[5], 'ftmp'))))
                results[(j[0], j[1] + '@file')].append((j[2], 'warm', warm, j[:5] + (j[5], os.path.join(j[5], 'ftmp'))))
                evaluations += 2
        c.notes['runs_through_file_url'] = 2 * len(fjobs)
        found = {}
        for (i, bek), rs in sorted(results.items()):
            be = bek.split('@')[0]
            d = docs[i]
            outs = [r[2] for r in rs]
            st = outs[0][0]
            hist['exit_status'][bek + ':' + str(st)] = hist['exit_status'].get(bek + ':' + str(st), 0) + 1
            if any(o[0] == 'TIMEOUT' for o in outs):
                continue
            cls = classify(be, outs)
            if be == 'c' or (be == 'pml' and '<invoke' in d['xml']) or (be == 'vhdl' and re.search(r'event="[^"]*[^A-Za-z0-9_ "]', d['xml'])):
                nontriv.add((i, be))
            if cls is None:
                continue
            if not d['has_ids']:
                hist['varying_without_ids_not_judged'][bek + ':' + cls] = hist['varying_without_ids_not_judged'].get(bek + ':' + cls, 0) + 1
                continue
            hist['varying'][bek + ':' + cls] = hist['varying'].get(bek + ':' + cls, 0) + 1
            key = (be, cls)
            if key in found and len(found[key][0]['xml']) <= len(d['xml']):
                continue
            # two concrete runs with different bytes
            a = rs[0]
            b = next(r for r in rs if r[2] != a[2])
            found[key] = (d, i, a, b)
        for (be, cls), (d, i, a, b) in sorted(found.items()):
            predicted = {'c-symbol-prefix-from-address': V['c_prefix_ptr'], 'pml-literal-prefix-from-address': V['pml_prefix_leak'],
                         'pml-machine-order-by-address': V['pml_ptr_order'], 'pml-event-order-by-address': V['trie_ptr_merge'],
                         'vhdl-event-order-by-address': V['trie_ptr_merge']}.get(cls, False)
            cwd = os.path.join('/tmp/c20-replay', 'd')
            payload = {'kind': 'oracle', 'oracle': 'byte equality of two transformations of the same document at the same URL',
                       'backend': be, 'class': cls, 'predicted_by_model_variant': predicted,
                       'document': d['xml'],
                       'document_sha1': hashlib.sha1(d['xml'].encode('utf-8')).hexdigest(), 'document_class': d['cls'],
                       'run1': {'environment': a[0], 'cache': a[1], 'exit': a[2][0], 'md5': hashlib.md5(a[2][1]).hexdigest(), 'bytes': len(a[2][1])},
                       'run2': {'environment': b[0], 'cache': b[1], 'exit': b[2][0], 'md5': hashlib.md5(b[2][1]).hexdigest(), 'bytes': len(b[2][1])},
                       'first_difference': first_diff_region(a[2][1], b[2][1]),
                       'expected': 'identical bytes', 'observed': 'different bytes',
                       'replay_cmd': '# write the document (one line) to /tmp/c20-replay/d/doc.scxml, then compare:\n' +
                                     cmdline(texe, be, cwd, cwd + '/tmp1', a[3][3], a[3][4], 'doc.scxml') + '\n' +
                                     cmdline(texe, be, cwd, cwd + '/tmp2', b[3][3], b[3][4], 'doc.scxml')}
            viol.append((cls, payload))

        # model prediction vs observation, per back-end (the model says: varies for every document / for documents with nested machines / never)
        corr_fail = []
        obs_c = hist['varying'].get('c:c-symbol-prefix-from-address', 0) > 0
        obs_leak = hist['varying'].get('pml:pml-literal-prefix-from-address', 0) + hist['varying'].get('pml:pml-machine-order-by-address', 0) > 0
        if obs_c != V['c_prefix_ptr']:
            corr_fail.append('C symbol prefix: inventory/model says %s, runs say %s' % (V['c_prefix_ptr'], obs_c))
        if obs_leak and not (V['pml_prefix_leak'] or V['pml_ptr_order']):
            corr_fail.append('Promela: the model variant has no environment flow, the runs differ')
        if V['pml_prefix_leak'] and not obs_leak:
            corr_fail.append('Promela literal prefix: inventory/model says it varies, no run differed')
        obs_trie = hist['varying'].get('vhdl:vhdl-event-order-by-address', 0) + hist['varying'].get('pml:pml-event-order-by-address', 0) > 0
        if obs_trie and not V['trie_ptr_merge']:
            corr_fail.append('event order: the model variant has no address flow through the trie, the runs differ')

        # ---------------------------------------------------------- 2. the observed environment fed to the model
        corr = in_process_correspondence(c, vdriver, vmodel, docs, bits, work, quick)
        evaluations += corr['evaluations']
        for fmsg in [x for x in corr['failures'] if x.startswith('HISTORY-DEPENDENT')]:
            viol.append(('output-depends-on-process-history', {'kind': 'oracle', 'class': 'output-depends-on-process-history', 'what': fmsg,
                         'expected': 'the text a back-end writes for a document is the same whatever the process transformed before',
                         'replay_cmd': 'vdriver dettr lines of the documents in order (see harness/vd_determinism.cpp): the same-shape pairs pa0,pb0,pa1,pb1 six times in one process, then each alone'}))
        corr_fail += [x for x in corr['failures'] if not x.startswith('HISTORY-DEPENDENT')]
        c.notes['in_process_correspondence'] = {k: v for k, v in corr.items() if k not in ('failures',)}

        # ---------------------------------------------------------- 3. interpreter traces
        tr = trace_checks(c, vdriver, envs, work, quick, V)
        evaluations += tr['evaluations']
        for p in tr['violations']:
            viol.append((p['class'], p))
        corr_fail += tr['failures']
        c.notes['trace_checks'] = tr['notes']
    finally:
        shutil.rmtree(work, ignore_errors=True)

    c.cov['evaluations'] = evaluations
    c.cov['distinct_nontrivial'] = len(nontriv)
    c.cov['rule'] = ('%d documents (corpus witnesses first, then seeded random charts of tools/chartgen.py with nested <invoke><content><scxml>, '
                     'many events and string literals, large text, some without ids) x %d back-ends x %d process environments (%s) x {cold, warm} cache '
                     'directory, each run a separate uscxml-transform process at the same URL, outputs compared byte for byte; in-process runs whose observed '
                     'addresses are fed to the extracted model; interpreter traces in separate processes per environment and with stale/corrupt cache files; '
                     'non-trivial = (document, back-end) whose output contains an identifier derived from a hash or a container iteration '
                     '(C: every document; Promela: nested machine; VHDL: event name with a character outside [0-9A-Za-z_])') % (
        len(docs), len(BACKENDS), len(envs), ', '.join(e[0] for e in envs))
    c.cov['input_distribution'] = hist
    c.cov['samples'] = [{'class': d['cls'], 'bytes': len(d['xml']), 'xml': d['xml'][:300]} for d in docs[len(docs) // 2:len(docs) // 2 + 3]]
    c.cov['correspondence_failures'] = corr_fail
    c.cov['oracle_failures'] = len(viol)

    # ---------------------------------------------------------- classify
    for cls, payload in viol:
        f = c.match_known({'class': cls})
        if f:
            c.known(f['id'], f['what'])
        else:
            c.violation(payload)
    if not viol:
        for msg in corr_fail:
            c.violation({'kind': 'correspondence', 'what': msg,
                         'detail': 'model Determinism.v instantiated with the variant of GenEnvDeps.v and the implementation disagree; no pair of runs with different bytes/traces was found'}, no_input=True)
        for b in broken:
            c.violation({'kind': 'obligation', 'theorem': b['name'], 'why': b.get('why', '')}, no_input=True)
    else:
        for msg in corr_fail:
            log('correspondence: ' + msg)
        for b in broken:
            if all(c.match_known({'class': cls}) for cls, _ in viol):
                c.violation({'kind': 'obligation', 'theorem': b['name'], 'why': b.get('why', '')}, no_input=True)
            else:
                log('broken obligation %s (failing input reported above)' % b['name'])
    return c.finish()


def replay(path):
    """vcheck C20 --replay <file>: run the two recorded runs again and compare"""
    r = json.load(open(path))
    print(json.dumps({k: v for k, v in r.items() if k not in ('document', 'document_A', 'document_B')}, indent=1))
    if r.get('kind') != 'oracle' or 'backend' not in r:
        return 0
    impl = ensure_impl('hooks')
    texe = os.path.join(impl, 'bin', 'uscxml-transform')
    envs, _ = environments()
    byname = {e[0]: e for e in envs}
    work = tempfile.mkdtemp(prefix='c20-replay-')
    try:
        outs = []
        for k, run in enumerate((r['run1'], r['run2'])):
            en, prefix, extra = byname.get(run['environment'], envs[0])
            t = os.path.join(work, 'tmp%d' % k)
            os.makedirs(t)
            res = None
            for _ in range(2 if run.get('cache') == 'warm' else 1):
                res = transform_once(texe, r['backend'], r['document'], work, t, prefix, extra)
            outs.append(res)
            print('run%d environment=%s cache=%s exit=%s md5=%s bytes=%d' % (k + 1, en, run.get('cache'), res[0], hashlib.md5(res[1]).hexdigest(), len(res[1])))
        if outs[0] != outs[1]:
            print('DIFFERENT:', json.dumps(first_diff_region(outs[0][1], outs[1][1])))
            return 1
        print('identical this time (the difference depends on the address-space layout; repeat, or see the class)')
        return 0
    finally:
        shutil.rmtree(work, ignore_errors=True)


# ------------------------------------------------------------------ in-process: observed addresses -> model

def parse_dettr(line):
    r = {'ok': line.startswith('OK'), 'raw': line[:200], 'M': {}, 'ALL': [], 'PMAP': []}
    for tok in line.split():
        if tok.startswith('M['):
            path, rest = tok[2:].split(']=', 1)
            ptr, md5, prefix = rest.split(':')
            r['M'][path] = (ptr, md5, prefix)
        elif tok.startswith('ALL='):
            r['ALL'] = tok[4:].split(',')
        elif tok.startswith('PMAP='):
            for e in tok[5:].split(','):
                a, doc, pos, prefix, mdoc = e.split('/')
                r['PMAP'].append((a, doc, int(pos), prefix, mdoc))
        elif tok.startswith('md5='):
            r['md5'] = tok[4:]
        elif tok.startswith('TRIE='):
            r['TRIE'] = {}
            for e in tok[5:].split(','):
                path, a, idx = e.split('/')
                r['TRIE']['' if path == '-' else path] = (a, None if idx == '-' else int(idx))
        elif tok.startswith('EVNAMES='):
            r['EVNAMES'] = [] if tok[8:] == '-' else tok[8:].split(',')
    return r


def trie_case(r):
    """from the dumped trie: the words in the order they were added and the addresses of the nodes in allocation order"""
    def path_of(hexword):
        w = bytes.fromhex(hexword)
        return '.'.join(t.hex() for t in w.split(b'.') if t)
    words = sorted(r['EVNAMES'], key=lambda h: r['TRIE'][path_of(h)][1])
    seen = {''}
    alloc = []
    for h in words:
        toks = path_of(h).split('.')
        for k in range(1, len(toks) + 1):
            pth = '.'.join(toks[:k])
            if pth not in seen:
                seen.add(pth)
                alloc.append(r['TRIE'][pth][0])
    return words, alloc


def in_process_correspondence(c, vdriver, vmodel, docs, bits, work, quick):
    failures = []
    sample = [(i, d) for i, d in enumerate(docs) if d['has_ids'] and d['dm'] == 'promela' and len(d['xml']) < 60000]
    sample = sample[:120 if quick else 800]
    lines = []
    meta = []
    for i, d in sample:
        for be in ('c', 'pml', 'vhdl'):
            for rep in (0, 1):
                out = os.path.join(work, 'ip-%d-%s-%d.txt' % (i, be, rep))
                lines.append('dettr %s %s %s %s' % (be, hexs('file://' + os.path.join(work, 'd%d' % i, 'anonymous.scxml')), hexs(d['xml'].encode('utf-8')), hexs(out)))
                meta.append((i, be, rep, out))
    outs, crashes = run_lines_sharded(vdriver, lines, shards=8)
    mlines = []
    mmeta = []
    parsed = []
    md5_checked = md5_ptr = 0
    for (i, be, rep, outf), o in zip(meta, outs):
        r = parse_dettr(o)
        parsed.append(r)
        if not r['ok']:
            continue
        # what is hashed: the printed pointer?
        for path, (ptr, md5v, prefix) in r['M'].items():
            md5_checked += 1
            if hashlib.md5(ptr.encode()).hexdigest().upper() == md5v:
                md5_ptr += 1
        kids = sorted((int(p), v) for p, v in r['M'].items() if p != '' and '.' not in p)
        if be == 'c' and '' in r['M']:
            mlines.append('cskel %s %s %s' % (bits, r['M'][''][0], ' '.join(v[0] for _, v in kids)))
            mmeta.append(('c', i, rep, r, outf))
        if be == 'vhdl' and r.get('EVNAMES') and len(set(r['EVNAMES'])) == len(r['EVNAMES']):
            try:
                words, alloc = trie_case(r)
                if len(alloc) + 1 == len(r['TRIE']):
                    mlines.append('evorder %s %s %s' % (bits, ','.join(words), ','.join(alloc) if alloc else '-'))
                    mmeta.append(('evorder', i, rep, r, outf))
            except KeyError:
                pass
        if be == 'pml' and r['PMAP']:
            ids = order_invokes(docs[i]['xml'])
            bydoc = sorted(r['PMAP'], key=lambda e: e[2])
            if len(bydoc) - 1 == len(ids) and all(x is not None for x in ids):
                mlines.append('pmlblocks %s %s %s' % (bits, bydoc[0][0], ' '.join('%s %s' % (hexs(x.encode()), e[0]) for x, e in zip(ids, bydoc[1:]))))
                mmeta.append(('pmlblocks', i, rep, r, outf))
                for k, (x, e) in enumerate(zip(ids, bydoc[1:])):
                    # e[4]: the DOMDocument of the ChartToPromela object of the k-th nested machine
                    mlines.append('pmlprefix %s %d %s %s' % (bits, k, hexs(x.encode()), e[4]))
                    mmeta.append(('pmlprefix', i, rep, r, outf))
    mouts, _ = run_lines_sharded(vmodel, mlines, shards=4)
    agree = {'c': 0, 'pmlblocks': 0, 'pmlprefix': 0, 'evorder': 0}
    for (kind, i, rep, r, outf), mo in zip(mmeta, mouts):
        try:
            text = open(outf, 'rb').read()
        except OSError:
            text = b''
        if kind == 'c':
            toks = mo.split()
            want = [(toks[k], toks[k + 1]) for k in range(0, len(toks), 2)]
            kids = sorted((int(p), v) for p, v in r['M'].items() if p != '' and '.' not in p)
            got = [(r['M'][''][2], r['M'][''][1])] + [(v[2], v[1]) for _, v in kids]
            shown = all(('extern const uscxml_machine %s_machine;' % p).encode() in text for p, _ in got)
            if bits[0] == '1' and (want != got or not shown):
                failures.append('C skeleton of document %d: model %s, implementation %s, all shown in the text: %s' % (i, want[:3], got[:3], shown))
            else:
                agree['c'] += 1
        elif kind == 'evorder':
            want = mo.split(',')
            nsig = len(VHDL_EVSIG.findall(text))
            if want != r['EVNAMES'] or nsig != len(want):
                failures.append('event order of document %d: model %s, getWordsWithPrefix %s, %d event signals in the text' % (
                    i, [bytes.fromhex(x).decode('latin-1') for x in want], [bytes.fromhex(x).decode('latin-1') for x in r['EVNAMES']], nsig))
            else:
                agree['evorder'] += 1
        elif kind == 'pmlblocks':
            want = mo.split()
            got_map = [e[3] for e in r['PMAP']]
            got_text = [x.decode() for x in PML_BLOCK.findall(text)]
            if want != got_map or want != got_text:
                failures.append('Promela block order of document %d: model %s, map iteration %s, text %s' % (i, want, got_map, got_text))
            else:
                agree['pmlblocks'] += 1
        else:
            shown = (mo.upper() + '_NAME').encode() in text
            if bits[1] == '1' and not shown:
                failures.append('Promela literal prefix of document %d: model predicts %s_name, not in the text' % (i, mo))
            elif bits[1] == '0' and re.search(rb'U[0-9A-F]{8}__NAME', text):
                failures.append('Promela literal prefix of document %d: an address-derived literal is in the text, the model variant has none' % i)
            else:
                agree['pmlprefix'] += 1
    # escapeMacro: structure (kept characters, '_' + one byte of std::hash over the others)
    names = sorted(set(EV_POOL + [b'a.b', b'plain', b'x-y.z', b'\xc3\xa4.b', b'..', b'a b']))
    sp, _ = run_lines_sharded(vmodel, ['special %s' % hexs(n) for n in names])
    io, _ = run_lines_sharded(vdriver, ['dethash %s' % hexs(n) for n in names] + ['dethash %s' % s for s in sp])
    full, spec = io[:len(names)], io[len(names):]
    hb = [int(x[-2:], 16) if x != '-' else 0 for x in spec]
    mo, _ = run_lines_sharded(vmodel, ['vhdlsig %s %d %s' % (bits, h, hexs(n)) for n, h in zip(names, hb)])
    esc_ok = sum(1 for a, b in zip(full, mo) if a == b)
    if bits[3] == '1' and esc_ok != len(names):
        bad = next((n, a, b) for n, a, b in zip(names, full, mo) if a != b)
        failures.append('escapeMacro(%r): implementation %s, model %s' % bad)
    # the output of a transformation must not depend on what the process transformed before: every in-process output
    # (a driver process works through many different documents) against the output of a process that transformed
    # this document only; and pairs of documents of the same shape (same layout, other targets) alternating in one
    # process, which is when a later document is allocated at the addresses of a released one
    def fresh(job):
        i, be, xml = job
        outf = os.path.join(work, 'fr-%s-%s.txt' % (i, be))
        rc, o, e = run_lines(vdriver, ['dettr %s %s %s %s' % (be, hexs('file://' + os.path.join(work, 'd%s' % i, 'anonymous.scxml')), hexs(xml.encode('utf-8')), hexs(outf))], timeout=120)
        try:
            return (i, be), open(outf, 'rb').read()
        except OSError:
            return (i, be), None
    pairs = []
    for k, (ta, tb) in enumerate([('s2', 's3'), ('s3', 's1')]):
        def doc(t1, t2):
            return ('<scxml xmlns="http://www.w3.org/2005/07/scxml" version="1.0" datamodel="promela" name="pair" initial="p">'
                    '<parallel id="p"><state id="r1"><state id="s1"><transition event="e" target="%s"/></state><state id="s2"><transition event="f" target="%s"/></state>'
                    '<state id="s3"/></state><state id="r2"><state id="q1"><transition event="e" target="out"/></state></state></parallel><state id="out"/></scxml>' % (t1, t2))
        pairs.append(('pa%d' % k, doc(ta, tb)))
        pairs.append(('pb%d' % k, doc(tb, 'out')))
    plines, pmeta = [], []
    for rep in range(6):
        for name, xml in pairs:
            for be in ('c', 'pml', 'vhdl'):
                outf = os.path.join(work, 'pp-%s-%s-%d.txt' % (name, be, rep))
                plines.append('dettr %s %s %s %s' % (be, hexs('file://' + os.path.join(work, 'd%s' % name, 'anonymous.scxml')), hexs(xml.encode('utf-8')), hexs(outf)))
                pmeta.append((name, be, outf))
    run_lines(vdriver, plines, timeout=600)      # one process, in this order
    refjobs = [(i, be, docs[i]['xml']) for (i, be, rep, outf) in meta if rep == 0][:(90 if quick else 600)] + [(n, be, x) for n, x in pairs for be in ('c', 'pml', 'vhdl')]
    with concurrent.futures.ThreadPoolExecutor(max_workers=NCPU) as ex:
        ref = dict(ex.map(fresh, refjobs))
    hist_dep = 0
    compared = 0
    for key, outf in [((i, be), outf) for (i, be, rep, outf) in meta] + [((n, be), outf) for (n, be, outf) in pmeta]:
        if ref.get(key) is None:
            continue
        try:
            text = open(outf, 'rb').read()
        except OSError:
            continue
        compared += 1
        if text != ref[key]:
            hist_dep += 1
            if hist_dep == 1:
                failures.append('HISTORY-DEPENDENT OUTPUT: back-end %s, document %s: the text written after other documents had been transformed in the same process differs from the text of a process that transformed this document only (%s)'
                                % (key[1], key[0], first_diff_region(text, ref[key])))
    for cr in crashes:
        failures.append('vdriver crashed during in-process transformation (rc=%s): %s' % (cr[1], cr[2][-300:]))
    # hashing of the printed pointer <=> variant bit
    ptr_hashed = md5_checked > 0 and md5_ptr == md5_checked
    if (bits[0] == '1') != ptr_hashed and md5_checked:
        failures.append('what ChartToC hashes: model variant says pointer=%s, %d of %d observed md5 values are md5(printed pointer)' % (bits[0] == '1', md5_ptr, md5_checked))
    return {'evaluations': len(lines) + len(mlines) + 3 * len(names) + len(plines) + len(refjobs), 'outputs_compared_with_fresh_process': compared, 'history_dependent_outputs': hist_dep, 'failures': failures, 'in_process_transformations': len(lines),
            'md5_is_md5_of_printed_pointer': '%d/%d' % (md5_ptr, md5_checked), 'model_agrees': agree, 'model_cases': len(mlines),
            'escapeMacro_agree': '%d/%d' % (esc_ok, len(names)),
            'std_hash_byte_samples': {n.decode('latin-1'): h for n, h in list(zip(names, hb))[:6]}}


# ------------------------------------------------------------------ interpreter traces

def trace_checks(c, vdriver, envs, work, quick, V):
    rng = c.rng
    notes = {}
    violations = []
    failures = []
    evaluations = 0
    # (a) the same `run` lines in separate driver processes, one per environment
    import chart_common as CC
    cases = []
    n = 150 if quick else 1200
    for _ in range(n):
        dm = rng.choice(['lua', 'promela', 'null'])
        tree = G.rand_chart(rng, only_in=(dm == 'null'))
        evs = G.rand_events(rng)
        for eng in ('large', 'fast'):
            cases.append(CC.impl_line(eng, tree, dm, False, evs))
    # corpus: a chart on which the large engine's entry-set computation depended on the addresses of its State objects
    wpath = os.path.join(ROOT, 'corpus', 'c06_side_large_engine_nondeterministic.sx')
    if os.path.exists(wpath):
        sys.path.insert(0, os.path.join(ROOT, 'tools', 'props'))
        import c06 as _c06
        wt = _c06.tree_of_sx(open(wpath).read().strip())
        for _ in range(4):
            cases.append(CC.impl_line('large', wt, 'promela', False, [b'e']))
    per_env = {}
    for (en, prefix, extra) in envs:
        env = dict(os.environ)
        env.update(extra)
        exe = vdriver
        if prefix:
            wrapper = os.path.join(work, 'vdriver-' + en)
            with open(wrapper, 'w') as f:
                f.write('#!/bin/sh\nexec %s %s "$@"\n' % (' '.join(prefix), vdriver))
            os.chmod(wrapper, 0o755)
            exe = wrapper
        outs, crashes = run_lines_sharded(exe, cases, shards=4, env=env)
        per_env[en] = outs
        evaluations += len(cases)
        for cr in crashes:
            failures.append('vdriver crashed in environment %s (rc=%s) at case %d' % (en, cr[1], cr[0]))
    # the same documents again inside long-lived driver processes, in reverse order and twice in a row: the heap of a
    # process that has already interpreted other documents hands out addresses in another order than a fresh one
    # (a container or search ordered by pointer values shows here and in no fresh process)
    order2 = list(reversed(range(len(cases))))
    outs2, crashes2 = run_lines_sharded(vdriver, [cases[k] for k in order2 for _ in (0, 1)], shards=2)
    per_env['reused-heap-1'] = [None] * len(cases)
    per_env['reused-heap-2'] = [None] * len(cases)
    for pos, k in enumerate(order2):
        per_env['reused-heap-1'][k] = outs2[2 * pos]
        per_env['reused-heap-2'][k] = outs2[2 * pos + 1]
    evaluations += 2 * len(cases)
    base = envs[0][0]
    differing = [k for k in range(len(cases)) if len(set(per_env[en][k] for en in per_env)) > 1 and not any(per_env[en][k].startswith('CRASH') for en in per_env)]
    notes['traces_compared'] = len(cases)
    notes['traces_differing_between_environments'] = len(differing)
    if differing:
        k = min(differing, key=lambda k: len(cases[k]))
        e2 = next(en for en in per_env if per_env[en][k] != per_env[base][k])
        violations.append({'kind': 'oracle', 'class': 'trace-differs-between-processes', 'oracle': 'equal traces of the same document under the same events',
                           'input': cases[k], 'run1': {'environment': base, 'trace': per_env[base][k]}, 'run2': {'environment': e2, 'trace': per_env[e2][k]},
                           'expected': 'identical traces', 'observed': 'different traces',
                           'replay_cmd': "echo '%s' | /verif/.build/vdriver-hooks/vdriver   # in both environments" % cases[k][:200]})

    # (b) cache files: cold, warm (same document), stale (another document at the same URL), corrupt
    corpus = json.load(open(os.path.join(ROOT, 'corpus', 'c20.json')))
    pairs = [(p['a'], p['b']) for p in corpus['cache_pairs']]
    npairs = 40 if quick else 250
    while len(pairs) < npairs:
        dm = rng.choice(['lua', 'null', 'promela'])
        nprop = rng.randint(2, 6)
        ta = G.rand_chart(rng, nprop=nprop, only_in=(dm == 'null'))
        tb = G.rand_chart(rng, nprop=nprop, only_in=(dm == 'null'))
        pairs.append((G.to_scxml(ta, dm), G.to_scxml(tb, dm)))
    evh = ' '.join(hexs(e) for e in [b'e', b'f', b'e.x', b'e'])
    lines = []
    meta = []
    for k, (a, b) in enumerate(pairs):
        tmp = os.path.join(work, 'ct%d' % k)
        os.makedirs(tmp)
        url = 'file://' + os.path.join(work, 'same-url-%d.scxml' % k)
        for eng in ('fast', 'large'):
            t = os.path.join(tmp, eng)
            os.makedirs(t)
            seq = [('B-nocache', b, 0), ('A-nocache', a, 0), ('A-cold', a, 1), ('A-warm', a, 1), ('B-stale', b, 1), ('B-warm', b, 1), ('A-stale', a, 1)]
            for name, doc, cache in seq:
                lines.append('detrun %s %d %s %s %s 40 %s' % (eng, cache, hexs(t), hexs(url), hexs(doc.encode('utf-8')), evh))
                meta.append((k, eng, name))
    # one driver process per pair and engine keeps the order of the sequence; run sequentially inside, pairs in parallel
    chunks = {}
    for l, m in zip(lines, meta):
        chunks.setdefault((m[0], m[1]), []).append((l, m))

    def run_chunk(item):
        key, lm = item
        rc, out, err = run_lines(vdriver, [x[0] for x in lm], timeout=300)
        out = out + ['CRASH rc=%s' % rc] * (len(lm) - len(out))
        return key, [(m, o) for (_, m), o in zip(lm, out)]
    with concurrent.futures.ThreadPoolExecutor(max_workers=NCPU) as ex:
        res = dict(ex.map(run_chunk, chunks.items()))
    cache_diff = []
    stuck = 0
    tables_in_cache = 0
    for (k, eng), seq in sorted(res.items()):
        tr = {m[2]: o.split('CACHE:')[0] for m, o in seq}
        evaluations += len(seq)
        for m, o in seq:
            if 'DESTRUCTOR-STUCK' in o:
                stuck += 1
            if 'CACHE:' in o and '4661737' in o.split('CACHE:')[1]:       # "Fas"tMicroStep
                tables_in_cache += 1
        strip = lambda s: s.replace('DESTRUCTOR-STUCK ', '')
        for ref, others in (('B-nocache', ('B-stale', 'B-warm')), ('A-nocache', ('A-cold', 'A-warm', 'A-stale'))):
            for x in others:
                if strip(tr.get(x, '')) != strip(tr.get(ref, '')):
                    cache_diff.append((k, eng, ref, x, tr.get(ref, ''), tr.get(x, '')))
    notes['cache_sequences'] = len(res)
    notes['cache_runs'] = sum(len(v) for v in res.values())
    notes['cache_runs_differing_from_no_cache'] = len(cache_diff)
    notes['destructor_stuck'] = stuck
    notes['cache_files_with_fast_engine_tables'] = tables_in_cache
    if (tables_in_cache > 0) != V['fast_cache']:
        failures.append('fast engine tables in the cache file: inventory/model says %s, %d cache files contained them' % (V['fast_cache'], tables_in_cache))
    if cache_diff:
        k, eng, ref, x, t0, t1 = min(cache_diff, key=lambda z: len(pairs[z[0]][0]) + len(pairs[z[0]][1]))
        violations.append({'kind': 'oracle', 'class': 'trace-depends-on-cache-file', 'oracle': 'trace with a cache directory left by earlier runs = trace without',
                           'engine': eng, 'document_A': pairs[k][0], 'document_B': pairs[k][1], 'scenario': x, 'reference': ref,
                           'run1': {'cache': 'off', 'trace': t0}, 'run2': {'cache': x, 'trace': t1},
                           'expected': 'identical traces', 'observed': 'different traces',
                           'replay_cmd': 'vdriver commands: detrun %s <cache 0|1> <hex tmpdir> <hex url> <hex doc> 40 %s in the order B-nocache, A-cold, B-stale (see harness/vd_determinism.cpp)' % (eng, evh)})
    # corrupt cache files: every truncation of a valid one, and malformed JSON
    a, b = pairs[0]
    tmp = os.path.join(work, 'corrupt')
    os.makedirs(os.path.join(tmp, 'uscxml'))
    url = 'file://' + os.path.join(work, 'corrupt.scxml')
    rc, o, e = run_lines(vdriver, ['detcachefile %s %s' % (hexs(tmp), hexs(url)),
                                   'detrun fast 0 %s %s %s 40 %s' % (hexs(tmp), hexs(url), hexs(b.encode()), evh),
                                   'detrun fast 1 %s %s %s 40 %s' % (hexs(tmp), hexs(url), hexs(b.encode()), evh)])
    cfile, ref, first = o[0], o[1].split('CACHE:')[0], o[2]
    valid = bytes.fromhex(first.split('CACHE:')[1]) if first.split('CACHE:')[1] != '-' else b''
    bad = [valid[:n] for n in range(0, len(valid), 1 if not quick else 3)] + \
          [b'{"a"}', b'[', b'{', b'{"InterpreterImpl"}', b'{"InterpreterImpl": {"md5"}}', b'\x00\x01', b'"str"', b'{"a":}', b'[1,2,3]',
           b'{"FastMicroStep": {"states": [{"completion": "AAAA"}], "transitions": [{"target": "AAAA"}]}}',
           b'{"InterpreterImpl": "x"}', b'{"InterpreterImpl": {"md5": {"a": 1}}}', b'{' * 2000, b'[' * 2000]
    corrupt_bad = []

    def run_corrupt(item):
        n, content = item
        t = os.path.join(tmp, 'c%d' % n)
        os.makedirs(os.path.join(t, 'uscxml'))
        cf = os.path.join(t, 'uscxml', os.path.basename(cfile))
        with open(cf, 'wb') as f:
            f.write(content)
        rc, out, err = run_lines(vdriver, ['detrun fast 1 %s %s %s 40 %s' % (hexs(t), hexs(url), hexs(b.encode()), evh)], timeout=120)
        return n, content, rc, (out[0] if out else 'CRASH rc=%s %s' % (rc, err[-200:]))
    with concurrent.futures.ThreadPoolExecutor(max_workers=NCPU) as ex:
        for n, content, rc, out in ex.map(run_corrupt, list(enumerate(bad))):
            evaluations += 1
            if out.split('CACHE:')[0].replace('DESTRUCTOR-STUCK ', '') != ref.replace('DESTRUCTOR-STUCK ', ''):
                corrupt_bad.append((content, rc, out))
    notes['corrupt_cache_files_tried'] = len(bad)
    notes['corrupt_cache_files_changing_the_run'] = len(corrupt_bad)
    if corrupt_bad:
        content, rc, out = min(corrupt_bad, key=lambda z: len(z[0]))
        violations.append({'kind': 'oracle', 'class': 'trace-depends-on-corrupt-cache-file', 'oracle': 'trace with a (damaged) cache file left behind = trace without',
                           'document': b, 'cache_file': os.path.basename(cfile), 'cache_file_content_hex': content.hex()[:400],
                           'run1': {'cache': 'off', 'trace': ref}, 'run2': {'cache': 'damaged file', 'exit': rc, 'trace': out[:600]},
                           'expected': 'identical traces', 'observed': 'different trace or crash',
                           'replay_cmd': 'write the bytes to $TMPDIR/uscxml/%s and interpret the document at url %s' % (os.path.basename(cfile), url)})
    return {'evaluations': evaluations, 'violations': violations, 'failures': failures, 'notes': notes}
