"""C16 -- values survive the trip through the Lua datamodel; system variables cannot be assigned.

Correspondence: harness/vd_lua.cpp (implementation, `lua-*` commands of vdriver) against the extracted
LuaMarshal.v (extract/lua), instantiated with an executable stand-in for the Lua / number oracle.
Oracle: `data_eqb (output) (embed v)` for every output of every way in x way out on values of the
property's class (`unambiguous`), error + unchanged for assignments to system variables."""
import json, os, sys, itertools, re
from vlib import *

WAYS_IN = ['payload', 'param', 'namelist', 'assign', 'data', 'assigndata']
WAYS_OUT = ['expr', 'send', 'evdata', 'dsend', 'devdata']
SYSVARS = ['_event', '_sessionid', '_name', '_ioprocessors', '_invokers']
TWO53 = 2 ** 53
LONG_MAX = 2 ** 63 - 1

# ------------------------------------------------------------------ values
# ('S', bytes) ('I', int) ('D', numeral text) ('T',) ('F',) ('A', [v]) ('M', [(bytes, v)])
# raw Lua only: ('N',) ('R', [(int|bytes, v)])


def hx(b):
    return b.hex()


def syntax(v):
    t = v[0]
    if t == 'S': return 'S' + hx(v[1])
    if t == 'I': return 'I%d' % v[1]
    if t == 'D': return 'D' + hx(v[1].encode())
    if t in 'TFN': return t
    if t == 'A': return '[' + ''.join(syntax(x) for x in v[1]) + ']'
    if t == 'M': return '{' + ''.join('s%s:%s' % (hx(k), syntax(x)) for k, x in v[1]) + '}'
    if t == 'R': return '{' + ''.join(('i%d:' % k if isinstance(k, int) else 's%s:' % hx(k)) + syntax(x) for k, x in v[1]) + '}'
    raise ValueError(v)


def lua_str(b):
    return '"' + ''.join('\\%03d' % c for c in b) + '"'


def literal(v):
    """Lua source text of the value (every string byte as a decimal escape, so the text is plain ASCII)"""
    t = v[0]
    if t == 'S': return lua_str(v[1])
    if t == 'I': return '%d' % v[1]
    if t == 'D': return {'inf': '(1/0)', '-inf': '(-1/0)', 'nan': '(0/0)'}.get(v[1], v[1])
    if t == 'T': return 'true'
    if t == 'F': return 'false'
    if t == 'N': return 'nil'
    if t == 'A': return '{' + ','.join(literal(x) for x in v[1]) + '}'
    if t == 'M': return '{' + ','.join('[%s]=%s' % (lua_str(k), literal(x)) for k, x in v[1]) + '}'
    if t == 'R': return '{' + ','.join('[%s]=%s' % ('%d' % k if isinstance(k, int) else lua_str(k), literal(x)) for k, x in v[1]) + '}'
    raise ValueError(v)


def fmt_double(text):
    return ('%.16g' % float(text)).encode()


def tree(v):
    """the Data tree of `embed v` (cross-checked against the model's own embed on every case)"""
    t = v[0]
    if t == 'S': return 'V' + hx(v[1]) + '[]{}'
    if t == 'I': return 'I' + hx(b'%d' % v[1]) + '[]{}'
    if t == 'D': return 'I' + hx(fmt_double(v[1])) + '[]{}'
    if t == 'T': return 'I' + hx(b'true') + '[]{}'
    if t == 'F': return 'I' + hx(b'false') + '[]{}'
    if t == 'A': return 'I[' + ''.join(tree(x) for x in v[1]) + ']{}'
    if t == 'M':
        return 'I[]{' + ''.join('%s=%s' % (hx(k), tree(x)) for k, x in sorted(v[1], key=lambda kv: kv[0])) + '}'
    raise ValueError(v)


def has_table(v):
    return v[0] in 'AMR'


def depth(v):
    if v[0] in 'AMR':
        return 1 + max([depth(x[1] if v[0] != 'A' else x) for x in v[1]] + [0])
    return 0


def walk(v):
    yield v
    if v[0] == 'A':
        for x in v[1]:
            yield from walk(x)
    elif v[0] in 'MR':
        for _, x in v[1]:
            yield from walk(x)


def defect_class(v):
    """which known restriction of the pinned code the value falls outside of (first that applies)"""
    for x in walk(v):
        if x[0] == 'M' and any(len(k) == 0 for k, _ in x[1]):
            return 'empty-key'
    for x in walk(v):
        if x[0] == 'M' and any(re.match(rb'^[-.0-9]+$', k) and not re.match(rb'^-?([0-9]+\.?[0-9]*|\.[0-9]+)$', k) for k, _ in x[1]):
            return 'key-with-misplaced-sign'
    for x in walk(v):
        if x[0] == 'S' and len(x[1]) == 0:
            return 'empty-string'
    for x in walk(v):
        if x[0] == 'A' and len(x[1]) >= 10:
            return 'array-of-10-or-more'
    for x in walk(v):
        if x[0] == 'I' and abs(x[1]) > TWO53:
            return 'integer-beyond-2^53'
    return 'other'


ATOMS12 = [('S', b''), ('S', b'abc'), ('S', b'007'), ('S', b'1.5'), ('S', b'true'),
           ('I', 0), ('I', 1), ('I', -7), ('D', '1.5'), ('D', '0.1'), ('T',), ('F',)]
KEYS4 = [b'a', b'x y', b'1', b'2']     # identifier-like, other text, 1-based integers


def containers_over(children, keys, maxlen=2, need=None):
    out = []
    for n in range(0, maxlen + 1):
        for t in itertools.product(children, repeat=n):
            if need is None or any(need(x) for x in t):
                out.append(('A', list(t)))
    for n in range(0, maxlen + 1):
        for ks in itertools.combinations(keys, n):
            for t in itertools.product(children, repeat=n):
                if need is None or any(need(x) for x in t):
                    out.append(('M', list(zip(ks, t))))
    return out


def exhaustive_values():
    vals = list(ATOMS12)
    d1 = containers_over(ATOMS12, KEYS4)
    # the empty array and the empty map are both in d1 (once each)
    vals += d1
    inner = [('S', b''), ('S', b'007'), ('I', 1), ('T',),
             ('A', []), ('A', [('I', 1)]), ('A', [('S', b'a'), ('S', b'b')]),
             ('M', [(b'a', ('I', 1))]), ('M', [(b'1', ('S', b'x'))]), ('M', [(b'1', ('I', 1)), (b'2', ('I', 2))])]
    d2 = [v for v in containers_over(inner, KEYS4, need=has_table) if len(v[1]) > 0]
    vals += d2
    return vals


R_STRINGS = [b'', b'abc', b'007', b'1.5', b'true', b'nil', b'false', b' ', b'a b', b'1e5', b'-1', b'0x10', b'"q"',
             b"it's", b'back\\slash', b'line\nbreak', b'\x00nul', b'\xc3\xa4\xe2\x82\xac', b'<&>', b'--[[', b']]',
             b'9007199254740993', b'.', b'-', b'inf', b'{}', b'x' * 40]
R_INTS = [0, 1, -1, 2, 10, 42, -7, 255, 65536, 2 ** 31, 2 ** 32 + 1, 10 ** 15, TWO53 - 1, TWO53, TWO53 + 1, -(TWO53 + 1),
          10 ** 18 + 1, LONG_MAX, -LONG_MAX]
R_FLOATS = ['1.5', '0.1', '-0.25', '3.0', '1e+16', '1e300', '123456789.123456', '2.5e-10', '0.3333333333333333',
            '1.7976931348623157e+308', '5e-324', '6.02214076e23', '1e15', '123456789012345.6', '100.0']
R_KEYS = [b'a', b'b', b'key', b'x y', b'1', b'2', b'3', b'0', b'-1', b'007', b'10', b'1.5', b'\xc3\xa4', b'true', b'nil',
          b'_event', b'a.b', b'12abc', b'20',
          # not numbers, although made of numeral characters: isInteger/isNumeric as pinned accept '-' anywhere
          b'1-2', b'-', b'1-', b'--1', b'2-', b'10-0', b'1.2.3', b'.']
# (no large integer-like keys: a table with the single key 10^9 is read back by getLuaAsData as an array
#  with 10^9 - 1 nil entries, which exhausts memory -- see the report)


def random_value(rng, d, empty_key=True):
    r = rng.random()
    if d <= 0 or r < 0.35:
        k = rng.random()
        if k < 0.4:
            return ('S', rng.choice(R_STRINGS))
        if k < 0.65:
            return ('I', rng.choice(R_INTS) if rng.random() < 0.7 else rng.randint(-10 ** 6, 10 ** 6))
        if k < 0.85:
            return ('D', rng.choice(R_FLOATS))
        return ('T',) if rng.random() < 0.5 else ('F',)
    if r < 0.65:
        n = rng.choice([0, 1, 1, 2, 2, 3, 3, 4, 9, 10, 11, 12])
        if n >= 9:
            return ('A', [random_value(rng, 0) for _ in range(n)])
        return ('A', [random_value(rng, d - 1, empty_key) for _ in range(n)])
    n = rng.choice([0, 1, 1, 2, 2, 3, 4])
    # the empty key is rare on purpose: each use can make the implementation allocate until the
    # address-space limit (uninitialised long used as table index)
    ks = rng.sample(R_KEYS + ([b''] if (empty_key and rng.random() < 0.04) else []), n)
    return ('M', [(k, random_value(rng, d - 1, empty_key)) for k in ks])


def random_raw(rng, d):
    """raw Lua tables: integer keys (1-based, holes, zero, negative), mixed keys, nil"""
    if d <= 0 or rng.random() < 0.3:
        v = random_value(rng, 0)
        return v
    n = rng.choice([1, 2, 3, 4])
    shape = rng.random()
    keys = []
    if shape < 0.35:        # positive integers with holes
        keys = rng.sample([1, 2, 3, 4, 5, 7, 9, 10, 11, 12, 20], n)
    elif shape < 0.55:      # other integers
        keys = rng.sample([0, -1, 1, 2, 3, -5], n)
    elif shape < 0.85:      # mixed
        keys = rng.sample([1, 2, 3, b'a', b'1', b'x', 0, b'y z', b'2'], n)
    else:                   # a full sequence
        keys = list(range(1, rng.choice([2, 5, 9, 10, 11, 15]) + 1))
    # a Lua table cannot hold the integer key i and ... it can hold both 1 and "1"; the item map of
    # getLuaAsData then keeps whichever lua_next yields first (unspecified), so avoid that collision
    txt = set()
    kk = []
    for k in keys:
        t = (b'%d' % k) if isinstance(k, int) else k
        if t in txt:
            continue
        txt.add(t)
        kk.append(k)
    return ('R', [(k, random_raw(rng, d - 1) if rng.random() < 0.4 else random_value(rng, 0)) for k in kk])


# ------------------------------------------------------------------ raw Data trees (drt / pay / ev)

def dnode(ty, atom, arr=(), comp=()):
    return ty + hx(atom) + '[' + ''.join(arr) + ']{' + ''.join('%s=%s' % (hx(k), x) for k, x in sorted(comp)) + '}'


I_ATOMS = [b'1', b'007', b'-5', b'1.50', b'1.2.3', b'1-2', b'-', b'.', b'--1', b'-.5', b'5.', b'1..2', b'true', b'false', b'nil',
           b'1e+16', b'1e5', b'inf', b'nan', b'99999999999999999999', b'-99999999999999999999', b'9007199254740993',
           b'0.1', b'-0', b'undefined_global_xyz', b'']
V_ATOMS = [b'', b'abc', b'007', b'true', b'1.5']


def random_tree(rng, d):
    r = rng.random()
    if d <= 0 or r < 0.4:
        if rng.random() < 0.55:
            return dnode('I', rng.choice(I_ATOMS))
        return dnode('V', rng.choice(V_ATOMS))
    if r < 0.65:
        return dnode(rng.choice('IV'), b'', arr=[random_tree(rng, d - 1) for _ in range(rng.choice([0, 1, 2, 3, 10, 11]))])
    if r < 0.92:
        ks = rng.sample(R_KEYS + [b'01', b'1-1', b'2', b'3'], rng.choice([0, 1, 2, 3]))
        return dnode(rng.choice('IV'), b'', comp=[(k, random_tree(rng, d - 1)) for k in ks])
    # a Data with several members set at once: compound wins over array wins over atom
    return dnode('I', rng.choice([b'', b'5']), arr=[random_tree(rng, 0) for _ in range(rng.choice([0, 2]))],
                 comp=[(k, random_tree(rng, 0)) for k in rng.sample([b'a', b'1'], rng.choice([0, 1]))])


def merge_spec(dtree_comp, params, namelist):
    """set_event_merge: namelist entry, else the last param of that name, else the payload's entry"""
    out = dict(dtree_comp)
    for k, x in params:
        out[k] = x
    for k, x in namelist:
        out[k] = x
    return out


# ------------------------------------------------------------------ the check

def norm(r):
    return 'ERR' if r.startswith('ERR') or r.startswith('EXC') else r


def kv(line, default_key=None):
    """parse `k=v k=v ...`; a line that is not of that shape (CRASH ..., EXC ...) maps every key to itself"""
    class D(dict):
        def __missing__(self, k):
            return line
    d = D()
    for tok in line.split():
        if '=' in tok and not line.startswith(('CRASH', 'EXC', 'ERR ')):
            k, v = tok.split('=', 1)
            d[k] = v
    return d


def limited(exe):
    """vdriver behind an address-space limit: an input that makes getLuaAsData pad an array with billions of nil
    entries then ends in std::bad_alloc (answer `EXC std::bad_alloc`) instead of the OOM killer"""
    w = os.path.join(os.path.dirname(exe), 'vdriver-c16-limited.sh')
    write_if_changed(w, '#!/bin/sh\nulimit -v 700000\nexec %s "$@"\n' % exe)
    os.chmod(w, 0o755)
    return w


def run(c):
    import time as _t
    phase = {}
    t0 = _t.time()

    def mark(name):
        nonlocal t0
        phase[name] = round(_t.time() - t0, 1)
        t0 = _t.time()
    c.notes['phase_s'] = phase
    broken = c.prove()
    mark('prove')
    vd_cmd = ensure_vdriver('hooks', units=['vd_lua'])
    vdriver = limited(vd_cmd)
    vmodel = ensure_vmodel('lua')
    c.cov['trusted_base'] += [
        'LuaMarshal.v as hand model of getLuaAsData/getDataAsLua/setEvent/assign/init (LuaDataModel.cpp) and isNumeric/isInteger/strTo<long> (Convenience.*), validated by the correspondence below only',
        'tools/translate/tr_luaprotected.py (guard list of assign, order of clear/assign in init), cross-checked by probing assign on every system variable name',
        'the stand-in for the oracle outside the model in extract/lua/driver.ml: OCaml floats with %.16g / strtod for C++ iostream doubles, a literal evaluator for luaEval; the generator\'s rendering of values as Lua source text (tools/props/c16.py: literal)',
    ]
    c.assumptions += [
        'PARTIAL BY NATURE: the Lua VM is outside the model. The theorems cover the marshalling logic of getLuaAsData/getDataAsLua/setEvent/assign/init for all values (induction on the value type), under Section hypotheses that are NOT proved: (H_true/H_false) luaEval of the atoms true/false yields the booleans; (H_flt) a double classified stable prints with precision 16 to a text that getDataAsLua reads back (strTo<double>, strTo<long> or the Lua numeral reader) to a number that prints to the same text; (H_int) a long of magnitude <= 2^53 converted to double prints as its decimal text; (the hypotheses on doubles are stated for both versions of isNumeric, pinned and repaired: they agree on every text a double prints to, which is likewise not proved); for the clause on paths below a system variable, that the chunk "<var>.<field>= __tmpAssign" stores the field.',
        'Covered by the correspondence only (not by any theorem): that Lua tables, luabridge (LuaRef::append = luaL_ref, cast<>, Iterator), std::map ordering and the C++ iostream conversions behave as the model says; that evaluating the generated Lua literal yields the value it was rendered from; that the interpreter routes <param>, namelist, <assign>, <data>, <donedata>, event payload through evalAsData / assign / init / setEvent as the composition run_ways assumes; the stand-in oracle itself (number texts are compared with the implementation by lua-num probes).',
        'Lua tables whose keys are neither integers nor strings (floats with a fraction, booleans) and functions/userdata/threads are outside the model and the generators (the implementation aborts the process on the first two: see the report).',
        'Event payloads with DOM nodes or binary blobs are outside the model.',
    ]

    mark('build_drivers')
    rng = c.rng
    viol_seen = set()
    hist = {}

    def bump(k, n=1):
        hist[k] = hist.get(k, 0) + n

    # ---- 1. defect vector of the implementation, from the witnesses
    wit_arr = ('A', [('I', i) for i in range(1, 11)])
    wit_big = ('I', TWO53 + 1)
    # the empty compound key after a conversion that left a positive long on the stack (undefined
    # behaviour: two witnesses; the source fact from the translator decides when neither deviates)
    wit_key = [tree(('A', [('I', 5), ('M', [(b'', ('I', 7))])])), tree(('A', [('I', 123456), ('M', [(b'', ('S', b'x')), (b'a', ('I', 1))])]))]
    wit_sign = tree(('M', [(b'1-2', ('S', b'abc'))]))
    rc, o, e = run_lines(vdriver, ['lua-drt V[]{}', 'lua-lrt ' + hx(literal(wit_arr).encode()), 'lua-lrt ' + hx(literal(wit_big).encode())] +
                         ['lua-drt ' + t for t in wit_key] + ['lua-drt ' + wit_sign])
    if len(o) < 6:
        raise BuildError('vdriver did not answer the witness probes: %s %s' % (o, e[-500:]))
    tinfo = c.notes.get('translators', {}).get('tr_luaprotected', {})
    vec = {
        'empty_atom_is_nil': 0 if o[0] == 'V[]{}' else 1,
        'keys_sorted_as_text': 0 if o[1].split()[0] == 'first=' + tree(wit_arr) else 1,
        'int_via_double': 0 if o[2].split()[0] == 'first=' + tree(wit_big) else 1,
        'empty_key_undefined': 1 if (o[3] != wit_key[0] or o[4] != wit_key[1] or tinfo.get('src_empty_key_reaches_strTo', False)) else 0,
    }
    vec['sign_anywhere'] = 0 if o[5] == wit_sign else 1
    vr = '%d%d%d%d%d' % (vec['empty_atom_is_nil'], vec['keys_sorted_as_text'], vec['int_via_double'], vec['empty_key_undefined'], vec['sign_anywhere'])
    c.notes['defect_vector'] = vec
    c.notes['empty_key_witness_outputs'] = o[3:5]
    c.notes['theorem_regime'] = {
        'marshal_roundtrip': ('applies without restriction (marshal_roundtrip_fixed)' if vr == '00000' else
                              'applies under variant_ok for the switches that are on; the full statement is refuted by: ' +
                              ', '.join(n for n, on in (('marshal_roundtrip_empty_string_refuted', vec['empty_atom_is_nil']),
                                                        ('marshal_roundtrip_long_array_refuted', vec['keys_sorted_as_text']),
                                                        ('marshal_roundtrip_big_integer_refuted', vec['int_via_double']),
                                                        ('marshal_roundtrip_empty_key_refuted', vec['empty_key_undefined']),
                                                        ('marshal_roundtrip_sign_position_refuted', vec['sign_anywhere'])) if on)),
    }

    # ---- 2. the regenerated guard list against a probe of assign on each name
    rc, mo, _ = run_lines(vmodel, ['table'])
    mt = dict(kv.split('=') for kv in mo[0].split())
    gen_list = [x for x in mt['protected'].split(',') if x]
    probe_names = SYSVARS + ['_x', '_ioprocessor', 'event', '_events', 'foo', '_Name']
    rc, po, _ = run_lines(vdriver, ['lua-protect api-assign ' + hx(n.encode()) for n in probe_names])
    probed = [n for n, r in zip(probe_names, po) if 'error=1' in r]
    c.notes['protected_translated'] = gen_list
    c.notes['guard_mode'] = {'guard_first': mt['guard_first'], 'init_clears_first': mt['init_clears_first'],
                             'guard_prefix': tinfo.get('guard_prefix')}
    c.notes['theorem_regime']['init'] = ('init_protected_refuted applies (init clears the variable before the guard)' if mt['init_clears_first'] == '1'
                                         else 'init_protected_if_guard_first applies')
    c.notes['theorem_regime']['paths_below'] = ('assign_below_protected_if_prefix_guard / assign_padded_protected_if_prefix_guard apply' if tinfo.get('guard_prefix')
                                                else 'assign_below_system_var_refuted / assign_padded_system_var_refuted apply (guard by exact comparison)')
    c.notes['protected_probed'] = probed
    translator_ok = sorted(gen_list) == sorted(probed) and mt['guard_first'] == '1'
    if not translator_ok:
        c.notes['translator_fallback'] = 'guard list read from the source %s differs from the names on which assign raises %s' % (gen_list, probed)

    # ---- 3. cases
    corpus = json.load(open(os.path.join(ROOT, 'corpus', 'c16.json')))

    def from_json(j):
        t = j[0]
        if t == 'S': return ('S', bytes.fromhex(j[1]))
        if t == 'I': return ('I', int(j[1]))
        if t == 'D': return ('D', j[1])
        if t in 'TFN': return (t,)
        if t == 'A': return ('A', [from_json(x) for x in j[1]])
        if t == 'M': return ('M', [(bytes.fromhex(k), from_json(x)) for k, x in j[1]])
        if t == 'R': return ('R', [(k if isinstance(k, int) else bytes.fromhex(k), from_json(x)) for k, x in j[1]])
        raise ValueError(j)
    values = [from_json(j) for j in corpus['values']]
    ncorpus = len(values)
    ex = exhaustive_values()
    values += ex
    nrand = 4000 if c.tier == 'quick' else 40000
    for i in range(nrand):
        # (empty map keys only among the first 1500: each can cost seconds, see random_value)
        values.append(random_value(rng, rng.choice([1, 2, 3, 4, 5]), empty_key=(i < 1500)))
    raws = [from_json(j) for j in corpus['raw_lua']]
    nraw = 6000 if c.tier == 'quick' else 60000
    for _ in range(nraw):
        raws.append(random_raw(rng, rng.choice([1, 2, 3])))
    trees = list(corpus['trees'])
    ntree = 8000 if c.tier == 'quick' else 80000
    for _ in range(ntree):
        trees.append(random_tree(rng, rng.choice([0, 1, 2, 3])))

    # ---- 4. value-level: every way in x every way out
    il = []
    ml = []
    for v in values:
        lit = hx(literal(v).encode())
        tr = tree(v)
        for w in WAYS_IN:
            il.append('lua-rt %s %s %s' % (w, tr if w in ('payload', 'assigndata') else '-', lit))
        ml.append('rt %s %s %s' % (vr, syntax(v), lit))
    impl, crashes = run_lines_sharded(vdriver, il)
    model, mcr = run_lines_sharded(vmodel, ml)
    if mcr:
        raise BuildError('the extracted model crashed: %s' % (mcr[:2],))
    oracle_fail = []      # (class, key, value, way_in, way_out, expected, observed)
    disagreements = []
    nontriv = set()
    evaluations = 0
    for vi, v in enumerate(values):
        m = kv(model[vi])
        if m.get('spec') != tree(v):
            disagreements.append(('embed', v, 'spec', 'spec', m.get('spec'), tree(v)))
            continue
        unamb = m['unamb'] == '1'
        bump('unambiguous' if unamb else 'outside_class')
        bump('depth_%d' % depth(v))
        if unamb and has_table(v):
            nontriv.add(syntax(v))
        if m['vok'] == '0' and unamb:
            bump('unambiguous_but_outside_pinned_restrictions')
        for wi_i, w in enumerate(WAYS_IN):
            line = impl[vi * len(WAYS_IN) + wi_i]
            r = kv(line)
            for wo in WAYS_OUT:
                evaluations += 1
                got = norm(r[wo])
                pred = norm(m['%s:%s' % (w, wo)])
                if pred == 'UNDEF':
                    bump('model_says_undefined_behaviour')
                elif got != pred:
                    disagreements.append(('rt', v, w, wo, pred, got))
                if unamb and got != m['spec']:
                    oracle_fail.append((defect_class(v), v, w, wo, m['spec'], got))
            if r.get('errs', '0') != '0' and unamb:
                bump('runs_with_error_events')
    c.notes['rt_values'] = {'corpus': ncorpus, 'exhaustive_depth_le_2': len(ex), 'random_depth_le_5': nrand}

    mark('ways_in_x_out')
    # ---- 5. raw Lua values (integer keys, holes, mixed keys): model vs code
    il2 = ['lua-lrt ' + hx(literal(v).encode()) for v in raws]
    ml2 = ['lrt %s %s' % (vr, syntax(v)) for v in raws]
    impl2, cr2 = run_lines_sharded(vdriver, il2)
    model2, _ = run_lines_sharded(vmodel, ml2)
    crashes += [(('lrt', il2[min(i, len(il2) - 1)]), rcx, ex_) for i, rcx, ex_ in cr2]
    for v, io, mo_ in zip(raws, impl2, model2):
        evaluations += 2
        bump('raw_lua')
        a = kv(io)
        b = kv(mo_)
        for k in ('first', 'second'):
            if b[k] == 'UNDEF':
                bump('model_says_undefined_behaviour')
            elif norm(a[k]) != norm(b[k]) and not (k == 'second' and norm(a['first']) == 'ERR'):
                disagreements.append(('lrt', v, k, '-', b[k], a[k]))

    # ---- 6. raw Data trees through assign and as event payload: model vs code
    il3 = ['lua-drt ' + t for t in trees] + ['lua-pay ' + t for t in trees]
    ml3 = ['drt %s %s' % (vr, t) for t in trees] + ['pay %s %s' % (vr, t) for t in trees]
    impl3, cr3 = run_lines_sharded(vdriver, il3)
    model3, _ = run_lines_sharded(vmodel, ml3)
    crashes += [(('drt', il3[min(i, len(il3) - 1)]), rcx, ex_) for i, rcx, ex_ in cr3]
    for t, io, mo_ in zip(trees + trees, impl3, model3):
        evaluations += 1
        bump('raw_data')
        if mo_ == 'UNDEF':
            bump('model_says_undefined_behaviour')
        elif norm(io) != norm(mo_):
            disagreements.append(('drt/pay', t, '-', '-', mo_, io))

    mark('raw_lua_and_data')
    # ---- 7. setEvent: merge of params and namelist (oracle: set_event_merge)
    evs = []
    nev = 3000 if c.tier == 'quick' else 30000
    small = [('I', 1), ('I', 2), ('S', b'x'), ('S', b'007'), ('T',), ('A', [('I', 1), ('I', 2)]), ('M', [(b'k', ('S', b'v'))])]
    for _ in range(nev):
        keys = [b'a', b'b', b'c', b'dd']
        pay = [(k, rng.choice(small)) for k in rng.sample(keys, rng.choice([0, 1, 2, 3]))]
        params = [(rng.choice(keys), rng.choice(small)) for _ in range(rng.choice([0, 1, 2, 3, 4]))]
        nl = [(k, rng.choice(small)) for k in rng.sample(keys, rng.choice([0, 0, 1, 2]))]
        kind = rng.random()
        if kind < 0.8:
            ptree = tree(('M', pay))
        elif kind < 0.9:
            ptree = tree(('S', b'atom payload'))
        else:
            ptree = tree(('A', [('I', 7), ('I', 8)]))
            pay = []
        if kind >= 0.8:
            pay = []
        evs.append((ptree, pay, params, nl))
    il4 = []
    for ptree, pay, params, nl in evs:
        pt = 'I[' + ''.join('I[]{%s=%s}' % (hx(k), tree(x)) for k, x in params) + ']{}'
        nt = tree(('M', nl))
        il4.append('lua-ev %s %s %s' % (ptree, pt, nt))
    impl4, cr4 = run_lines_sharded(vdriver, il4)
    model4, _ = run_lines_sharded(vmodel, [l.replace('lua-ev', 'ev ' + vr, 1) for l in il4])
    crashes += [(('ev', il4[min(i, len(il4) - 1)]), rcx, ex_) for i, rcx, ex_ in cr4]
    for (ptree, pay, params, nl), io, mo_, line in zip(evs, impl4, model4, il4):
        evaluations += 1
        bump('set_event')
        if norm(io) != norm(mo_):
            disagreements.append(('ev', line, '-', '-', mo_, io))
        merged = merge_spec(pay, params, nl)
        if merged:
            want = tree(('M', list(merged.items())))
            if io != want:
                oracle_fail.append(('event-merge', line, 'setEvent', '_event.data', want, io))
            if params or nl:
                bump('set_event_with_merge')

    # ---- 8. system variables
    below = ['_event.name', '_event.data', '_event.type', '_event["name"]', '_ioprocessors.scxml', '_ioprocessors["x"]', '_invokers.x',
             '_name ', ' _name', '_sessionid ', '_event\t', '_G._name', '_G["_sessionid"]', '_ENV._event', '(_name)', '_name,vd_dummy']
    modes = ['api-assign', 'api-init', 'chart-assign', 'chart-data']
    il5 = []
    meta5 = []
    for n in SYSVARS:
        for md in modes:
            il5.append('lua-protect %s %s' % (md, hx(n.encode())))
            meta5.append((md, n, 'exact'))
    for n in below:
        for md in ('api-assign', 'chart-assign'):
            il5.append('lua-protect %s %s' % (md, hx(n.encode())))
            meta5.append((md, n, 'below'))
    for n in ['foo', 'vd_x', '_x', 'event']:
        for md in modes:
            il5.append('lua-protect %s %s' % (md, hx(n.encode())))
            meta5.append((md, n, 'control'))
    impl5, cr5 = run_lines_sharded(vdriver, il5, shards=4)
    model5, _ = run_lines(vmodel, [l.replace('lua-protect', 'protect', 1) for l in il5])[1:3]
    crashes += [(('protect', il5[min(i, len(il5) - 1)]), rcx, ex_) for i, rcx, ex_ in cr5]
    prot_rows = []
    for (md, n, kind), io, mo_ in zip(meta5, impl5, model5):
        evaluations += 1
        bump('protect_' + kind)
        a = kv(io)
        b = kv(mo_)
        prot_rows.append({'mode': md, 'location': n, 'kind': kind, 'impl': io, 'model': mo_})
        if kind == 'control':
            if a['error'] != '0':
                disagreements.append(('protect', n, md, '-', 'error=0', io))
            continue
        # correspondence: the guard fires exactly where the model says, and the model's own store
        # changes (init clearing the variable) are the implementation's
        if kind == 'exact' and (a['error'] != b['guard'] or a['changed'] != b['changed']):
            disagreements.append(('protect', n, md, '-', mo_, io))
        if kind == 'below' and b['guard'] == '1' and a['error'] != '1':
            disagreements.append(('protect', n, md, '-', mo_, io))
        # oracle: the attempt raises error.execution and leaves the system variables unchanged
        if kind == 'below' and b['guard'] == '1' and a['changed'] != '-':
            disagreements.append(('protect', n, md, '-', mo_, io))
        if a['error'] != '1' or a['changed'] != '-':
            if kind == 'exact':
                cls = 'sysvar-cleared-by-init' if md in ('api-init', 'chart-data') else 'sysvar-assigned'
            elif n.strip().startswith(('_G', '_ENV', '(')):
                cls = 'sysvar-alias-through-environment-table'
            else:
                cls = 'sysvar-member-or-padded-name'
            oracle_fail.append((cls, n, md, 'system variables', 'error=1 changed=-', io))
    c.notes['protect_rows'] = prot_rows[:20]

    # ---- 9. the number oracle stand-in against the implementation
    numtexts = sorted(set(I_ATOMS + [f.encode() for f in R_FLOATS] + [b'%d' % i for i in R_INTS] + [b'1.5.2-3', b'-1.5', b'.5', b'-.', b'12.', b'0.1.']))
    numtexts = [t for t in numtexts if t and re.match(rb'^[-.0-9]+$', t)]
    rc, n1, _ = run_lines(vdriver, ['lua-num ' + hx(t) for t in numtexts])
    rc, n2, _ = run_lines(vmodel, ['num %s %s' % (vr, hx(t)) for t in numtexts])
    num_dis = [(t.decode(), a, b) for t, a, b in zip(numtexts, n1, n2) if a != b]
    c.notes['number_standin_probes'] = len(numtexts)
    for t, a, b in num_dis[:3]:
        disagreements.append(('num', t, '-', '-', b, a))

    mark('events_protect_numbers')
    # ---- coverage
    c.cov['evaluations'] = evaluations
    c.cov['distinct_nontrivial'] = len(nontriv)
    c.cov['rule'] = ('value-level: corpus (%d) + all values of depth <= 2 over 12 atoms and 4 key shapes (%d) + %d seeded random values of depth <= 5, '
                     'each through 6 ways in (event payload, <param>, namelist, <assign>, <data>, DataModel::assign) x 5 ways out '
                     '(evalAsData of the variable, params of the sent event, _event.data on delivery, params of done.state, _event.data of done.state) '
                     'by a generated SCXML chart run in the interpreter; + %d raw Lua tables (evalAsData, assign, evalAsData), %d raw Data trees '
                     '(assign / event payload), %d setEvent merges, %d system-variable probes; every output is one evaluation; '
                     'non-trivial = distinct unambiguous value containing a table') % (ncorpus, len(ex), nrand, len(raws), len(trees), len(evs), len(il5))
    c.cov['exhaustive'] = True
    c.cov['input_distribution'] = hist
    c.cov['samples'] = [{'value': syntax(values[i]), 'literal': literal(values[i]), 'impl_param': impl[i * 6 + 1], 'model': model[i][:300]}
                        for i in (ncorpus + 700, ncorpus + 1500, len(values) - 1) if i < len(values)]
    c.cov['disagreements'] = len(disagreements)
    c.cov['oracle_failures'] = len(oracle_fail)

    # ---- classify
    for cr in crashes:
        at = cr[0] if isinstance(cr[0], tuple) else ('rt', il[min(cr[0], len(il) - 1)])
        c.violation({'kind': 'crash', 'at_case': at[1], 'rc': cr[1], 'stderr': cr[2],
                     'replay_cmd': "echo '%s' | %s" % (at[1], vd_cmd)})

    def size_key(x):
        v = x[1]
        s = syntax(v) if isinstance(v, tuple) else str(v)
        # chart-level probes before the C++-interface ones
        return (len(s), s, str(x[2]).replace('chart-', '0chart-'), str(x[3]))
    per_class = {}
    for f in oracle_fail:
        per_class.setdefault(f[0], []).append(f)
    c.notes['oracle_failures_by_class'] = {k: len(v) for k, v in per_class.items()}
    for cls, fs in sorted(per_class.items()):
        fs.sort(key=size_key)
        f0 = fs[0]
        case = {'class': cls}
        kf = c.match_known(case)
        if kf:
            c.known(kf['id'], kf['what'])
            continue
        v = f0[1]
        if isinstance(v, tuple):
            lit = literal(v)
            w = f0[2]
            cmd = "echo 'lua-rt %s %s %s' | %s" % (w, tree(v) if w in ('payload', 'assigndata') else '-', hx(lit.encode()), vd_cmd)
            c.violation({'kind': 'oracle', 'class': cls, 'value': syntax(v), 'lua_literal': lit, 'data_tree': tree(v), 'way_in': f0[2], 'way_out': f0[3],
                         'expected_embed_v': f0[4], 'observed': f0[5], 'count_in_class': len(fs), 'replay_cmd': cmd})
        else:
            cmd = ("echo '%s' | %s" % (v, vd_cmd)) if str(v).startswith('lua-') else "echo 'lua-protect %s %s' | %s" % (f0[2], hx(str(v).encode()), vd_cmd)
            c.violation({'kind': 'oracle', 'class': cls, 'input': v, 'mode': f0[2], 'expected': f0[4], 'observed': f0[5],
                         'count_in_class': len(fs), 'replay_cmd': cmd})
    if disagreements:
        disagreements.sort(key=lambda x: (len(str(x[1])), str(x[1])))
        d0 = disagreements[0]
        v = d0[1]
        c.notes['first_disagreements'] = [str(x)[:400] for x in disagreements[:5]]
        if not oracle_fail or True:
            c.violation({'kind': 'correspondence', 'what': 'model LuaMarshal (variant %s) and the implementation differ' % json.dumps(vec),
                         'command': d0[0], 'input': syntax(v) if isinstance(v, tuple) else v, 'lua_literal': literal(v) if isinstance(v, tuple) else None,
                         'way_in': d0[2], 'way_out': d0[3], 'model': d0[4], 'observed': d0[5], 'count': len(disagreements)},
                        no_input=not any(f for f in oracle_fail))
    if not translator_ok:
        c.violation({'kind': 'translator', 'what': c.notes['translator_fallback']}, no_input=True)
    for b in broken:
        if oracle_fail:
            log('broken obligation %s (failing inputs reported above)' % b['name'])
        c.violation({'kind': 'obligation', 'theorem': b['name'], 'why': b.get('why', '')}, no_input=not oracle_fail)
    return c.finish()
