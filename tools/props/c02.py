"""C02 -- the active configuration is legal after every microstep (both engines)."""
from vlib import *
from chart_common import *
from chart_runs import *
from chart_eval import *


def run(c):
    broken = c.prove()
    vflags, notes = detect_vflags(c)
    c.notes['defect_switches'] = notes
    cases = build_cases(c)
    res = run_cases(c, cases, 'sem', vflags=vflags)
    vm = ensure_vmodel('chart')
    c.assumptions += ['legal_configb (Legal.v) is a faithful reading of SCXML 1.0 section 3.11 plus "the <scxml> root is active"',
                      'the generated charts pass the structural validity rules the generator enforces (legal multi-targets, <final> not below <parallel>)',
                      'remembered history is judged through the configurations later restored from it (serialize() is covered by C14)']
    lines, owners = [], []
    for eng in ('large', 'fast'):
        for i, case in enumerate(cases):
            if res[eng][i].startswith('CRASH'):
                continue
            cfgs = list(dict.fromkeys(configs_of(canon(res[eng][i])[0])))
            if not cfgs:
                continue
            lines.append('legal %d %s %s' % (1 if case['late'] else 0, G.sx_tree(case['tree']),
                                             ' '.join('(' + ' '.join(x for x in cf.split(',') if x) + ')' for cf in cfgs)))
            owners.append((eng, i, cfgs))
    out, _ = run_lines_sharded(vm, lines)
    # which of the generated charts are inside the reach of run_always_legal (wf_coreb and a compound root)?
    wfc, _ = run_lines_sharded(vm, ['wfcore %d %s' % (1 if x['late'] else 0, G.sx_tree(x['tree'])) for x in cases])
    c.cov['charts_in_reach_of_run_always_legal'] = sum(1 for b in wfc if b == '1')
    c.cov['charts_total'] = len(cases)
    # reach of the legality theorems beyond the core (extracted predicates): wf_initb (<initial>, deep initial attributes),
    # wf_histb (histories recording disjoint states; large engine), wf_fastb (fast engine), core_treeb (document level)
    reach = theorem_reach(c, cases, vflags, want=('reach',))
    c.cov['theorem_reach'] = {b: sum(1 for r in reach if r.get('reach', {}).get(b)) for b in REACH_BITS}
    nconf = 0
    distinct = set()
    bad = []      # (eng, i, cfg)
    rootbad = []
    for (eng, i, cfgs), bits in zip(owners, out):
        nconf += len(cfgs)
        for cf, b in zip(cfgs, bits):
            if len(cf.split(',')) > 2:
                distinct.add(hash((G.sx_tree(cases[i]['tree']), cf)))
            if b != '1':
                bad.append((eng, i, cf))
        toks = canon(res[eng][i])[0]
        if sum(1 for t in toks if t == 'E{:0') != 1 or any(t == 'X{:0' for t in toks):
            rootbad.append((eng, i))
    c.cov['evaluations'] = nconf
    c.cov['distinct_nontrivial'] = len(distinct)
    c.cov['rule'] = ('every configuration reported by getConfiguration() after every step() of the runs of C01 (corpus, exhaustive-small, random; '
                     'both engines) judged by the extracted legal_configb; non-trivial = distinct (chart, configuration) with more than two active states; '
                     'plus: the <scxml> element is entered exactly once and never exited')
    c.cov['samples'] = [{'engine': e, 'chart': G.to_scxml(cases[i]['tree'], cases[i]['dm'])[:300], 'configurations': cfgs[:6]} for (e, i, cfgs) in owners[len(owners) // 2:len(owners) // 2 + 2]]
    c.cov['illegal_configurations'] = len(bad)
    c.cov['root_violations'] = len(rootbad)
    for idx, ch in enumerate(vflags):
        if ch == '1' and idx in (1, 2):
            import witnesses as W
            name, tree, events = W.SWITCH_WITNESSES[idx]
            f = c.match_known({'switch': name})
            if f:
                c.known(f['id'], f['what'])
            else:
                c.violation(case_replay(c, {'tree': tree, 'events': events, 'dm': 'null', 'late': False, 'origin': 'witness:' + name},
                                        {'kind': 'defect-switch', 'switch': name}))
    seen = set()
    by_class = {}
    for eng, i, cf in bad:
        # an illegal configuration the engine's Coq model predicts, in a chart with overlapping histories
        follows_model = corr_equal(res[eng][i], res['model' if eng == 'large' else 'model_fast'][i])[0]
        cls = 'illegal-configuration'
        if follows_model and history_overlap(res['spec'][i]):
            cls = 'illegal-configuration:history-overlap'
        # inside the reach of run_always_legal_history / _fast the models cannot produce an illegal configuration at all
        if reach[i].get('reach', {}).get('wf_histpb'):   # run_always_legal_history_parallel(_fast): both engines
            cls += '+inside-run_always_legal_history'
        by_class.setdefault((eng, cls), []).append((i, cf))
    c.cov['illegal_by_class'] = {'%s/%s' % k: len(v) for k, v in by_class.items()}
    for (eng, cls), lst in sorted(by_class.items()):
        f = c.match_known({'class': cls})
        if f:
            c.known(f['id'], f['what'] + ' (%s engine, %d configurations this run)' % (eng, len(lst)))
            continue
        i, cf = sorted(lst, key=lambda b: (len(G.sx_tree(cases[b[0]]['tree'])), len(cases[b[0]]['events'])))[0]
        c.violation(case_replay(c, cases[i], {'kind': 'oracle', 'engine': eng, 'class': cls, 'illegal_configuration': cf,
                                              'count': len(lst), 'trace': res[eng][i][:1500]}))
    for eng, i in rootbad[:1]:
        c.violation(case_replay(c, cases[i], {'kind': 'oracle', 'engine': eng, 'what': 'the <scxml> root is not entered exactly once / is exited',
                                              'trace': res[eng][i][:1500]}))
    if broken and not bad and not rootbad:
        for b in broken:
            c.violation({'kind': 'obligation', 'theorem': b['name'], 'why': b.get('why', '')}, no_input=True)
    return c.finish()
