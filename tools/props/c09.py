"""C09 -- delayed events fire once, not early, in due order, unless cancelled.

   proof:           coq/props/Properties_C09.v (Delay.v: all schedules by invariant; DelayParse.v: the codec)
   correspondence:  (1) delay-string codec: model vs <send delay=".."> on the real path, oracle = delay_spec;
                    (2) schedule replay: the model's realisable schedules are forced on a real Interpreter
                        (vd_delay.cpp), outcome classes and observed histories compared, the property oracle
                        (delay_admissibleb + no fault + no deadlock) judges every observed run;
                    (3) free-running real-time runs judged by the same oracle (monotonic clock, tolerance stated).
"""
import itertools, json, os, subprocess, sys, threading, time
from concurrent.futures import ThreadPoolExecutor
from vlib import *

TICK_MS = 40            # one logical tick of the model in a forced run
WATCHDOG_MS = 900       # a forced run that makes no progress for this long is 'stuck'
# Timer granularity: libevent 2.1 reads CLOCK_MONOTONIC_COARSE unless the base is configured with
# EVENT_BASE_FLAG_PRECISE_TIMER (uscxml does not), so a timer's due time is computed from a clock that lags the
# real one by up to one kernel tick (clock_getres, 4 ms at HZ=250); +1 ms for the codec's whole milliseconds,
# +0.2 ms measurement slack.
try:
    COARSE_US = int(round(time.clock_getres(6) * 1e6))      # 6 = CLOCK_MONOTONIC_COARSE
except Exception:
    COARSE_US = 4000
TOL_US = COARSE_US + 1200   # never_early tolerance, microseconds
GRAN_US = COARSE_US + 1200  # due_order: due times closer than this are not ordered

# witnesses of the _refuted theorems (Properties_C09.v), program + schedule of the model
W_PROG = 'S:1:1:0:1,C:1'
W_UAF = 'IICTTIII'        # cancel_fire_race_uaf_witness
W_DEADLOCK = 'IICTII'     # cancel_fire_race_deadlock_witness
W_PROG_INT = 'S:1:1:1:1,C:1'
W_MISROUTE = 'IICTTIIITT'  # only meaningful for a tree with dv_cb_takes_entry


def vm(exe, lines):
    rc, out, err = run_lines(exe, lines)
    if rc != 0 or len(out) != len(lines):
        raise BuildError('model driver failed: rc=%s %s' % (rc, err[-500:]))
    return out


def kv(line):
    d = {}
    for t in line.split():
        if '=' in t:
            k, v = t.split('=', 1)
            d[k] = v
    return d


def replay_once(vdriver, prog, steps, tick=TICK_MS, watchdog=WATCHDOG_MS, env=None):
    cmd = 'delay_replay %d %s %s %d\n' % (tick, prog, steps, watchdog)
    try:
        p = subprocess.run([vdriver], input=cmd.encode(), stdout=subprocess.PIPE, stderr=subprocess.PIPE,
                           timeout=60, env=env)
        rc, out, err = p.returncode, p.stdout.decode('utf-8', 'replace'), p.stderr.decode('utf-8', 'replace')
    except subprocess.TimeoutExpired:
        return {'res': 'hang', 'fault': 'none', 'timing': 'ok', 'obs': '-', 'rc': -999, 'stderr': 'TIMEOUT'}
    ans = [l[2:] for l in out.split('\n') if l.startswith('@@')]
    r = kv(ans[0]) if ans else {'res': 'crash', 'fault': 'none', 'timing': 'ok', 'obs': '-'}
    r['rc'] = rc
    r['asan'] = ('AddressSanitizer' in err)
    r['asan_kind'] = 'heap-use-after-free' if 'heap-use-after-free' in err else ('double-free' if 'double-free' in err else '')
    r['stderr'] = err[-1500:]
    if not ans:
        r['res'] = 'crash'
    return r


def observed_class(r):
    if r['fault'] != 'none':
        return r['fault'].split(':')[0]          # uaf | dfree
    if r['res'] == 'stuck' or r['res'] == 'hang':
        return 'deadlock'
    if r['res'] == 'crash':
        return 'crash'
    if r['res'].startswith('fail'):
        return r['res']
    return 'done'


def model_class(cls):
    return cls.split(':')[0]                      # done | deadlock | uaf | dfree | running


def counts(trace):
    """uuid -> number of deliveries"""
    d = {}
    if trace == '-':
        return d
    for o in trace.split(','):
        f = o.split(':')
        if f[0] == 'd':
            d[f[1]] = d.get(f[1], 0) + 1
    return d


def routes(trace):
    d = {}
    if trace == '-':
        return d
    for o in trace.split(','):
        f = o.split(':')
        if f[0] == 'd':
            d[f[1]] = f[3]
    return d


def with_tolerance(trace, tol):
    """the oracle sees deliveries `tol` later (never_early is claimed to within the timer granularity)"""
    if trace == '-':
        return trace
    out = []
    for o in trace.split(','):
        f = o.split(':')
        if f[0] == 'd':
            f[2] = str(int(f[2]) + tol)
        out.append(':'.join(f))
    return ','.join(out)


# ---------------------------------------------------------------- codec

def codec_cases(c, corpus):
    cases = [bytes.fromhex(h) for h in corpus['codec']]
    ncorpus = len(cases)
    alpha = b'019.ms e'
    maxlen = 4 if c.tier == 'quick' else 5
    for l in range(1, maxlen + 1):
        for t in itertools.product(alpha, repeat=l):
            cases.append(bytes(t))
    nex = len(cases) - ncorpus
    rng = c.rng
    nrand = 3000 if c.tier == 'quick' else 30000
    units = [b's', b'ms', b'', b'S', b'MS', b'Ms', b' s', b' ms', b'sec', b'm', b's ', b'\tms', b'min']
    for _ in range(nrand):
        r = rng.random()
        ip = str(rng.choice([0, 1, 2, 5, 9, 10, 42, 99, 100, 250, 999, 1000, 4294967, 4294968, 4294967295, 4294967296,
                             rng.randint(0, 10 ** rng.randint(1, 12))])).encode()
        if r < 0.45:
            num = ip
        elif r < 0.85:
            num = ip + b'.' + b''.join(rng.choice(b'0123456789').to_bytes(1, 'big') for _ in range(rng.randint(1, rng.choice([1, 2, 3, 3, 3, 4, 6, 9]))))
        elif r < 0.9:
            num = b'.' + str(rng.randint(0, 9999)).encode()
        elif r < 0.95:
            num = ip + rng.choice([b'e', b'E']) + rng.choice([b'', b'+', b'-']) + str(rng.randint(0, 12)).encode()
        else:
            num = ip + rng.choice([b'.', b'..5', b'x1', b' 5', b'-1'])
        pre = rng.choice([b'', b'', b'', b'', b' ', b'+', b'-', b'x'])
        cases.append(pre + num + rng.choice(units))
    # bytes that cannot be written into an XML attribute / are normalised away by the parser are not sent through the chart
    ok = []
    for s in cases:
        if all((32 <= ch < 127) or ch == 9 for ch in s) and len(s) > 0:
            ok.append(s)
    seen = set()
    out = []
    for s in ok:
        if s not in seen:
            seen.add(s)
            out.append(s)
    return out, ncorpus, nex, nrand


def check_codec(c, vdriver, vmodel, corpus):
    cases, ncorpus, nex, nrand = codec_cases(c, corpus)
    # XML attribute value normalisation turns a literal tab into a space: the chart carries it as &#9; (kept verbatim)
    impl, crashes = run_lines_sharded(vdriver, ['delay_parse %s' % hexs(s) for s in cases])
    # which codec variant is the implementation?  "4294968s" tells the width of delayMs; texts without a digit tell
    # whether strTo initialises its result (an uninitialised read may show any value, 0 included: all three must be 0)
    wit = run_lines(vdriver, ['delay_parse %s' % hexs(w) for w in (b'4294968s', b'abc', b' ', b's')])[1]
    wide = 1 if kv(wit[0]).get('ms') == '4294968000' else 0
    init = 1 if all(kv(w).get('ms') == '0' for w in wit[1:]) else 0
    dv = '%d%d' % (wide, init)
    model = run_lines_sharded(vmodel, ['parse %s %s' % (dv, hexs(s)) for s in cases])[0]
    dis, fails = [], []
    hist = {'spec_defined': 0, 'unit_s': 0, 'unit_ms': 0, 'unitless': 0, 'fraction': 0, 'impl_zero': 0, 'model_ub': 0}
    nontriv = 0
    for s, mo, io in zip(cases, model, impl):
        m, i = kv(mo), kv(io)
        if 'ms' not in i:
            dis.append((s, mo, io))
            continue
        if m['spec'] != 'none':
            hist['spec_defined'] += 1
            nontriv += 1
            if s.lower().endswith(b'ms'): hist['unit_ms'] += 1
            elif s.lower().endswith(b's'): hist['unit_s'] += 1
            else: hist['unitless'] += 1
            if b'.' in s: hist['fraction'] += 1
        if i['ms'] == '0': hist['impl_zero'] += 1
        if m['impl'] in ('ub', 'uninit'):
            hist['model_ub'] += 1        # undefined behaviour (out-of-range conversion, uninitialised read): any observed value agrees
        elif m['impl'] != i['ms'] or m['value'] != i['value'] or m['unit'] != i['unit']:
            dis.append((s, mo, io))
        if m['spec'] != 'none':
            spec, got = int(m['spec']), int(i['ms'])
            # oracle: the whole milliseconds of the delay, to within the timer granularity of 1 ms
            if not (spec - 1 <= got <= spec):
                fails.append((s, spec, got))
    return {'variant': {'dpv_wide': wide, 'dpv_init': init}, 'cases': len(cases), 'corpus': ncorpus, 'exhaustive': nex, 'random': nrand, 'hist': hist,
            'nontrivial': nontriv, 'disagreements': dis, 'oracle_failures': fails, 'crashes': crashes,
            'samples': [(cases[k].decode('latin-1'), model[k], impl[k]) for k in (0, 1, min(len(cases) - 1, 5000), len(cases) - 1)]}


# ---------------------------------------------------------------- schedule replay

def detect_variant(vdriver, vmodel):
    """which protocol variant is the implementation?  (witness schedules distinguish the switches)"""
    notes = {}
    # does the tree have the point interp.enqueue.armed?
    r = replay(vdriver, 'S:1:1:0:1', 'Is0:a,Isa:d')
    hook = r.get('hook') == '1'
    notes['enqueue_armed_hook'] = hook
    # InterpreterImpl::enqueue: is the target recorded before the timer can fire?  The delayed queue keeps its caller
    # for 60 ms after arming a 10 ms timer: as it is, the callback waits for _delayMutex and delivers afterwards
    p = 'Z:60,S:1:1:0:%s:10' % hexs(b'10ms')
    armsfirst = 1
    for _ in range(3):      # the switch is taken for on only if the event is lost every time
        q = subprocess.run([vdriver], input=('delay_rt %d %s\n' % (TOL_US, p)).encode(), stdout=subprocess.PIPE, stderr=subprocess.PIPE, timeout=60)
        ans = [l[2:] for l in q.stdout.decode('utf-8', 'replace').split('\n') if l.startswith('@@')]
        rr = kv(ans[0]) if ans else {'res': 'crash', 'obs': '-'}
        notes['arms_first_probe'] = {k: rr.get(k) for k in ('res', 'fault', 'obs')}
        if not (rr.get('res') == 'ok' and not counts(rr.get('obs', '-'))):
            armsfirst = 0
            break
    o = vm(vmodel, ['simc 000 %s %s' % (W_PROG, W_UAF), 'simc 000 %s %s' % (W_PROG, W_DEADLOCK)])
    s_uaf, s_dl = kv(o[0])['steps'], kv(o[1])['steps']
    r = replay(vdriver, W_PROG, s_uaf)
    notes['uaf_witness'] = {k: r[k] for k in ('res', 'fault', 'timing', 'obs')}
    takes = 0 if observed_class(r) in ('uaf', 'dfree') else 1
    r = replay(vdriver, W_PROG, s_dl)
    notes['deadlock_witness'] = {k: r[k] for k in ('res', 'fault', 'timing', 'obs')}
    noblock = 0 if observed_class(r) == 'deadlock' else 1
    checks = 0
    if takes:
        # cancel between section 1 and eventReady, event addressed to #_internal: pinned eventReady would re-create
        # the erased target entry and deliver the event to the external queue
        o = vm(vmodel, ['simc 1%d%d0 %s %s' % (1, noblock, W_PROG_INT, W_MISROUTE)])
        r = replay(vdriver, W_PROG_INT, kv(o[0])['steps'])
        notes['misroute_witness'] = {k: r[k] for k in ('res', 'fault', 'timing', 'obs')}
        checks = 0 if counts(r['obs']) else 1
    return '%d%d%d%d' % (takes, checks, noblock, armsfirst), notes


def run(c):
    broken = c.prove()
    vdriver = ensure_vdriver('hooks', units=['vd_delay'])
    vmodel = ensure_vmodel('delay')
    corpus = json.load(open(os.path.join(ROOT, 'corpus', 'c09.json')))
    c.assumptions += [
        'libevent runs expired timers in due order (pick_sound) and event_del from another thread waits for that '
        'event\'s running callback; event_free inside the callback is legal (Delay.v, explicit rules)',
        'std::recursive_mutex; UUIDs of different sends differ (wf_prog)',
        'the unit of interleaving is the code between two USCXML_VERIF_POINTs; memory-model effects below that are not modelled',
        'never_early is checked against std::chrono::steady_clock with a tolerance of %d us = resolution of CLOCK_MONOTONIC_COARSE (%d us, the clock libevent 2.1 uses for timers by default) + 1 ms (whole milliseconds of the codec) + 0.2 ms; no upper bound on lateness is asserted' % (TOL_US, COARSE_US),
        'delay strings: "C" locale, glibc strtod correctly rounded, x86-64 double->uint32 conversion only for values that fit',
    ]
    c.cov['trusted_base'] += ['harness/vd_delay.cpp: director, interposed event_new/event_free/event_del (live-set of timer objects)',
                              'extract/delay/driver.ml: schedule enumerator (eager expiry, enabled steps only)']

    # ---- 1. codec
    cod = check_codec(c, vdriver, vmodel, corpus)

    # ---- 2. schedule replay
    variant, vnotes = detect_variant(vdriver, vmodel)
    hook = vnotes.get('enqueue_armed_hook', False)
    c.notes['defect_vector'] = {'dv_cb_takes_entry': variant[0], 'dv_ready_checks': variant[1], 'dv_cancel_noblock': variant[2],
                                'dv_enqueue_arms_first': variant[3],
                                'witness_runs': vnotes, 'codec': cod['variant']}
    maxsw = 4 if c.tier == 'quick' else 6
    cap = 400 if c.tier == 'quick' else 3000
    jobs = []   # (prog, sched, mclass, steps, mtrace)
    prio = []   # schedules that are never sampled away: small programs and the programs with repeated sendids
    per_prog = 40 if c.tier == 'quick' else 400
    for ent in corpus['programs']:
        sw = min(maxsw, ent.get('max_switches', maxsw))
        atomic = ' atomic' if ent.get('atomic_cancel') else ''
        if ent.get('park_send'):
            if not hook:
                c.notes.setdefault('skipped_no_hook', []).append(ent['prog'])
                continue
            atomic += ' park'
        line = vm(vmodel, ['enum %s %s %d %d%s' % (variant, ent['prog'], sw, 100000 if atomic else cap, atomic)])[0]
        mine = []
        for item in line.split(';'):
            if not item:
                continue
            sched, mclass, steps, mtrace = item.split('|')
            mine.append((ent['prog'], sched, mclass, steps, mtrace))
        if atomic or len(mine) <= 12:
            prio += mine if len(mine) <= per_prog else c.rng.sample(mine, per_prog)
        else:
            jobs += mine
    # corpus schedules (witnesses of the _refuted theorems and earlier disagreements) first
    wj = []
    for w in corpus['schedules']:
        if w.get('needs_hook') and not hook:
            c.notes.setdefault('skipped_no_hook', []).append(w['prog'] + ' ' + w['sched'])
            continue
        o = kv(vm(vmodel, ['simc %s %s %s%s' % (variant, w['prog'], w['sched'], ' park' if w.get('needs_hook') else '')])[0])
        wj.append((w['prog'], o['sched'], o['class'], o['steps'], o['trace']))
    if c.tier == 'quick' and len(jobs) > 500:
        jobs = c.rng.sample(jobs, 500)
    jobs = wj + prio + jobs

    def work(j):
        return replay(vdriver, j[0], j[3])
    with ThreadPoolExecutor(max_workers=12) as ex:
        results = list(ex.map(work, jobs))

    # the property oracle on the observed histories (model driver: delay_admissibleb)
    olines = ['oracle %d %s' % (GRAN_US, with_tolerance(r.get('obs', '-'), TOL_US)) for r in results]
    overdict = [kv(x) for x in run_lines_sharded(vmodel, olines)[0]]
    # a finished run has delivered every event whose sendid the program never cancels (complete_b)
    compl = run_lines_sharded(vmodel, ['complete %s %s' % (j[0], r.get('obs', '-')) for j, r in zip(jobs, results)])[0]

    disagreements, ofails = [], []
    hist = {'done': 0, 'deadlock': 0, 'uaf': 0, 'dfree': 0, 'timing_invalid': 0, 'window': 0}
    nontriv = set()
    for j, r, ov, cp in zip(jobs, results, overdict, compl):
        prog, sched, mclass, steps, mtrace = j
        if r.get('timing', 'ok') != 'ok':
            hist['timing_invalid'] += 1
            continue
        oc, mc = observed_class(r), model_class(mclass)
        hist[mc] = hist.get(mc, 0) + 1
        # non-trivial: a cancel step or a second timer's send falls inside a callback window
        toks = steps.split(',')
        inwin = False
        cb = False
        for t in toks:
            if t.startswith('Te'): cb = True
            elif t.startswith('Tdl') or (t.startswith('Tce') and t.endswith(':r')): cb = False
            elif cb and t[0] == 'I' and t != 'I-': inwin = True
        if inwin:
            hist['window'] += 1
            nontriv.add((prog, sched))
        agree = (oc == mc) and r.get('dev', '-') == '-'     # dev: the code left the path of the model's steps
        if agree and mc == 'done':
            agree = counts(r['obs']) == counts(mtrace) and routes(r['obs']) == routes(mtrace)
        if not agree:
            disagreements.append({'prog': prog, 'sched': sched, 'steps': steps, 'model': mclass, 'model_trace': mtrace,
                                  'observed': oc, 'observed_obs': r.get('obs'), 'res': r.get('res'), 'stderr': r.get('stderr', '')[-400:]})
        # property oracle on the implementation's behaviour
        bad = None
        if oc in ('uaf', 'dfree'):
            bad = ('use-after-free', 'event_del/event_free on a freed libevent timer (%s)' % r['fault'])
        elif oc == 'deadlock':
            bad = ('deadlock', 'no thread makes progress (watchdog %d ms)' % WATCHDOG_MS)
        elif oc == 'crash':
            bad = ('crash', 'the process died: rc=%s %s' % (r.get('rc'), r.get('stderr', '')[-300:]))
        elif oc == 'done' and ov.get('adm') != '1':
            which = [k for k in ('once', 'notearly', 'order', 'cancel') if ov.get(k) == '0']
            bad = ('history:' + '+'.join(which), 'delay_admissibleb rejects the observed history')
        elif oc == 'done' and ov.get('routed') != '1':
            bad = ('misrouted', 'an event was delivered to another target than the one it was sent to')
        elif oc == 'done' and r.get('res') == 'ok' and cp != '1':
            bad = ('history:undelivered', 'the run is finished (all operations returned, no timer left) and an event whose sendid was never cancelled has not been delivered (complete_b)')
        if bad:
            # a failure is one of the recorded kind only if the model of the code as it is predicts it on this very
            # schedule; the same symptom on a schedule on which the model runs to completion is a different defect
            if not agree:
                bad = (bad[0] + '+model-disagrees', bad[1] + '; Delay.v (variant of the current code) predicts ' + mc + ' on this schedule')
            ofails.append({'class': bad[0], 'what': bad[1], 'prog': prog, 'sched': sched, 'steps': steps,
                           'observed': {k: r.get(k) for k in ('res', 'fault', 'dev', 'hook', 'obs')}, 'model_predicts': mclass})

    # ---- 3. real-time runs
    nrt = 24 if c.tier == 'quick' else 200
    rtjobs = []
    rng = c.rng
    # programs with sendids shared by several delayed sends: a cancel that returns well before the due times must
    # leave no event of that sendid (oracle cancel_ok_b), the others fire; the cancel is placed at least 15 ms away
    # from every due time (the timer granularity must not decide whether it was in time)
    nshared = 12 if c.tier == 'quick' else 80
    for k in range(nshared):
        n = rng.randint(3, 5)
        sids = [7] * rng.randint(2, 3) + [8, 9]
        rng.shuffle(sids)
        n = min(n, len(sids))
        sids = sids[:n]
        if sids.count(7) < 2:
            sids[0] = sids[1] = 7
        tcancel = rng.choice([0, 0, 30, 60, 90])
        ops, dues = [], []
        for u in range(1, n + 1):
            ms = rng.choice([d for d in range(45, 200, 5) if abs(d - tcancel) >= 15 and all(abs(d - x) >= 8 for x in dues)])
            dues.append(ms)
            text = rng.choice(['%dms' % ms, '%d' % ms, ('%.3f' % (ms / 1000.0)) + 's'])
            ops.append('S:%d:%d:%d:%s:%d' % (u, sids[u - 1], rng.choice([0, 0, 1]), hexs(text.encode()), ms))
        if tcancel:
            ops.append('W:%d' % tcancel)
        ops.append('C:7')
        if rng.random() < 0.5:
            ops.append('S:%d:7:0:%s:%d' % (n + 1, hexs(b'20ms'), 20))     # the sendid can be used again
        rtjobs.append(','.join(ops))
    # very short delays while InterpreterImpl::enqueue is kept between arming the timer and returning (the delayed
    # queue of the harness sleeps after arming): the timer fires inside enqueue; nothing is cancelled, so every event
    # must be delivered (complete_b)
    nshort = 8 if c.tier == 'quick' else 40
    for k in range(nshort):
        ops = ['Z:%d' % rng.randint(25, 45)]
        n = rng.randint(1, 3)
        for u in range(1, n + 1):
            ms = rng.randint(3, 9)
            ops.append('S:%d:%d:%d:%s:%d' % (u, u, rng.choice([0, 0, 1]), hexs(('%dms' % ms).encode()), ms))
        ops.append('Z:0')
        if rng.random() < 0.5:
            ops.append('S:%d:%d:0:%s:%d' % (n + 1, n + 1, hexs(b'30ms'), 30))
        rtjobs.append(','.join(ops))
    for k in range(nrt):
        n = rng.randint(1, 4)
        ops = []
        for u in range(1, n + 1):
            ms = rng.randint(5, 200)
            form = rng.choice(['ms', 's', 'none', 'sfrac'])
            if form == 'ms': text = '%dms' % ms
            elif form == 'none': text = '%d' % ms
            elif form == 's': text = ('%.3f' % (ms / 1000.0)) + 's'
            else: text = ('%.3f' % (ms / 1000.0)).rstrip('0') + 's'
            ops.append('S:%d:%d:%d:%s:%d' % (u, u, rng.choice([0, 0, 1]), hexs(text.encode()), ms))
            if rng.random() < 0.3:
                ops.append('W:%d' % rng.randint(1, 30))
        if rng.random() < 0.5:
            ops.append('W:%d' % rng.randint(0, 3))
            ops.append('C:%d' % rng.randint(1, n))
        rtjobs.append(','.join(ops))

    def rtwork(p):
        cmd = 'delay_rt %d %s\n' % (TOL_US, p)
        try:
            q = subprocess.run([vdriver], input=cmd.encode(), stdout=subprocess.PIPE, stderr=subprocess.PIPE, timeout=60)
            ans = [l[2:] for l in q.stdout.decode('utf-8', 'replace').split('\n') if l.startswith('@@')]
            return kv(ans[0]) if ans else {'res': 'crash', 'fault': 'none', 'obs': '-', 'stderr': q.stderr.decode('utf-8', 'replace')[-500:]}
        except subprocess.TimeoutExpired:
            return {'res': 'hang', 'fault': 'none', 'obs': '-'}
    with ThreadPoolExecutor(max_workers=8) as ex:
        rtres = list(ex.map(rtwork, rtjobs))
    rto = [kv(x) for x in run_lines_sharded(vmodel, ['oracle %d %s' % (GRAN_US, with_tolerance(r.get('obs', '-'), TOL_US)) for r in rtres])[0]]
    def model_prog(p):
        # the program in the model driver's syntax (delays do not matter for complete_b)
        out = []
        for it in p.split(','):
            f = it.split(':')
            if f[0] == 'S': out.append('S:%s:%s:%s:1' % (f[1], f[2], f[3]))
            elif f[0] in ('C', 'A'): out.append(it)
        return ','.join(out)
    rtc = run_lines_sharded(vmodel, ['complete %s %s' % (model_prog(p), r.get('obs', '-')) for p, r in zip(rtjobs, rtres)])[0]
    rt_early_margin = None
    for p, r, ov, cp in zip(rtjobs, rtres, rto, rtc):
        if r['res'] == 'ok' and r['fault'] == 'none' and ov.get('adm') == '1' and cp != '1':
            ov = dict(ov, adm='0', undelivered='0')
        if r['res'] != 'ok' or r['fault'] != 'none' or ov.get('adm') != '1':
            which = [k for k in ('once', 'notearly', 'order', 'cancel', 'undelivered') if ov.get(k) == '0']
            ofails.append({'class': 'realtime:' + (r['res'] if r['res'] != 'ok' else '+'.join(which)), 'what': 'free-running run rejected',
                           'prog': p, 'sched': '-', 'steps': '-', 'observed': r, 'model_predicts': 'admissible history',
                           'replay_cmd': "echo 'delay_rt %d %s' | %s" % (TOL_US, p, vdriver)})
        # smallest (delivery - enqueue - delay) seen
        sends = {}
        for o in r.get('obs', '-').split(','):
            f = o.split(':')
            if f[0] == 's': sends[f[1]] = (int(f[4]), int(f[5]))
            if f[0] == 'd' and f[1] in sends:
                m = int(f[2]) - sends[f[1]][0] - sends[f[1]][1]
                rt_early_margin = m if rt_early_margin is None else min(rt_early_margin, m)

    # ---- thorough: the use-after-free class again under AddressSanitizer
    asan_note = None
    if c.tier == 'thorough':
        try:
            va = ensure_vdriver('asan', units=['vd_delay'])
            env = dict(os.environ, ASAN_OPTIONS='detect_leaks=0:abort_on_error=0', UBSAN_OPTIONS='print_stacktrace=1')
            uj = [j for j in jobs if model_class(j[2]) in ('uaf', 'dfree')][:40] or jobs[:10]
            with ThreadPoolExecutor(max_workers=8) as ex:
                ar = list(ex.map(lambda j: replay(va, j[0], j[3], env=env), uj))
            asan_note = {'runs': len(ar), 'asan_reports': sum(1 for r in ar if r['asan']),
                         'heap_use_after_free': sum(1 for r in ar if r['asan_kind'] == 'heap-use-after-free')}
            for j, r in zip(uj, ar):
                if model_class(j[2]) in ('uaf', 'dfree') and not (r['asan'] or r['fault'] != 'none'):
                    disagreements.append({'prog': j[0], 'sched': j[1], 'steps': j[3], 'model': j[2], 'observed': 'no sanitizer report', 'flavour': 'asan'})
                if model_class(j[2]) == 'done' and r['asan']:
                    ofails.append({'class': 'asan', 'what': 'AddressSanitizer report', 'prog': j[0], 'sched': j[1], 'steps': j[3],
                                   'observed': {'stderr': r['stderr']}, 'model_predicts': j[2]})
        except BuildError as e:
            asan_note = {'error': str(e)[-400:]}
    c.notes['asan'] = asan_note

    # ---- coverage
    c.cov['evaluations'] = cod['cases'] + len(jobs) + len(rtjobs)
    c.cov['distinct_nontrivial'] = len(nontriv) + cod['nontrivial']
    c.cov['rule'] = ('schedule replay: %d forced schedules (corpus witnesses + all realisable complete schedules of the model with <= %d '
                     'context switches over %d programs of <= 5 sends/cancels, among them programs with 2-3 delayed sends under one sendid (cancel enumerated as an uninterrupted run, at every logical time); variant %s determined from the witnesses), non-trivial = '
                     'an interpreter step (cancel or send) falls inside a timer-callback window (%d); codec: %d delay strings '
                     '(corpus %d, exhaustive over {0,1,9,.,m,s,space,e} up to length %d: %d, random %d), non-trivial = string in the '
                     'CSS2 time grammar (%d); %d free-running real-time runs (%d of them with shared sendids and a cancel, %d with 3-9 ms delays fired inside enqueue)') % (
        len(jobs), maxsw, len(corpus['programs']), variant, len(nontriv), cod['cases'], cod['corpus'],
        4 if c.tier == 'quick' else 5, cod['exhaustive'], cod['random'], cod['nontrivial'], len(rtjobs), nshared, nshort)
    c.cov['input_distribution'] = {'replay_model_classes': hist, 'codec': cod['hist'],
                                   'realtime_min_margin_us': rt_early_margin}
    c.cov['samples'] = [{'prog': j[0], 'sched': j[1], 'model': j[2], 'observed': observed_class(r), 'obs': r.get('obs')}
                        for j, r in list(zip(jobs, results))[:3] + list(zip(jobs, results))[-2:]] + \
                       [{'delay': s, 'model': m, 'impl': i} for s, m, i in cod['samples']]
    c.cov['disagreements'] = len(disagreements) + len(cod['disagreements'])
    c.cov['oracle_failures'] = len(ofails) + len(cod['oracle_failures'])

    # ---- classify and report
    for cr in cod['crashes']:
        c.violation({'kind': 'crash', 'where': 'delay_parse', 'rc': cr[1], 'stderr': cr[2]})
    seen = set()
    for s, spec, got in sorted(cod['oracle_failures'], key=lambda x: (len(x[0]), x[0])):
        cls = 'delay-exceeds-uint32' if spec > 4294967295 else ('delay-text:' + ('s' if s.lower().rstrip().endswith(b's') and not s.lower().rstrip().endswith(b'ms') else 'ms'))
        f = c.match_known({'class': cls})
        if f:
            c.known(f['id'], f['what'])
            continue
        if cls in seen:
            continue
        seen.add(cls)
        c.violation({'kind': 'oracle', 'class': cls, 'delay_text': s.decode('latin-1'), 'delay_hex': hexs(s),
                     'expected_ms_by_delay_spec': spec, 'observed_delayMs': got,
                     'replay_cmd': "echo 'delay_parse %s' | %s" % (hexs(s), vdriver)})
    for f0 in sorted(ofails, key=lambda x: (len(x['steps']), x['steps'])):
        cls = f0['class']
        f = c.match_known({'class': cls})
        if f:
            c.known(f['id'], f['what'])
            continue
        if cls in seen:
            continue
        seen.add(cls)
        c.violation({'kind': 'oracle', 'class': cls, 'what': f0['what'], 'program': f0['prog'], 'schedule': f0['sched'],
                     'forcing_steps': f0['steps'], 'expected': 'delivered at most once and not early, or cancelled; never a crash, deadlock or use of freed memory',
                     'observed': f0['observed'], 'model_predicts': f0['model_predicts'],
                     'replay_cmd': f0.get('replay_cmd') or "echo 'delay_replay %d %s %s %d' | %s" % (TICK_MS, f0['prog'], f0['steps'], WATCHDOG_MS, vdriver)})
    if not ofails and not cod['oracle_failures']:
        alld = disagreements + [{'delay': s.decode('latin-1'), 'model': m, 'impl': i} for s, m, i in cod['disagreements']]
        if alld:
            d0 = alld[0]
            d0['count'] = len(alld)
            d0['kind'] = 'correspondence'
            d0['what'] = 'model (variant %s) and implementation disagree; the property oracle accepts every observed behaviour' % variant
            c.violation(d0, no_input=True)
        for b in broken:
            c.violation({'kind': 'obligation', 'theorem': b['name'], 'why': b.get('why', '')}, no_input=True)
    else:
        for b in broken:
            log('broken obligation %s (failing input reported above)' % b['name'])
        if disagreements or cod['disagreements']:
            c.notes['disagreements'] = (disagreements + [{'delay': s.decode('latin-1'), 'model': m, 'impl': i} for s, m, i in cod['disagreements']])[:10]
    return c.finish()


def replay(path_or_vdriver, *a, **kw):
    """two uses: replay(vdriver, prog, steps, ...) inside the check; replay(path) from `vcheck C09 --replay`"""
    if not a:
        r = json.load(open(path_or_vdriver))
        print(json.dumps(r, indent=1))
        cmd = r.get('replay_cmd')
        if cmd:
            ensure_vdriver('hooks', units=['vd_delay'])
            rc, out = sh(cmd)
            print('\n'.join(l for l in out.split('\n') if l.startswith('@@')))
        return 0
    vdriver, prog, steps = path_or_vdriver, a[0], a[1]
    tries = kw.pop('tries', 4)
    r = None
    for _ in range(tries):
        r = replay_once(vdriver, prog, steps, **kw)
        # a run whose timing did not realise the schedule (stalled machine: a tick was missed, an expected arrival
        # did not come in time) says nothing about the schedule: repeat it; a real mismatch persists
        if r.get('timing', 'ok') == 'ok' and not r.get('res', '').startswith('fail'):
            return r
    return r
