"""C19 -- validation verdicts are sound and do not reject valid charts; validate() is total.

Documents are element trees E = (tag, [(attr, value)], [kids]).  The implementation sees the rendered XML
(`validate <hex>`, `run <engine> <hex> ...` of harness/vd_run.cpp, risky cases in small child-process
shards); the extracted model (extract/validate) sees the s-expression of the same tree.  Oracles, applied
to the implementation's outputs:
  totality     validate() answers (a crash is an outcome)
  soundness    a document validate() accepts (no FATAL) runs in both engines without crash and every
               configuration it reaches is legal (extract/chart `legal`, Legal.legal_configb)
  completeness a document with conformantb = 1 (and expressions the datamodel accepts) has no FATAL issue
               and no "Syntax error" warning
  correspondence: the issue multiset (severity, message, xpath) of the modelled classes equals the model's,
               the model instantiated with the defect-switch vector read off the witnesses."""
import copy, itertools, json, os, random, re, subprocess, sys
import xml.etree.ElementTree as ET
from vlib import *
import chartgen as G

NS = 'http://www.w3.org/2005/07/scxml'
STATE_TAGS = ('state', 'parallel', 'final', 'history', 'initial', 'transition')
CONTAINER = ('onentry', 'onexit', 'finalize')
EXEC = ('raise', 'if', 'elseif', 'else', 'foreach', 'log', 'send', 'assign', 'script', 'cancel')
SWITCHES = ['getstates_null', 'any_parallel_ancestor', 'root_initial_unchecked', 'initial_target_optional',
            'id_required', 'nesting_warning_only', 'empty_initial_unchecked', 'hist_pseudo_target_unchecked']


# ------------------------------------------------------------------ documents

def E(tag, attrs=None, kids=None):
    return [tag, list(attrs or []), list(kids or [])]


def scxml(kids, attrs=(), dm='null'):
    return E('scxml', [('xmlns', NS), ('version', '1.0'), ('datamodel', dm), ('name', 'm')] + list(attrs), kids)


def esc(v):
    return v.replace('&', '&amp;').replace('<', '&lt;').replace('"', '&quot;')


def to_xml(e):
    tag, attrs, kids = e
    a = ''.join(' %s="%s"' % (k, esc(v)) for k, v in attrs)
    if tag == 'scxml' and not any(k == 'xmlns' for k, _ in attrs):
        a = ' xmlns="%s"' % NS + a
    return '<%s%s>%s</%s>' % (tag, a, ''.join(to_xml(k) for k in kids), tag)


def from_xml(xml):
    """parse (chartgen output) into E; SCXML namespace stripped, other namespaces keep a prefix marker"""
    def conv(n):
        t = n.tag
        if t.startswith('{' + NS + '}'):
            t = t[len(NS) + 2:]
        elif t.startswith('{'):
            t = 'x:' + t.split('}', 1)[1]
        return E(t, list(n.attrib.items()), [conv(k) for k in n])
    return conv(ET.fromstring(xml))


def attr(e, k):
    for a, v in e[1]:
        if a == k:
            return v
    return None


def model_tag(t):
    if t in ('scxml',) + STATE_TAGS:
        return t
    if t in CONTAINER:
        return 'container'
    if t in EXEC:
        return 'exec'
    return 'other'


def hx(s):
    return s.encode('latin-1').hex() if s else '='


def sx(e):
    tag, attrs, kids = e
    idv, ini, tg = attr(e, 'id'), attr(e, 'initial'), attr(e, 'target')
    f = lambda v: '-' if v is None else '(' + ' '.join(hx(t) for t in v.split()) + ')'
    return '(%s %s %s %s %d %d %d%s)' % (
        model_tag(tag), '-' if idv is None else hx(idv), f(ini), f(tg),
        1 if (attr(e, 'type') == 'deep') else 0, 1 if attr(e, 'cond') is not None else 0,
        1 if attr(e, 'event') is not None else 0, ''.join(' ' + sx(k) for k in kids))


def walk(e, path=()):
    yield path, e
    for i, k in enumerate(e[2]):
        yield from walk(k, path + (i,))


def node_at(e, path):
    for i in path:
        e = e[2][i]
    return e


def xpath_of(doc, path):
    """DOMUtils::xPathForNode"""
    xp = ''
    p = list(path)
    while True:
        e = node_at(doc, p)
        if attr(e, 'id') is not None:
            return '//%s[@id="%s"]' % (e[0], attr(e, 'id')) + xp
        if not p:
            return '/%s[1]' % e[0] + xp
        par = node_at(doc, p[:-1])
        idx = 1 + sum(1 for s in par[2][:p[-1]] if s[0].lower() == e[0].lower())
        xp = '/%s[%d]' % (e[0], idx) + xp
        p = p[:-1]


MSG = {
    'NoId': "State has no 'id' attribute",
    'EmptyId': "State has empty 'id' attribute",
    'HistMulti': "History pseudo-state with id '%s' has multiple transitions",
    'HistNone': "History pseudo-state with id '%s' has no default transition",
    'HistCond': "Transition in history pseudo-state '%s' must not have a condition",
    'HistEvent': "Transition in history pseudo-state '%s' must not have an event attribute",
    'HistNoTarget': "Transition in history pseudo-state '%s' has no target",
    'HistDeepIllegal': "Transition in deep history pseudo-state '%s' has illegal target state '%s'",
    'HistShallowIllegal': "Transition in shallow history pseudo-state '%s' has illegal target state '%s'",
    'HistPseudoTarget': "Transition in history pseudo-state '%s' has illegal target state '%s'",
    'Unreachable': "State with id '%s' is unreachable",
    'Duplicate': "Duplicate state with id '%s'",
    'TransEmptyTargets': "Transition has empty target state list",
    'TransNoSuchTarget': "Transition has non-existant target state with id '%s'",
    'UselessHistAtomic': "Useless history '%s' in atomic state",
    'UselessHistSingle': "Useless history '%s' in state with single legal configuration",
    'InitAttrInvalid': "Initial attribute has invalid target state with id '%s'",
    'InitAttrNonChild': "Initial attribute references non-child state '%s'",
    'IllegalTargets': "Target states cause illegal configuration",
    'InitialNotOneTrans': "Initial element must define exactly one transition",
    'InitTransCond': "Initial transition cannot have a condition",
    'InitTransEvent': "Initial transition cannot be eventful",
    'InitTransNonChild': "Target of initial transition references non-child state '%s'",
    'InitTransNoTarget': "Initial transition has no target",
    'InitAttrEmpty': "Initial attribute is empty",
}
MODELLED = [re.compile('^' + re.escape(m).replace('%s', "[^']*") + '$') for m in MSG.values()]
RE_EXEC = re.compile(r"^Executable content element '(\w+)' in namespace '[^']*' unknown$")
RE_NEST = re.compile(r"^Element (\w+) can be no child of (\S+)$")
UNMODELLED_FATAL = ('Invoke with unknown type', 'Send to unknown IO Processor', 'SCXML document requires unknown datamodel',
                    'Could not setup SCXML DOM', 'No SCXML element')


def parse_impl(line):
    """'V fatal=.. | sev:message @xpath | ...' -> (fatal, warn, [(sev, msg, xpath)])"""
    parts = line.split(' | ')
    m = re.match(r'V fatal=(\d+) warn=(\d+) info=(\d+)', parts[0])
    issues = []
    for p in parts[1:]:
        sev, rest = p.split(':', 1)
        k = rest.rfind(' @')
        issues.append((int(sev), rest[:k], rest[k + 2:]))
    return int(m.group(1)), int(m.group(2)), issues


def modelled(issue):
    sev, msg, xp = issue
    if any(r.match(msg) for r in MODELLED):
        return True
    if RE_EXEC.match(msg):
        return True
    m = RE_NEST.match(msg)
    if m and m.group(1) in STATE_TAGS:
        return True
    return False


def render_model(doc, mline):
    """'OK sev:cls:path:args;...' -> sorted [(sev, msg, xpath)] | 'CRASH' | 'OUTOFFUEL'"""
    if not mline.startswith('OK'):
        return mline.split()[0]
    out = []
    body = mline[3:].strip()
    for it in (body.split(';') if body else []):
        sev, cls, path, args = it.split(':')
        p = () if path == 'r' else tuple(int(x) for x in path.split('.'))
        av = tuple(('' if a == '-' else bytes.fromhex(a).decode('latin-1')) for a in args.split(',')) if args else ()
        e = node_at(doc, p)
        if cls == 'ExecUnknown':
            msg = "Executable content element '%s' in namespace '%s' unknown" % (e[0], NS)
        elif cls == 'Nesting':
            msg = 'Element %s can be no child of %s' % (e[0], node_at(doc, p[:-1])[0])
        else:
            msg = MSG[cls] % av[:MSG[cls].count('%s')] if '%s' in MSG[cls] else MSG[cls]
        out.append((int(sev), msg, xpath_of(doc, p)))
    return sorted(out)


# ------------------------------------------------------------------ child-process shards

def shards(exe, lines, shard=20, timeout=180):
    """each shard in its own process; a crash loses one answer, the rest of the shard is re-run.
    returns list of answers, 'CRASH rc=..' for a line that killed the process"""
    res = [None] * len(lines)

    def run_range(ranges):
        procs = []
        out = []

        def drain():
            for (a, b), p in procs:
                try:
                    o, e = p.communicate(('\n'.join(lines[a:b]) + '\n').encode(), timeout=timeout)
                    rc = p.returncode
                except subprocess.TimeoutExpired:
                    p.kill()
                    o, e = p.communicate()
                    rc = -999
                ans = [l[2:] for l in o.decode('utf-8', 'replace').split('\n') if l.startswith('@@')]
                out.append(((a, b), ans, rc))
            del procs[:]
        for r in ranges:
            procs.append((r, subprocess.Popen([exe], stdin=subprocess.PIPE, stdout=subprocess.PIPE, stderr=subprocess.PIPE)))
            if len(procs) >= NCPU:
                drain()
        drain()
        return out
    todo = [(k, min(k + shard, len(lines))) for k in range(0, len(lines), shard)]
    while todo:
        nxt = []
        for (a, b), ans, rc in run_range(todo):
            for j, x in enumerate(ans[:b - a]):
                res[a + j] = x
            if len(ans) < b - a:
                res[a + len(ans)] = 'CRASH rc=%s' % rc
                if a + len(ans) + 1 < b:
                    nxt.append((a + len(ans) + 1, b))
        todo = nxt
    return res


# ------------------------------------------------------------------ generators

def st(i, kids=(), tag='state', extra=()):
    return E(tag, [('id', 's%d' % i)] + list(extra), kids)


def tr(target=None, event='e', extra=()):
    a = []
    if event is not None:
        a.append(('event', event))
    if target is not None:
        a.append(('target', target))
    return E('transition', a + list(extra))


def base_docs(maxn):
    """all state trees with <= maxn proper states (state, parallel, final), ids s1.. in document order"""
    out = []
    for n in range(1, maxn + 1):
        for shape in G.shapes(n):
            cnt = [0]

            def mk(s):
                kind, kids = s
                if kind == 'scxml':
                    return scxml([mk(k) for k in kids])
                cnt[0] += 1
                i = cnt[0]
                return st(i, [mk(k) for k in kids], kind)
            out.append(mk(shape))
    return out


def states_of(doc):
    return [(p, e) for p, e in walk(doc) if e[0] in ('state', 'parallel', 'final')]


def is_anc(a, b):
    return len(a) < len(b) and b[:len(a)] == a


def inject(doc):
    """(defect kind, document) for every defect kind at every site of a base document"""
    sts = states_of(doc)
    srcs = [(p, e) for p, e in sts if e[0] != 'final']
    comps = [(p, e) for p, e in sts if e[0] == 'state' and any(k[0] in ('state', 'parallel', 'final') for k in e[2])]
    pars = [(p, e) for p, e in sts if e[0] == 'parallel']
    out = []

    def variant(kind, f):
        d = copy.deepcopy(doc)
        f(d)
        out.append((kind, d))

    def add_kid(path, kid, front=True):
        def f(d):
            n = node_at(d, path)
            if front:
                n[2].insert(0, copy.deepcopy(kid))
            else:
                n[2].append(copy.deepcopy(kid))
        return f

    def set_attr(path, k, v):
        def f(d):
            n = node_at(d, path)
            n[1] = [(a, b) for a, b in n[1] if a != k]
            if v is not None:
                n[1].append((k, v))
        return f

    def both(*fs):
        def f(d):
            for g in fs:
                g(d)
        return f
    idof = lambda e: attr(e, 'id')
    out.append(('valid-base', copy.deepcopy(doc)))
    for p, e in srcs:
        variant('dangling-target', add_kid(p, tr('s99')))
        variant('valid-targetless', add_kid(p, tr(None)))
        for q, x in sts:
            variant('valid-single-target', add_kid(p, tr(idof(x))))
    if srcs:
        p0 = srcs[0][0]
        variant('empty-target', add_kid(p0, tr('')))
        variant('transition-to-transition-id', both(add_kid(p0, tr('s70')), add_kid(p0, E('transition', [('id', 's70')]), False)))
        # multi-targets: every pair, orthogonal or not
        for (q1, x1), (q2, x2) in itertools.combinations_with_replacement(sts, 2):
            variant('multi-target', add_kid(p0, tr('%s %s' % (idof(x1), idof(x2)))))
        if len(sts) >= 3:
            variant('multi-target3', add_kid(p0, tr(' '.join(idof(x) for _, x in sts[:3]))))
    for (q1, x1), (q2, x2) in itertools.combinations(sts, 2):
        variant('root-initial-pair', set_attr((), 'initial', '%s %s' % (idof(x1), idof(x2))))
    for q, x in sts:
        variant('root-initial', set_attr((), 'initial', idof(x)))
    variant('root-initial-unknown', set_attr((), 'initial', 's99'))
    variant('root-initial-empty', set_attr((), 'initial', ''))
    for p, e in comps + pars:
        variant('initial-attr-unknown', set_attr(p, 'initial', 's99'))
        for q, x in sts:
            variant('initial-attr-%s' % ('descendant' if is_anc(p, q) else 'outside'), set_attr(p, 'initial', idof(x)))
        ds = [(q, x) for q, x in sts if is_anc(p, q)]
        for (q1, x1), (q2, x2) in itertools.combinations(ds, 2):
            variant('initial-attr-pair', set_attr(p, 'initial', '%s %s' % (idof(x1), idof(x2))))
    for p, e in comps:
        first = idof([k for k in e[2] if k[0] in ('state', 'parallel', 'final')][0])
        outside = [idof(x) for q, x in sts if not is_anc(p, q)]
        deep = [idof(x) for q, x in sts if is_anc(p, q) and len(q) > len(p) + 1]
        ini = lambda kids, extra=(): E('initial', list(extra), kids)
        variant('initial-el-valid', add_kid(p, ini([tr(first, None)])))
        variant('initial-el-empty', add_kid(p, ini([])))
        variant('initial-el-two', add_kid(p, ini([tr(first, None), tr(first, None)])))
        variant('initial-el-cond', add_kid(p, ini([tr(first, None, [('cond', 'true')])])))
        variant('initial-el-event', add_kid(p, ini([tr(first, 'e')])))
        variant('initial-el-no-target', add_kid(p, ini([tr(None, None)])))
        variant('initial-el-dangling', add_kid(p, ini([tr('s99', None)])))
        variant('initial-el-with-attr', both(add_kid(p, ini([tr(first, None)])), set_attr(p, 'initial', first)))
        variant('initial-el-twice', both(add_kid(p, ini([tr(first, None)])), add_kid(p, ini([tr(first, None)]))))
        variant('initial-el-with-id', add_kid(p, ini([tr(first, None)], [('id', 's71')])))
        for x in outside[:2]:
            variant('initial-el-outside', add_kid(p, ini([tr(x, None)])))
        for x in deep[:2]:
            variant('initial-el-deep', add_kid(p, ini([tr(x, None)])))
    for p, e in comps + pars:
        props = [k for k in e[2] if k[0] in ('state', 'parallel', 'final')]
        first = idof(props[0])
        other = [idof(x) for q, x in sts if not (is_anc(p, q) and len(q) == len(p) + 1)]
        deepd = [idof(x) for q, x in sts if is_anc(p, q) and len(q) > len(p) + 1]
        outside = [idof(x) for q, x in sts if not is_anc(p, q)]
        src = idof(props[-1])
        h = lambda kids, deep=False, extra=(): E('history', [('id', 's50')] + ([('type', 'deep')] if deep else []) + list(extra), kids)
        use = lambda d: [k for k in node_at(d, p)[2] if attr(k, 'id') == src][0][2].insert(0, tr('s50'))
        variant('history-valid-shallow', both(add_kid(p, h([tr(first, None)])), use if props[-1][0] != 'final' else (lambda d: None)))
        variant('history-valid-deep', add_kid(p, h([tr(first, None)], True)))
        variant('history-none', add_kid(p, h([])))
        variant('history-two', add_kid(p, h([tr(first, None), tr(first, None)])))
        variant('history-cond', add_kid(p, h([tr(first, None, [('cond', 'true')])])))
        variant('history-event', add_kid(p, h([tr(first, 'e')])))
        variant('history-no-target', add_kid(p, h([tr(None, None)])))
        variant('history-dangling', add_kid(p, h([tr('s99', None)])))
        variant('history-no-id', add_kid(p, E('history', [], [tr(first, None)])))
        # the default transition names a pseudo-state: the history itself, a second history (whose default names the first),
        # an <initial id=..> element; with a transition into the history so that the engines go through the default
        go_h = use if props[-1][0] != 'final' else (lambda d: None)
        variant('history-default-self', both(add_kid(p, h([tr('s50', None)])), go_h))
        variant('history-default-self-deep', both(add_kid(p, h([tr('s50', None)], True)), go_h))
        variant('history-default-history', both(add_kid(p, E('history', [('id', 's51')], [tr('s50', None)])), add_kid(p, h([tr('s51', None)])), go_h))
        variant('history-default-history-valid', both(add_kid(p, E('history', [('id', 's51')], [tr(first, None)])), add_kid(p, h([tr('s51', None)])), go_h))
        if e[0] == 'state':
            variant('history-default-initial-el', both(add_kid(p, E('initial', [('id', 's52')], [tr(first, None)])), add_kid(p, h([tr('s52', None)])), go_h))
        for x in other[:3]:
            variant('history-shallow-scope', add_kid(p, h([tr(x, None)])))
        for x in deepd[:2]:
            variant('history-deep-descendant', add_kid(p, h([tr(x, None)], True)))
        for x in outside[:2]:
            variant('history-deep-outside', add_kid(p, h([tr(x, None)], True)))
    for (q1, x1), (q2, x2) in itertools.combinations(sts, 2):
        variant('duplicate-id', set_attr(q2, 'id', idof(x1)))
    for q, x in sts:
        variant('missing-id', set_attr(q, 'id', None))
        variant('empty-id', set_attr(q, 'id', ''))
    # structural elements below the wrong parent; a transition leads there
    if srcs:
        p0 = srcs[0][0]
        new = st(60)
        go = add_kid(p0, tr('s60'))
        variant('nest-state-in-datamodel', both(add_kid(p0, E('datamodel', [], [new])), go))
        variant('nest-state-in-onentry', both(add_kid(p0, E('onentry', [], [new])), go))
        variant('nest-state-in-transition', both(add_kid(p0, E('transition', [('event', 'f')], [new])), go))
        variant('nest-state-in-initial', both(add_kid(p0, E('initial', [], [new, tr('s60', None)])), go))
        variant('nest-state-in-history', both(add_kid(p0, E('history', [('id', 's50')], [new, tr('s60', None)])), go))
        variant('nest-state-in-if', both(add_kid(p0, E('onentry', [], [E('if', [('cond', 'true')], [new])])), go))
        variant('nest-transition-in-onentry', add_kid(p0, E('onentry', [], [tr('s1')])))
        variant('nest-param-in-onentry', add_kid(p0, E('onentry', [], [E('param', [('name', 'x'), ('expr', '1')])])))
        variant('nest-initial-in-parallel-or-atomic', add_kid(p0, E('initial', [], [tr('s1', None)])))
        variant('valid-exec-content', add_kid(p0, E('onentry', [], [E('raise', [('event', 'f')]), E('log', [('expr', '1')])])))
    for p, e in sts:
        if e[0] == 'final':
            variant('nest-state-in-final', both(add_kid(p, st(60)), add_kid(srcs[0][0], tr('s60')) if srcs else (lambda d: None)))
            variant('nest-transition-in-final', add_kid(p, tr('s1')))
        if e[0] == 'parallel':
            variant('nest-final-in-parallel', add_kid(p, st(60, tag='final'), False))
        if not any(k[0] in ('state', 'parallel', 'final') for k in e[2]) and e[0] == 'state':
            variant('atomic-with-initial-attr', set_attr(p, 'initial', 's1'))
    # a second machine inside <invoke><content>
    if srcs:
        p0 = srcs[0][0]
        inner = lambda ids: E('invoke', [('type', 'scxml')], [E('content', [], [E('scxml', [('xmlns', NS), ('version', '1.0')], [st(i) for i in ids])])])
        variant('nested-machine-same-id', add_kid(p0, inner([1])))
        variant('nested-machine-distinct', add_kid(p0, inner([80])))
        variant('nested-machine-cross-target', both(add_kid(p0, inner([80])), add_kid(p0, tr('s80'))))
    return out


RTAGS = ['state', 'state', 'state', 'parallel', 'final', 'history', 'initial', 'transition', 'transition', 'onentry', 'onexit', 'raise',
         'send', 'log', 'assign', 'if', 'elseif', 'else', 'foreach', 'script', 'datamodel', 'data', 'donedata', 'param', 'content',
         'cancel', 'invoke', 'finalize']
RATTRS = ['id', 'id', 'initial', 'target', 'target', 'event', 'cond', 'expr', 'location', 'type', 'name', 'delay', 'array', 'item', 'index', 'sendid', 'namelist']
RVALS = ['s1', 's2', 's3', 's4', 's99', 'e', '*', 'true', "In(s1)", '1', 'x', 'deep', 'internal', '', 's1 s2', 's2 s3', ')(', '1s', '#_internal', 'scxml']


def rand_xml_doc(rng):
    def gen(depth):
        t = rng.choice(RTAGS)
        ks = rng.sample(RATTRS, rng.randint(0, 3))
        a = []
        for k in dict.fromkeys(ks):
            v = rng.choice(RVALS)
            if k == 'type' and t in ('send', 'invoke'):
                continue        # unknown io processors / invokers: FATAL classes outside the model
            a.append((k, v))
        return E(t, a, [gen(depth + 1) for _ in range(rng.randint(0, 3 if depth < 3 else 0))])
    ra = rng.choice([[], [('initial', 's1')], [('initial', 's99')], [('initial', 's1 s2')]])
    return scxml([gen(0) for _ in range(rng.randint(1, 4))], ra, rng.choice(['null', 'lua', 'promela']))


# ------------------------------------------------------------------ chart conversion for extract/chart `legal`

def to_chart(doc):
    """chartgen tree of a document whose state-like elements nest properly and whose ids are s<k>; None otherwise"""
    fresh = [900]

    def sid(e):
        i = attr(e, 'id')
        if i is None:
            fresh[0] += 1
            return fresh[0]
        m = re.match(r'^s(\d+)$', i)
        if not m:
            raise ValueError
        return int(m.group(1))

    def ids(v):
        return [int(re.match(r'^s(\d+)$', t).group(1)) if re.match(r'^s(\d+)$', t) else 998 for t in v.split()]

    def conv(e, top):
        tag = e[0]
        kind = {'scxml': 'scxml', 'state': 'state', 'parallel': 'parallel', 'final': 'final', 'initial': 'initial'}.get(tag)
        if tag == 'history':
            kind = 'hd' if attr(e, 'type') == 'deep' else 'hs'
        if tag in ('state', 'parallel', 'history') and attr(e, 'id') is None:
            raise ValueError
        n = G.node(kind, 0 if top else sid(e))
        if attr(e, 'initial') is not None:
            n['init'] = ids(attr(e, 'initial'))
        vid = [0]
        for k in e[2]:
            if k[0] == 'transition':
                vid[0] += 1
                n['trans'].append(G.trans(vid[0], attr(k, 'event').encode() if attr(k, 'event') is not None else None, None,
                                          ids(attr(k, 'target')) if attr(k, 'target') is not None else None,
                                          attr(k, 'type') == 'internal', []))
            elif k[0] in ('state', 'parallel', 'final', 'history', 'initial'):
                n['kids'].append(conv(k, False))
            else:
                for _, x in walk(k):
                    if x[0] in ('scxml',) + STATE_TAGS:
                        raise ValueError      # structure below a non-state element
        return n
    try:
        if doc[0] != 'scxml':
            return None
        return conv(doc, True)
    except (ValueError, AttributeError):
        return None


def configs_of(trace):
    return [t[4:] for t in trace.split('|')[0].split() if t.startswith('CFG:')]


# ------------------------------------------------------------------ the check

WITNESS = {
    'getstates_null': scxml([E('state', [('id', 's1')])], [('initial', 's99')]),
    'any_parallel_ancestor': scxml([st(1, [st(2, [st(3), st(4)]), st(5, [tr('s3 s4')])], 'parallel')]),
    'root_initial_unchecked': scxml([st(1), st(2)], [('initial', 's1 s2')]),
    'initial_target_optional': scxml([st(1, [E('initial', [], [tr(None, None)]), st(2)])]),
    'id_required': scxml([E('state', [], [tr('s2')]), st(2)]),
    'nesting_warning_only': scxml([st(1, [E('datamodel', [], [st(2)]), tr('s2')])]),
    'empty_initial_unchecked': scxml([st(1)], [('initial', '')]),
    'hist_pseudo_target_unchecked': scxml([st(1, [E('history', [('id', 's2')], [tr('s2', None)]), st(3, [tr('s2')])])]),
}


def impl_vector(vd):
    """the defect switches of the implementation, read off the witnesses"""
    names = list(WITNESS)
    res = shards(vd, ['validate %s' % to_xml(WITNESS[n]).encode().hex() for n in names], shard=1)
    vec = {}
    raw = {}
    for n, r in zip(names, res):
        raw[n] = r[:200]
        if r.startswith('CRASH'):
            vec[n] = 1 if n == 'getstates_null' else None
            continue
        fatal, warn, issues = parse_impl(r)
        if n == 'getstates_null':
            vec[n] = 0
        elif n in ('any_parallel_ancestor', 'root_initial_unchecked'):
            vec[n] = 0 if any(m == MSG['IllegalTargets'] for _, m, _ in issues) else 1
        elif n == 'initial_target_optional':
            vec[n] = 1 if fatal == 0 else 0
        elif n == 'id_required':
            vec[n] = 1 if any(s == 0 and m == MSG['NoId'] for s, m, _ in issues) else 0
        elif n == 'empty_initial_unchecked':
            vec[n] = 1 if fatal == 0 else 0
        elif n == 'hist_pseudo_target_unchecked':
            vec[n] = 0 if any(s == 0 and m == MSG['HistPseudoTarget'] % ('s2', 's2') for s, m, _ in issues) else 1
        elif n == 'nesting_warning_only':
            sv = [s for s, m, _ in issues if RE_NEST.match(m)]
            vec[n] = 1 if (sv and sv[0] == 1) else 0
    return vec, raw


def lua_probe(vd):
    """does validation warn about valid Lua expressions?  (expressions are checked with a statement parser)"""
    docs = {
        'cond-comparison': scxml([E('state', [('id', 's1')], [E('transition', [('event', 'e'), ('cond', 'Var1 < 3'), ('target', 's1')])]),
                                  ], dm='lua'),
        'cond-In': scxml([E('state', [('id', 's1')], [E('transition', [('event', 'e'), ('cond', "In('s1')"), ('target', 's1')])])], dm='lua'),
        'log-expr': scxml([E('state', [('id', 's1')], [E('onentry', [], [E('log', [('expr', '1 + 2')])])])], dm='lua'),
        'foreach-item': scxml([E('state', [('id', 's1')], [E('onentry', [], [E('foreach', [('array', 'Var1'), ('item', 'Var2')])])])], dm='lua'),
        'assign-expr': scxml([E('state', [('id', 's1')], [E('onentry', [], [E('assign', [('location', 'Var1'), ('expr', 'Var1 + 1')])])])], dm='lua'),
        'script-statement': scxml([E('state', [('id', 's1')], [E('onentry', [], [E('script', [], [])])])], dm='lua'),
        'cond-garbage': scxml([E('state', [('id', 's1')], [E('transition', [('event', 'e'), ('cond', ')('), ('target', 's1')])])], dm='lua'),
    }
    res = shards(vd, ['validate %s' % to_xml(d).encode().hex() for d in docs.values()], shard=1)
    out = {}
    for (n, d), r in zip(docs.items(), res):
        if r.startswith('CRASH'):
            out[n] = 'crash'
        else:
            out[n] = sorted(m for s, m, _ in parse_impl(r)[2] if m.startswith('Syntax error'))
    return out, docs


def private_copy(exe):
    """other checks relink the shared vdriver while this one runs thousands of child processes: work on a copy"""
    import shutil
    d = os.path.join(BUILD, 'c19')
    os.makedirs(d, exist_ok=True)
    dst = os.path.join(d, 'vdriver')
    with Lock('vdriver-hooks'):
        if not os.path.exists(dst) or os.path.getmtime(dst) < os.path.getmtime(exe):
            tmp = dst + '.tmp%d' % os.getpid()
            shutil.copy2(exe, tmp)
            os.replace(tmp, dst)
    return dst


def run(c):
    broken = c.prove()
    vd = private_copy(ensure_vdriver('hooks', units=['vd_run']))
    vm = ensure_vmodel('validate')
    vchart = ensure_vmodel('chart')
    quick = c.tier == 'quick'
    rng = c.rng
    c.assumptions += [
        'tokenize() of id lists is whitespace splitting (done by the generator); attribute values contain no characters that need XML escapes beyond & < "',
        'documents use the default namespace for SCXML elements (no prefix); the document root is the <scxml> element',
        'Validate.legal_cfg (the legal configurations of legal_completion_correct, on the element tree) agrees with Legal.legal_configb on the flattened '
        'chart: compared by running both extracted functions on every observed configuration and its one-element perturbations, not proved',
        'the model covers the structural issue classes (ids, history, targets, initial, legal completion, executable-content children, '
        'nesting of state/transition elements, unreachable, useless history); FATAL classes outside it (unknown invoker / io processor / datamodel, '
        'DOM set-up) are kept out of the generated documents',
        'Legal.legal_configb is the reading of SCXML 1.0 section 3.11 (C02); conformantb (Validate.v) is the reading of the structural constraints of sections 3.2-3.13',
        'syntax clause: relative to the datamodel parser oracle valid_stmt = DataModel::isValidSyntax; recorded assumption: a bare comparison is no Lua statement',
    ]
    vec, raw = impl_vector(vd)
    c.notes['defect_vector'] = vec
    c.notes['defect_vector_witness_answers'] = raw
    vflags = ''.join('1' if vec.get(n) else '0' for n in SWITCHES)
    # not a switch of the model: does validation look into embedded documents (<invoke><content><scxml>)?
    nm = scxml([st(1, [E('invoke', [('type', 'scxml')], [E('content', [], [E('scxml', [('xmlns', NS), ('version', '1.0')], [st(1)])])])])])
    r = shards(vd, ['validate %s' % to_xml(nm).encode().hex()], shard=1)[0]
    nested_excluded = (not r.startswith('CRASH')) and parse_impl(r)[0] == 0
    c.notes['embedded_documents_validated_with_the_parent'] = not nested_excluded

    # ---- documents: (origin, kind, E, xml)
    cases = []
    corpus = json.load(open(os.path.join(ROOT, 'corpus', 'c19.json')))
    for ent in corpus:
        cases.append(('corpus', ent['name'], from_xml(ent['xml']), ent['xml']))
    ncorpus = len(cases)
    bases = base_docs(3 if quick else 4)
    kinds_hist = {}
    for b in bases:
        for kind, d in inject(b):
            cases.append(('exhaustive', kind, d, to_xml(d)))
            kinds_hist[kind] = kinds_hist.get(kind, 0) + 1
    nex = len(cases) - ncorpus
    # the valid charts of the chart generator (no fatal issue expected, no syntax warning)
    grng = random.Random(c.seed * 7919 + 19)
    nvalid = {'null': 300, 'lua': 300, 'promela': 150} if quick else {'null': 2000, 'lua': 2000, 'promela': 1000}
    for dm, k in nvalid.items():
        for _ in range(k):
            t = G.rand_chart(grng, content=0.5, faults=0.0, only_in=(dm == 'null'))
            xml = G.to_scxml(t, dm)
            cases.append(('chartgen', 'valid-' + dm, from_xml(xml), xml))
    nchart = len(cases) - ncorpus - nex
    nrand = 1500 if quick else 8000
    for _ in range(nrand):
        d = rand_xml_doc(rng)
        cases.append(('random', 'random-xml', d, to_xml(d)))

    # ---- implementation and model verdicts
    impl = shards(vd, ['validate %s' % x.encode().hex() for _, _, _, x in cases])
    model, _ = run_lines_sharded(vm, ['validate %s %s' % (vflags, sx(d)) for _, _, d, _ in cases])
    wf, _ = run_lines_sharded(vm, ['wf %s' % sx(d) for _, _, d, _ in cases])
    c.cov['evaluations'] = len(cases)

    crash_docs, disagreements, accepted = [], [], []
    false_fatal, syntax_warn = [], []
    outside = 0
    nontriv = set()
    stats = {'validate_crash': 0, 'accepted': 0, 'rejected': 0, 'accepted_not_wf': 0, 'conformant': 0, 'model_crash_predicted': 0}
    for i, ((origin, kind, d, xml), il, ml, wl) in enumerate(zip(cases, impl, model, wf)):
        w = dict(kv.split('=') for kv in wl.split()) if '=' in wl else {}
        mr = render_model(d, ml) if not ml.startswith(('EXC', 'ERR')) else ml
        if len(d[2]) and any(len(k[2]) for k in d[2]):
            nontriv.add(xml)
        if il.startswith('CRASH'):
            stats['validate_crash'] += 1
            crash_docs.append(i)
            if mr != 'CRASH':
                disagreements.append((i, 'implementation crashed, model: %s' % str(mr)[:200]))
            else:
                stats['model_crash_predicted'] += 1
            continue
        fatal, warn, issues = parse_impl(il)
        has_unmodelled_fatal = any(s == 0 and m.startswith(UNMODELLED_FATAL) for s, m, _ in issues)
        if has_unmodelled_fatal:
            outside += 1
        im = sorted(x for x in issues if modelled(x))
        if nested_excluded and any(e[0] == 'scxml' for p, e in walk(d) if p):
            outside += 1       # the model validates embedded documents with their parent
        elif mr != im:
            disagreements.append((i, {'model': mr if isinstance(mr, str) else [x for x in mr if x not in im][:4],
                                      'implementation': [x for x in im if isinstance(mr, str) or x not in mr][:4]}))
        if fatal == 0:
            stats['accepted'] += 1
            accepted.append(i)
            if w.get('wf') == '0':
                stats['accepted_not_wf'] += 1
        else:
            stats['rejected'] += 1
        synt = [m for s, m, _ in issues if m.startswith('Syntax error')]
        if w.get('conf') == '1':
            stats['conformant'] += 1
            if fatal > 0 and not has_unmodelled_fatal:
                false_fatal.append((i, [m for s, m, _ in issues if s == 0]))
        if origin == 'chartgen' or kind in ('nested-machine-same-id', 'nested-machine-distinct'):
            if fatal > 0 and w.get('conf') != '1':
                false_fatal.append((i, [m for s, m, _ in issues if s == 0]))
            if synt:
                syntax_warn.append((i, synt))

    # ---- soundness oracle: every accepted document is interpreted by both engines
    runs = {}
    for eng in ('large', 'fast'):
        runs[eng] = shards(vd, ['run %s %s 14 - 65 65' % (eng, cases[i][3].encode().hex()) for i in accepted], shard=10)
    legal_lines, owners = [], []
    run_fail = []      # (case index, engine, what)
    unjudged = 0
    for eng in ('large', 'fast'):
        for i, r in zip(accepted, runs[eng]):
            if r.startswith('CRASH'):
                run_fail.append((i, eng, 'interpreting crashed (%s)' % r))
                continue
            if r.startswith('EXC'):
                run_fail.append((i, eng, 'interpreting raised: %s' % r[:160]))
                continue
            cfgs = list(dict.fromkeys(configs_of(r)))
            t = to_chart(cases[i][2])
            if t is None or not cfgs or any(re.search(r'(^|,)(?!\d+(,|$))', cf) for cf in cfgs if cf):
                unjudged += 1
                continue
            if any(cf.split(',').count('0') > 1 for cf in cfgs):
                unjudged += 1      # states without id print as 0
                continue
            legal_lines.append('legal 0 %s %s' % (G.sx_tree(t), ' '.join('(' + ' '.join(x for x in cf.split(',') if x) + ')' for cf in cfgs)))
            owners.append((i, eng, cfgs))
    lout, _ = run_lines_sharded(vchart, legal_lines)
    nconf = 0
    for (i, eng, cfgs), bits in zip(owners, lout):
        nconf += len(cfgs)
        for cf, b in zip(cfgs, bits):
            if b != '1':
                run_fail.append((i, eng, 'illegal configuration {%s}' % cf))
                break
    # ---- Validate.legal_cfg (element tree, used by legal_completion_correct) against Legal.legal_configb on the
    # flattened chart: the observed configurations and their one-element perturbations
    lc_mine, lc_chart, lc_owner = [], [], []
    seen_docs = set()
    for (i, eng, cfgs) in owners:
        if i in seen_docs:
            continue
        seen_docs.add(i)
        d = cases[i][2]
        idp = {'0': 'r'}
        ok = True
        for pth, e in walk(d):
            if pth and e[0] in ('state', 'parallel', 'final', 'history', 'initial') and attr(e, 'id') is not None:
                m = re.match(r'^s(\d+)$', attr(e, 'id'))
                if not m or m.group(1) in idp:
                    ok = False
                    break
                idp[m.group(1)] = '.'.join(str(x) for x in pth)
        if not ok:
            continue
        variants = []
        for cf in cfgs[:3]:
            ids = [x for x in cf.split(',') if x]
            variants.append(ids)
            for k in range(min(len(ids), 3)):
                variants.append(ids[:k] + ids[k + 1:])
            for x in [s for s in idp if s not in ids][:3]:
                variants.append(ids + [x])
        variants = [v for v in variants if all(x in idp for x in v)]
        if not variants:
            continue
        t = to_chart(d)
        lc_chart.append('legal 0 %s %s' % (G.sx_tree(t), ' '.join('(' + ' '.join(v) + ')' for v in variants)))
        lc_mine.append('legalcfg %s %s' % (sx(d), ' '.join('(' + ' '.join(idp[x] for x in v) + ')' for v in variants)))
        lc_owner.append((i, variants))
    o_chart, _ = run_lines_sharded(vchart, lc_chart)
    o_mine, _ = run_lines_sharded(vm, lc_mine)
    lc_total, lc_legal, lc_diff = 0, 0, []
    for (i, variants), a, b in zip(lc_owner, o_chart, o_mine):
        lc_total += len(variants)
        lc_legal += a.count('1')
        if a != b:
            lc_diff.append((i, variants, a, b))
    c.cov['evaluations'] += lc_total
    c.notes['legal_cfg_vs_Legal_legal_configb'] = {'configurations': lc_total, 'legal': lc_legal, 'differences': len(lc_diff)}
    c.cov['evaluations'] += 2 * len(accepted) + nconf

    # ---- syntax clause
    lua, lua_docs = lua_probe(vd)
    c.notes['lua_syntax_probe'] = lua

    # ---- coverage
    c.cov['distinct_nontrivial'] = len(nontriv)
    c.cov['rule'] = ('corpus (%d) + every document with <= %d proper states x every defect kind at every site (%d, %d kinds incl. valid controls) + '
                     '%d valid charts of tools/chartgen.py (null/lua/promela) + %d random element trees from SCXML vocabulary; validate() of each in '
                     'child-process shards vs the extracted model (issue multisets of the modelled classes, exact message and xpath); every accepted '
                     'document run with `run large` and `run fast` (events e e), every configuration judged by extract/chart legal; '
                     'non-trivial = distinct document with an element below the top level states') % (
                         ncorpus, 3 if quick else 4, nex, len(kinds_hist), nchart, nrand)
    c.cov['exhaustive'] = True
    c.cov['input_distribution'] = dict(stats, defect_kinds=kinds_hist, outside_model_fatal=outside, runs=2 * len(accepted),
                                       configurations_judged=nconf, runs_unjudged_for_legality=unjudged)
    c.cov['disagreements'] = len(disagreements)
    c.cov['samples'] = [{'document': cases[i][3][:400], 'implementation': impl[i][:300], 'model': model[i][:300]}
                        for i in (ncorpus + 5, ncorpus + nex // 2, ncorpus + nex + 3, len(cases) - 2) if i < len(cases)]

    if os.environ.get('VERIF_C19_DEBUG'):
        json.dump({'disagreements': [(cases[i][3], w, impl[i], model[i]) for i, w in disagreements],
                   'run_fail': [(cases[i][3], e, w, wf[i]) for i, e, w in run_fail],
                   'false_fatal': [(cases[i][3], m) for i, m in false_fatal]},
                  open(os.environ['VERIF_C19_DEBUG'], 'w'), indent=1, default=str)
    # ---- report
    vdcmd = "echo '%s %s' | /verif/.build/vdriver-hooks/vdriver"

    def smallest(idx):
        return sorted(idx, key=lambda i: (len(cases[i][3]), cases[i][3]))

    def report(cls, i, payload):
        case = {'class': cls}
        f = c.match_known(case)
        if f:
            c.known(f['id'], f['what'])
            return
        payload = dict(payload, kind='oracle', **{'class': cls}, origin=cases[i][0], defect_kind=cases[i][1], document=cases[i][3])
        c.violation(payload)

    if crash_docs:
        i = smallest(crash_docs)[0]
        report('validate-crash', i, {'expected': 'Interpreter::validate() returns a list of issues', 'observed': impl[i],
                                     'count': len(crash_docs), 'model_outcome': model[i][:80],
                                     'replay_cmd': vdcmd % ('validate', cases[i][3].encode().hex())})
    # soundness failures: (a) an accepted document misbehaves when interpreted, (b) an accepted single-machine document
    # is not wf_chartb (the spec predicate of validate_sound judging the implementation's verdict).  Classified by the
    # defect switch whose repair makes the model reject the document.
    notwf = []
    for i in accepted:
        w = dict(kv.split('=') for kv in wf[i].split()) if '=' in wf[i] else {}
        if w.get('wf') == '0' and w.get('single') == '1' and w.get('plain') == '1':
            notwf.append(i)
    fail_idx = sorted(set([i for i, _, _ in run_fail] + notwf))
    explain = {}
    if fail_idx:
        lines = []
        for i in fail_idx:
            for k in range(len(SWITCHES)):
                if vflags[k] == '1':
                    lines.append('validate %s %s' % (vflags[:k] + '0' + vflags[k + 1:], sx(cases[i][2])))
        outs, _ = run_lines_sharded(vm, lines) if lines else ([], [])
        it = iter(outs)
        for i in fail_idx:
            ex = []
            for k in range(len(SWITCHES)):
                if vflags[k] == '1':
                    o = next(it)
                    if o.startswith('OK') and re.search(r'(^|;)0:', o[3:]):
                        ex.append(SWITCHES[k])
            explain[i] = ex
    behaviour = {}
    for i, eng, what in run_fail:
        behaviour.setdefault(i, '%s engine: %s' % (eng, what))
    by_cls = {}
    for i in fail_idx:
        w = dict(kv.split('=') for kv in wf[i].split()) if '=' in wf[i] else {}
        if explain.get(i):
            cls = 'accepted:' + explain[i][0]
        elif w.get('root') == '0':
            cls = 'accepted-document-without-states'
        elif w.get('plain') == '0' and w.get('wf') == '0':
            cls = 'accepted-id-on-initial-element'     # getState() also finds <initial id=..>/<scxml id=..>: outside validate_sound's hypothesis
        elif w.get('wf') == '0':
            cls = 'accepted-not-wf:' + ','.join(k for k in ('nesting', 'ids', 'targets', 'initattr', 'initial', 'history', 'sets') if w.get(k) == '0')
        else:
            cls = 'accepted-wf-but-misbehaves'
        by_cls.setdefault(cls, []).append(i)
    for cls, l in sorted(by_cls.items()):
        l = sorted(l, key=lambda i: (0 if i in behaviour else 1, len(cases[i][3]), cases[i][3]))
        i = l[0]
        report(cls, i, {'expected': 'a document without FATAL issue satisfies wf_chartb, is interpreted without crash and only reaches legal configurations',
                        'observed': behaviour.get(i, 'accepted by validate() although wf_chartb = 0 (no misbehaviour in the two runs)'),
                        'validate': impl[i][:300], 'wf_clauses': wf[i], 'count': len(l),
                        'misbehaving': sum(1 for j in l if j in behaviour),
                        'replay_cmd': vdcmd % ('validate', cases[i][3].encode().hex())})
    # completeness failures
    ff_cls = {}
    for i, msgs in false_fatal:
        key = re.sub(r"'[^']*'", "'..'", msgs[0]) if msgs else '?'
        ff_cls.setdefault(key, []).append(i)
    for key, l in sorted(ff_cls.items()):
        i = smallest(l)[0]
        report('false-fatal: ' + key, i, {'expected': 'a conformant document (conformantb = 1 / valid generated chart) has no FATAL issue',
                                          'observed': impl[i][:400], 'count': len(l),
                                          'replay_cmd': vdcmd % ('validate', cases[i][3].encode().hex())})
    lua_bad = [n for n in ('cond-comparison', 'cond-In', 'log-expr', 'foreach-item', 'assign-expr', 'script-statement') if lua.get(n)]
    if syntax_warn or lua_bad:
        if lua_bad:
            doc, obs = to_xml(lua_docs[lua_bad[0]]), str(lua[lua_bad[0]])
        else:
            i = smallest([i for i, _ in syntax_warn])[0]
            doc, obs = cases[i][3], impl[i][:400]
        f = c.match_known({'class': 'syntax-warning-on-valid-expression'})
        if f:
            c.known(f['id'], f['what'])
        else:
            c.violation({'kind': 'oracle', 'class': 'syntax-warning-on-valid-expression', 'document': doc,
                         'expected': 'no "Syntax error" warning for expressions the datamodel accepts', 'observed': obs,
                         'probe': lua, 'count': len(syntax_warn),
                         'replay_cmd': vdcmd % ('validate', doc.encode().hex())})
    oracle_hit = bool(crash_docs or fail_idx or false_fatal or syntax_warn or lua_bad)
    if disagreements:
        i, what = sorted(disagreements, key=lambda x: (len(cases[x[0]][3]), cases[x[0]][3]))[0]
        c.violation({'kind': 'correspondence', 'document': cases[i][3], 'origin': cases[i][0], 'defect_kind': cases[i][1],
                     'difference': what, 'model_line': model[i][:600], 'implementation_line': impl[i][:600], 'count': len(disagreements),
                     'vflags': vflags, 'what': 'the extracted Validate.validate (variant %s) and Interpreter::validate() report different issues' % vflags,
                     'replay_cmd': vdcmd % ('validate', cases[i][3].encode().hex())}, no_input=not oracle_hit)
    if lc_diff:
        i, variants, a, b = lc_diff[0]
        c.violation({'kind': 'correspondence', 'what': 'Validate.legal_cfg (element tree) and Legal.legal_configb (flattened chart) judge a configuration differently',
                     'document': cases[i][3], 'configurations': variants, 'Legal.legal_configb': a, 'Validate.legal_cfg': b, 'count': len(lc_diff)},
                    no_input=True)
    if broken:
        for b in broken:
            if oracle_hit:
                log('broken obligation %s (failing inputs reported above)' % b['name'])
            c.violation({'kind': 'obligation', 'theorem': b['name'], 'why': b.get('why', '')}, no_input=True)
    return c.finish()
