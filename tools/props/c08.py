"""C08 -- external events are processed exactly once, in order, at macrostep boundaries; internal events in
the order they were raised.

Proof side: coq/props/Properties_C08.v (Fifo.v: all interleavings, StepCtl.v: all runs of the step() control flow;
GenLockDiscipline.v / GenStepCtl.v regenerated from the source).
Correspondence: (1) single-threaded control-flow traces of both engines against the extracted StepCtl model,
(2) forced schedules of N producer threads against a stepping thread (vd_sched.h) against the extracted Fifo
model, (3) thorough: long random schedules, free-running stress, TSan flavour.  The property oracles
(fifo_admissibleb, macrostep_okb, gate_okb) judge every implementation output."""
import itertools, json, os, re, sys
from vlib import *

SCXML = '<scxml xmlns="http://www.w3.org/2005/07/scxml" version="1.0" initial="%s"%s>%s</scxml>'


def chart_xml(states, initial='s0', datamodel=None, top_final=False):
    """states: list of (id, [(event|None, cond|None, target|None, [raise names])])"""
    body = ''
    for sid, trans in states:
        body += '<state id="%s">' % sid
        for ev, cond, tgt, raises in trans:
            body += '<transition'
            if ev is not None:
                body += ' event="%s"' % ev
            if cond is not None:
                body += ' cond="%s"' % cond
            if tgt is not None:
                body += ' target="%s"' % tgt
            body += '>' + ''.join('<raise event="%s"/>' % r for r in raises) + '</transition>'
        body += '</state>'
    if top_final:
        body += '<final id="fin"/>'
    return SCXML % (initial, (' datamodel="%s"' % datamodel) if datamodel else '', body)


CHARTS = {
    # no transition at all: every event is read and enables nothing
    'idle': chart_xml([('s0', [])]),
    # events of producer 1 raise two internal events, one of which raises a third
    'raise': chart_xml([('s0', [('p1', None, 's0', ['i.a', 'i.b']), ('i.a', None, None, ['i.c'])])]),
    # every producer event moves on and raises; internal events move back
    'chain': chart_xml([('s0', [('p1 p2 p3', None, 's1', ['i.a']), ('i.b', None, 's0', [])]),
                        ('s1', [('i.a', None, 's0', ['i.b']), ('p1 p2 p3', None, 's1', ['i.c', 'i.c'])])]),
}

EXT_NAMES = ['p1.0', 'p2.0', 'x.0', 'p1.1', 'p3.0']


def kv(line):
    d = {}
    for t in line.split():
        if '=' in t:
            k, v = t.split('=', 1)
            d[k] = v
    return d


def lst(s):
    return [] if s in ('-', '', None) else s.split(',')


# ---------------------------------------------------------------------------------------------- control flow

def gen_ctl_case(rng, unnamed=False):
    n = rng.randint(1, 3)
    top_final = rng.random() < 0.25
    ids = ['s%d' % i for i in range(n)]
    states = []
    for i, sid in enumerate(ids):
        trans = []
        for _ in range(rng.randint(0, 3)):
            ev = rng.choice(['p1', 'p2', 'p1 p2', 'x', 'i.a', 'i.b', 'i.c', '*', None, 'p1'])
            if ev is None:
                later = ids[i + 1:] + (['fin'] if top_final else [])
                if not later:
                    continue
                tgt = rng.choice(later)
                raises = [rng.choice(['i.a', 'i.b', 'i.c']) for _ in range(rng.randint(0, 2))]
            else:
                tgt = rng.choice(ids + [None] + (['fin'] if top_final and rng.random() < 0.3 else []))
                allowed = {'i.a': ['i.b', 'i.c'], 'i.b': ['i.c'], 'i.c': [], '*': []}.get(ev, ['i.a', 'i.b', 'i.c'])
                raises = [rng.choice(allowed) for _ in range(rng.randint(0, 2))] if allowed else []
                if unnamed and ev.startswith('p') and rng.random() < 0.7:
                    raises = [''] * rng.randint(1, 2) + raises
            trans.append((ev, None, tgt, raises))
        states.append((sid, trans))
    xml = chart_xml(states, top_final=top_final)
    script = ['S'] * rng.randint(0, 5)
    for _ in range(rng.randint(1, 6)):
        for _ in range(rng.randint(1, 3)):
            script.append('R' + rng.choice(EXT_NAMES))
        script += ['S'] * rng.randint(0, 6)
    if rng.random() < 0.15:
        script.append('C')
    script += ['S'] * 14
    return xml, script


class Names:
    def __init__(self):
        self.ids = {'': 0}

    def id(self, name):
        if name not in self.ids:
            self.ids[name] = len(self.ids)
        return self.ids[name]


def is_ext_name(name):
    return name.startswith('p') or name.startswith('x') or name in ('go', 'next', 'kick')


def ctl_compare(engine, xml, script, impl_line, variant, names):
    """returns (model command line, normalised implementation groups, macro tokens)"""
    groups = impl_line.split(' ') if impl_line not in ('-', '') else []
    items = []
    norm = []
    toks = []
    gi = 0
    for it in script:
        if it == 'S':
            if gi >= len(groups):
                break
            g = groups[gi].split(';')
            gi += 1
            ret, rest = g[0], g[1:]
            enabled = '1' if 'MS' in rest else '0'
            tf = '1' if 'TF' in rest else '0'
            raises = [t[6:] for t in rest if t.startswith('RAISE:')]
            ms = '.'.join(str(names.id(r)) for r in raises) or '-'
            items.append('S:%s:%s:-:%s:-' % (enabled, tf, ms))
            o = ret
            for t in rest:
                if t.startswith('EV:'):
                    o += ';EV:%d' % names.id(t[3:])
                    toks.append(('E' if is_ext_name(t[3:]) else 'I') + str(names.id(t[3:])))
                elif t in ('MS', 'ST'):
                    o += ';' + t
                elif t.startswith('RAISE:'):
                    toks.append('R' + str(names.id(t[6:])))
            norm.append(o)
        elif it == 'C':
            items.append('C')
        elif it.startswith('R'):
            items.append('R%d' % names.id(it[1:]))
    return 'ctl %s %s' % (variant, ','.join(items)), norm, toks


# ---------------------------------------------------------------------------------------------- schedules

def enum_schedules(counts, nd, max_blocks):
    """all words with counts[k] copies of digit k+1 and nd copies of 'd' having at most max_blocks blocks"""
    syms = [str(k + 1) if k < 9 else chr(ord('A') + k - 9) for k in range(len(counts))] + ['d']
    left = list(counts) + [nd]
    out = []

    def rec(word, last, blocks):
        if all(x == 0 for x in left):
            out.append(''.join(word))
            return
        for i, sy in enumerate(syms):
            if left[i] == 0:
                continue
            nb = blocks + (1 if sy != last else 0)
            if nb > max_blocks:
                continue
            left[i] -= 1
            word.append(sy)
            rec(word, sy, nb)
            word.pop()
            left[i] += 1
    rec([], None, 0)
    return out


def count_vectors(maxp, maxe):
    out = []
    for n in range(1, maxp + 1):
        for cv in itertools.combinations_with_replacement(range(maxe, 0, -1), n):
            out.append(list(cv))
    return out


def sched_nontrivial(sched):
    """some enqueue lies between two dequeues that follow at least one earlier enqueue each"""
    seen_enq = 0
    first_d = False
    enq_after = False
    for ch in sched:
        if ch == 'd':
            if seen_enq and first_d and enq_after:
                return True
            if seen_enq:
                first_d = True
        else:
            seen_enq += 1
            if first_d:
                enq_after = True
    return False


def random_schedule(rng, counts, nd_extra, burst):
    left = list(counts)
    total = sum(counts)
    nd = total + nd_extra
    word = []
    syms = [str(k + 1) if k < 9 else chr(ord('A') + k - 9) for k in range(len(counts))]
    while sum(left) or nd:
        choices = [i for i in range(len(left)) if left[i]] + ([-1] if nd else [])
        i = rng.choice(choices)
        n = rng.randint(1, burst)
        if i < 0:
            n = min(n, nd)
            nd -= n
            word += ['d'] * n
        else:
            n = min(n, left[i])
            left[i] -= n
            word += [syms[i]] * n
    return ''.join(word)


def sched_waits(w):
    """does a blocking consumer following schedule w ever wait on the empty queue"""
    q, waiting, waited = 0, False, False
    for ch in w:
        if ch == 'd':
            if q == 0:
                waiting = waited = True
            else:
                q -= 1
        elif waiting:
            waiting = False
        else:
            q += 1
    return waited


def obs_tokens(obs, names):
    toks = []
    for x in obs:
        if x == '!':
            continue
        if x.startswith('!'):
            toks.append('R' + str(names.id(x[1:])))
        elif x.startswith('p'):
            toks.append('E' + str(names.id(x)))
        else:
            toks.append('I' + str(names.id(x)))
    return toks


def replay_cmd(line, flavor='hooks'):
    return "echo '%s' | %s/vdriver-%s/vdriver | grep '^@@'" % (line, BUILD, flavor)


# ---------------------------------------------------------------------------------------------- the check

def run(c):
    broken = c.prove()
    vdriver = ensure_vdriver('hooks', units=['vd_fifo'])
    vmodel = ensure_vmodel('fifo')
    rng = c.rng
    corpus = json.load(open(os.path.join(ROOT, 'corpus', 'c08.json')))
    quick = c.tier == 'quick'
    c.assumptions += [
        'std::recursive_mutex gives mutual exclusion, std::condition_variable_any::wait releases/re-acquires it atomically and is woken by notify_all (no lost wake-up); the C++ memory model below the mutex and std::list are not modelled',
        'producers start after the first step() (the queues are created lazily by InterpreterImpl::init; receive() before that is C10)',
        'events handed to receive() have non-empty names (the empty event is the queue\'s "nothing" and InterpreterImpl::cancel\'s wake-up token)',
        'forced schedules use BasicEventQueue objects of a subclass that only tags the controller role and logs the result around the inherited enqueue/dequeue; free-running runs also use the queues created by InterpreterImpl::init',
    ]
    c.cov['trusted_base'] += [
        'tools/translate/tr_lockdiscipline.py, tr_stepctl.py (regular-expression level readers of BasicEventQueue.cpp, Large/FastMicroStep.cpp)',
        'harness/vd_sched.h schedule controller, harness/vd_fifo.cpp',
        'StepCtl.v / Fifo.v are hand models, tied to the code by the correspondences below',
    ]
    findings = []          # (class, payload) oracle failures on implementation output
    mismatches = []        # model/implementation disagreements without oracle failure
    crashes = []
    hist = {}
    samples = []

    def bump(k, n=1):
        hist[k] = hist.get(k, 0) + n

    def ask_model(lines):
        out, cr = run_lines_sharded(vmodel, lines)
        if cr:
            raise BuildError('vmodel (fifo) died: %s' % (cr[0],))
        return out

    def ask_impl(lines, exe=None, shards=NCPU, env=None):
        out, cr = run_lines_sharded(exe or vdriver, lines, shards=shards, env=env, timeout=900)
        # a crash takes the rest of its shard with it: run the unanswered lines again one process each
        for idx, rc, err in cr:
            crashes.append({'line': lines[min(idx, len(lines) - 1)], 'rc': rc, 'stderr': err[-1500:]})
        redo = [i for i, o in enumerate(out) if o.startswith('CRASH')]
        crashed_first = set(min(idx, len(lines) - 1) for idx, _, _ in cr)
        for i in redo:
            if i in crashed_first:
                continue
            rc, o, e = run_lines(exe or vdriver, [lines[i]], env=env)
            if o:
                out[i] = o[0]
            else:
                crashes.append({'line': lines[i], 'rc': rc, 'stderr': e[-1500:]})
        return out

    # ---- 1. defect vector of the implementation (witnesses from the corpus) -------------------------------
    wit = corpus['variant_witness']
    o = ask_impl(['fifo-ctl %s %s %s' % (e, hexs(CHARTS['idle']), wit['recheck_script']) for e in ('large', 'fast')] +
                 ['fifo-ctl %s %s %s' % (e, hexs(wit['unnamed_chart']), wit['unnamed_script']) for e in ('large', 'fast')])

    def after_event(line, name):
        g = line.split(' ')
        for i, x in enumerate(g):
            if ('EV:' + name) in x.split(';'):
                return g[i + 1:] if i + 1 < len(g) else []
        return []
    vec = {}
    for i, e in enumerate(('large', 'fast')):
        nxt = after_event(o[i], 'x.0')
        recheck = bool(nxt) and nxt[0] == 'MICROSTEPPED'       # an event-less selection follows the unmatched event
        # unnamed internal events dropped <=> i.b is processed before the second external event
        evs = [t[3:] for g in o[2 + i].split(' ') for t in g.split(';') if t.startswith('EV:')]
        drop = 'i.b' in evs and 'p2.0' in evs and evs.index('i.b') < evs.index('p2.0')
        vec[e] = ('1' if recheck else '0') + ('1' if drop else '0')
    c.notes['defect_vector'] = {e: {'recheck_after_unmatched': vec[e][0] == '1', 'drop_unnamed_internal': vec[e][1] == '1'} for e in vec}
    # the variant read off the regenerated skeleton of step() must be the variant the code exhibits
    sk = kv(ask_model(['skeleton'])[0])
    c.notes['skeleton_variant'] = sk
    for e in vec:
        if sk.get(e) != vec[e][0]:
            mismatches.append({'kind': 'correspondence', 'what': 'the landmark sequence of %s::step() regenerated from the source corresponds to control-model variant recheck=%s, '
                               'the compiled code behaves as recheck=%s' % (e, sk.get(e), vec[e][0]), 'cmd': 'fifo-ctl %s %s %s' % (e, hexs(CHARTS['idle']), wit['recheck_script']),
                               'observed': o[('large', 'fast').index(e)], 'model': str(sk)})

    # ---- 2. control-flow correspondence: fifo-ctl vs StepCtl.cstep ------------------------------------------
    ctl_cases = []
    for k in corpus['ctl']:
        ctl_cases.append((k['chart'] if k['chart'].startswith('<') else CHARTS[k['chart']], k['script'].split(','), 'corpus'))
    nctl = 300 if quick else 4000
    for i in range(nctl):
        xml, script = gen_ctl_case(rng, unnamed=(i % 10 == 9))
        ctl_cases.append((xml, script, 'random'))
    lines = []
    for xml, script, _ in ctl_cases:
        for e in ('large', 'fast'):
            lines.append('fifo-ctl %s %s %s' % (e, hexs(xml), ','.join(script)))
    impl = ask_impl(lines)
    mlines, meta = [], []
    for j, line in enumerate(lines):
        xml, script, src = ctl_cases[j // 2]
        e = ('large', 'fast')[j % 2]
        if impl[j].startswith(('CRASH', 'EXC', 'ERR')):
            if not impl[j].startswith('CRASH'):     # (crashes are collected by ask_impl)
                mismatches.append({'kind': 'correspondence', 'what': 'driver error on a control-flow case', 'cmd': line, 'observed': impl[j][:300]})
            continue
        names = Names()
        ml, norm, toks = ctl_compare(e, xml, script, impl[j], vec[e], names)
        mlines.append(ml)
        # events without a name cannot be observed being processed: the oracle judges the named ones
        mlines.append('macro ' + (','.join(t for t in toks if t != 'R0') or '-'))
        meta.append((j, e, norm, toks, names))
    mout = ask_model(mlines)
    ctl_nontriv = set()
    for k, (j, e, norm, toks, names) in enumerate(meta):
        mo, macro = mout[2 * k], mout[2 * k + 1]
        mgroups = mo.split(' | ')[0].split(' ')
        flags = kv(mo.split(' | ')[1]) if ' | ' in mo else {}
        c.cov['evaluations'] += 1
        has_unnamed = any(t == 'R0' for t in toks)
        bump('ctl_cases')
        if any(t.startswith('I') for t in toks) and any(t.startswith('E') for t in toks):
            ctl_nontriv.add(lines[j])
            bump('ctl_with_internal_and_external')
        if has_unnamed:
            bump('ctl_with_unnamed_internal')
        if macro != '1':
            findings.append(('unnamed-internal-event' if has_unnamed else 'macrostep-order',
                             {'kind': 'oracle', 'oracle': 'macrostep_okb', 'engine': e, 'cmd': lines[j], 'observed': impl[j],
                              'tokens': ','.join(toks), 'names': names.ids,
                              'expected': 'internal events in raise order; an external event only when every raised internal event was processed',
                              'replay_cmd': replay_cmd(lines[j])}))
        if mgroups != norm:
            mismatches.append({'kind': 'correspondence', 'what': 'step() control flow: StepCtl.cstep (variant %s) vs %s engine' % (vec[e], e),
                               'cmd': lines[j], 'observed': ' '.join(norm), 'model': ' '.join(mgroups), 'replay_cmd': replay_cmd(lines[j])})
        if flags.get('q') == '0':
            bump('ctl_model_trace_not_quiescent')
        if len(samples) < 2 and k in (7, 8):
            samples.append({'cmd': lines[j][:300], 'impl': impl[j][:300], 'model': mo[:300]})

    # ---- 3. "no event-less transition enabled": gate charts whose enabledness is known by construction -----
    glines = []
    for g in corpus['gate']:
        for e in ('large', 'fast'):
            glines.append('fifo-ctl %s %s %s' % (e, hexs(g['chart']), g['script']))
    gout = ask_impl(glines)
    gm = []
    for j, line in enumerate(glines):
        g = corpus['gate'][j // 2]
        word = ''
        if gout[j].startswith(('EXC', 'CRASH', 'ERR')):
            c.notes.setdefault('gate_skipped', []).append(gout[j][:80])
            gm.append(None)
            continue
        for grp in gout[j].split(' '):
            t = grp.split(';')
            evs = [x[3:] for x in t if x.startswith('EV:')]
            taken = g['gate_token'] in t
            if evs and is_ext_name(evs[0]):
                word += 'x'
            if taken:
                word += 't'
            if evs and evs[0] == g['enable_event'] and not taken:
                word += 'e'
        gm.append(word)
    gres = ask_model(['gate ' + (w or '-') for w in gm if w is not None])
    gi = 0
    for j, w in enumerate(gm):
        if w is None:
            continue
        c.cov['evaluations'] += 1
        bump('gate_cases')
        if gres[gi] != '1':
            findings.append(('no-eventless-reselection',
                             {'kind': 'oracle', 'oracle': 'gate_okb', 'engine': ('large', 'fast')[j % 2], 'cmd': glines[j],
                              'chart': corpus['gate'][j // 2]['chart'], 'observed': gout[j], 'word': w,
                              'expected': 'the event-less transition (%s), enabled once event %s is bound to _event, is taken before the next external event is processed'
                                          % (corpus['gate'][j // 2]['gate_token'], corpus['gate'][j // 2]['enable_event']),
                              'replay_cmd': replay_cmd(glines[j])}))
        gi += 1

    # ---- 4. forced schedules: fifo-sched vs Fifo.frun -------------------------------------------------------
    cases = []    # (engine, mode, chart, counts, sched)
    for k in corpus['sched']:
        cases.append(tuple(k))
    # exhaustive at a bound on the number of context switches, a seeded sample beyond it
    cvs = count_vectors(3, 3)
    exh_blocks, deep_blocks, per = (4, 6, 10) if quick else (5, 8, 60)
    for cv in cvs:
        total = sum(cv)
        for mode in ('nb', 'blk'):
            nd = min(total + (1 if mode == 'nb' else 0), 6)
            words = enum_schedules(cv, nd, 99 if total <= 3 else exh_blocks)     # all interleavings when <= 3 events
            bump('sched_exhaustive_words', len(words))
            if total > 3:
                have = set(words)
                deep = [w for w in enum_schedules(cv, nd, deep_blocks) if w not in have] if (total <= 6 or not quick or len(cv) < 3) else []
                if not deep:
                    # too many to enumerate cheaply: draw random interleavings with the same multiset of operations
                    deep = list({''.join(rng.sample(list(w0), len(w0))) for w0 in [words[0]] for _ in range(per * 3)} - have)
                words = words + (rng.sample(deep, per) if len(deep) > per else deep)
            for w in words:
                e = rng.choice(['large', 'fast'])
                ch = rng.choice(['idle', 'raise', 'chain'])
                cases.append((e, mode, ch, ','.join(map(str, cv)), w))
    if not quick:
        for _ in range(400):
            npr = rng.randint(2, 10)
            cv = [rng.randint(1, 100) for _ in range(npr)]
            mode = rng.choice(['nb', 'blk'])
            cases.append((rng.choice(['large', 'fast']), mode, rng.choice(['idle', 'raise', 'chain']), ','.join(map(str, cv)),
                          random_schedule(rng, cv, rng.randint(0, 3) if mode == 'nb' else 0, rng.choice([1, 2, 5, 20]))))
    # model first: drop the schedules a single blocked consumer cannot produce
    mo = ask_model(['sched %s %s %s' % (m, cvs_, w) for (_, m, _, cvs_, w) in cases])
    keep = [(cs, kv(o_)) for cs, o_ in zip(cases, mo) if kv(o_).get('valid') == '1']
    bump('sched_unrealisable_dropped', len(cases) - len(keep))
    slines = ['fifo-sched %s %s %s %s 3000 %s' % (e, m, hexs(CHARTS[ch]), cvs_, w) for ((e, m, ch, cvs_, w), _) in keep]
    sout = ask_impl(slines)
    adm_lines, macro_lines, idx = [], [], []
    for j, (((e, m, ch, cvs_, w), mk), so) in enumerate(zip(keep, sout)):
        c.cov['evaluations'] += 1
        bump('sched_' + m)
        if so.startswith(('CRASH', 'EXC', 'ERR')):
            if not so.startswith('CRASH'):
                mismatches.append({'kind': 'correspondence', 'what': 'driver error', 'cmd': slines[j], 'observed': so})
            continue
        ik = kv(so)
        obs = lst(ik.get('obs'))
        ext = [x for x in obs if x.startswith('p')]
        names = Names()
        adm_lines.append('adm %s %s %s' % (cvs_, '1' if ik.get('done') == '1' else '0', ','.join(ext) or '-'))
        macro_lines.append('macro ' + (','.join(obs_tokens(obs, names)) or '-'))
        idx.append(j)
        # correspondence: the order of processing is the order of the enqueue critical sections; the scheduled
        # dequeues return what the model says
        md = lst(mk.get('deq'))
        idq = lst(ik.get('deq'))
        ok = (ext == lst(mk.get('order')) and idq[:len(md)] == md and all(x == '_' for x in idq[len(md):])
              and ik.get('stuck') == '0' and ik.get('done') == '1')
        if not ok and ik.get('rest', '-') != '-' and mk.get('left', '-') == '-':
            # the scheduled dequeues ran after the enqueues had completed and still left an event in the queue:
            # a polling consumer does not get an event that was handed in (the linearisation says it must)
            findings.append(('event-left-unprocessed', {'kind': 'oracle', 'oracle': 'Fifo.frun (linearisation of the forced schedule)', 'cmd': slines[j],
                                                        'observed': so[:2000], 'model': ' '.join('%s=%s' % kv_ for kv_ in mk.items())[:2000],
                                                        'expected': 'every dequeue scheduled after a completed enqueue returns the oldest queued event; none is left behind',
                                                        'replay_cmd': replay_cmd(slines[j])}))
        elif not ok:
            mismatches.append({'kind': 'correspondence', 'what': 'forced schedule: Fifo.frun vs BasicEventQueue under vd_sched',
                               'cmd': slines[j], 'observed': so[:2000], 'model': ' '.join('%s=%s' % kv_ for kv_ in mk.items())[:2000],
                               'replay_cmd': replay_cmd(slines[j])})
        if ik.get('stuck') == '1':
            bump('sched_stuck')
        if '_' in md:
            bump('sched_with_empty_dequeue')
        if m == 'blk' and sched_waits(w):
            bump('sched_with_waiting_dequeue')
    res = ask_model(adm_lines + macro_lines)
    sched_nontriv = set()
    for k, j in enumerate(idx):
        (e, m, ch, cvs_, w), mk = keep[j]
        if sched_nontrivial(w):
            sched_nontriv.add((e, m, ch, cvs_, w))
        if res[k] != '1':
            findings.append(('fifo-order', {'kind': 'oracle', 'oracle': 'fifo_admissibleb', 'cmd': slines[j], 'observed': sout[j][:3000],
                                            'expected': 'every event of every producer exactly once, each producer\'s events in sending order',
                                            'replay_cmd': replay_cmd(slines[j])}))
        if res[len(idx) + k] != '1':
            findings.append(('macrostep-order', {'kind': 'oracle', 'oracle': 'macrostep_okb', 'cmd': slines[j], 'observed': sout[j][:3000],
                                                 'expected': 'raised internal events are processed, in order, before the next external event',
                                                 'replay_cmd': replay_cmd(slines[j])}))
    if len(keep) > 5:
        samples.append({'cmd': slines[5][:200] + ' ... ' + slines[5][-40:], 'impl': sout[5][:300], 'model': mo[5][:300] if len(mo) > 5 else ''})

    # ---- 5. free running (oracle only): the queues created by InterpreterImpl::init and the tagged ones -----
    flines = []
    if quick:
        plan = [(e, m, ch, 4, 300, q) for e in ('large', 'fast') for m in ('nb', 'blk', 'tmo') for ch, q in (('idle', 'default'), ('raise', 'tagged'))]
    else:
        plan = [(e, m, ch, 16, 10000, q) for e in ('large', 'fast') for m in ('nb', 'blk', 'tmo') for ch, q in (('idle', 'default'), ('idle', 'tagged'))]
        plan += [(e, m, ch, 16, 2000, 'default') for e in ('large', 'fast') for m in ('nb', 'blk') for ch in ('raise', 'chain')]
        plan += [(rng.choice(['large', 'fast']), rng.choice(['nb', 'blk', 'tmo']), rng.choice(['idle', 'raise', 'chain']),
                  rng.randint(2, 16), rng.randint(1, 500), rng.choice(['default', 'tagged'])) for _ in range(200)]
    for e, m, ch, npr, cnt, q in plan:
        flines.append('fifo-free %s %s %s %d %d %s' % (e, m, hexs(CHARTS[ch]), npr, cnt, q))
    fout = ask_impl(flines, shards=4)
    judge_free(c, flines, fout, plan, ask_model, findings, mismatches, bump)

    # ---- 6. thorough: the same under ThreadSanitizer (supporting evidence for the atomicity assumption) -----
    if not quick and os.environ.get('VERIF_NO_TSAN') is None:
        try:
            tsan = ensure_vdriver('tsan', units=['vd_fifo'])
            tl = [l for l in slines if ' blk ' in l or ' nb ' in l][:200] + \
                 ['fifo-free %s %s %s 8 2000 %s' % (e, m, hexs(CHARTS[ch]), q) for e in ('large', 'fast') for m in ('nb', 'blk', 'tmo')
                  for ch, q in (('idle', 'default'), ('raise', 'tagged'))]
            env = dict(os.environ, TSAN_OPTIONS='halt_on_error=0 report_signal_unsafe=0 exitcode=0')
            reports = []
            outs = []
            for i in range(0, len(tl), 40):
                rc, o_, err = run_lines(tsan, tl[i:i + 40], env=env, timeout=3000)
                outs += o_
                reports += re.findall(r'WARNING: ThreadSanitizer: [^\n]*\n(?:.*\n){0,40}?(?=\n|=+\n)', err)
            # only the plain event queue is this property's subject (BasicDelayedEventQueue / teardown races are C09/C10)
            queue_reports = [r for r in reports if re.search(r'uscxml::BasicEventQueue::|uscxml::EventQueue::(enqueue|dequeue)', r)]
            c.notes['tsan'] = {'cases': len(tl), 'answers': len(outs), 'reports': len(reports), 'reports_in_event_queue': len(queue_reports),
                               'report_heads': sorted(set(r.split('\n')[0] + ' @ ' + (re.findall(r'#0 ([^\n]*)', r) or ['?'])[0][:120] for r in reports))[:12]}
            c.cov['evaluations'] += len(tl)
            if queue_reports:
                findings.append(('tsan-event-queue', {'kind': 'sanitizer', 'report': queue_reports[0][:3000],
                                                      'expected': 'no data race in BasicEventQueue (all_queue_ops_atomic)',
                                                      'replay_cmd': replay_cmd(tl[0], 'tsan')}))
        except BuildError as e:
            c.notes['tsan'] = {'error': str(e)[-800:]}

    # ---- coverage -------------------------------------------------------------------------------------------
    c.cov['distinct_nontrivial'] = len(sched_nontriv) + len(ctl_nontriv)
    c.cov['rule'] = ('forced schedules: corpus + for every count vector of <=3 producers x <=3 events, blocking and non-blocking step, <=6 scheduled dequeues: ALL interleavings '
                     'when <=3 events, else all interleavings with <=%d blocks (context switches + 1) and a seeded sample of deeper ones%s; non-trivial = distinct '
                     '(engine, mode, chart, counts, schedule) in which an enqueue critical section lies between two dequeue critical sections that follow '
                     'an enqueue (%d).  Control flow: corpus + %d random flat charts x random receive/step scripts on both engines; non-trivial = distinct case '
                     'in which both internal and external events were processed (%d).  Free running: %d runs judged by the oracles only.'
                     % (exh_blocks, '' if quick else ' + 400 random schedules of 2-10 producers x 1-100 events', len(sched_nontriv), nctl, len(ctl_nontriv), len(flines)))
    c.cov['input_distribution'] = hist
    c.cov['samples'] = samples
    c.cov['disagreements'] = len(mismatches)
    c.notes['mismatch_examples'] = mismatches[:6]
    c.cov['oracle_failures'] = len(findings)
    c.cov['exhaustive'] = True
    c.cov['exhaustive_scope'] = 'all interleavings for <=3 events in total and all interleavings with <=%d blocks for <=3 producers x <=3 events; sampled beyond' % exh_blocks

    # ---- classification ---------------------------------------------------------------------------------------
    for cr in crashes:
        c.violation({'kind': 'crash', 'cmd': cr['line'], 'rc': cr['rc'], 'stderr': cr['stderr'], 'replay_cmd': replay_cmd(cr['line'])})
    seen = set()
    for cls, payload in findings:
        f = c.match_known({'class': cls})
        if f:
            c.known(f['id'], f['what'])
            continue
        if cls in seen:
            continue
        seen.add(cls)
        payload = dict(payload)
        payload['class'] = cls
        c.violation(payload)
    # a defect switch that is on must be a listed finding or shows up above through its witness; record it
    for e in vec:
        if vec[e][0] == '0' and not any(cls == 'no-eventless-reselection' for cls, _ in findings):
            c.notes.setdefault('warnings', []).append('%s: recheck switch off but the gate witness did not fail (Lua datamodel missing?)' % e)
    if not findings:
        for m in mismatches[:3]:
            c.violation(m, no_input=True)
        for b in broken:
            c.violation({'kind': 'obligation', 'theorem': b['name'], 'why': b.get('why', '')}, no_input=True)
    else:
        for m in mismatches[:3]:
            log('correspondence mismatch (failing inputs reported above): %s' % json.dumps(m)[:400])
        for b in broken:
            if any(cls not in ('no-eventless-reselection', 'unnamed-internal-event') for cls, _ in findings):
                log('broken obligation %s (failing input reported above)' % b['name'])
            else:
                # the reported findings are unrelated to a broken proof obligation: it is its own violation
                c.violation({'kind': 'obligation', 'theorem': b['name'], 'why': b.get('why', '')}, no_input=True)
        if mismatches and all(cls in ('no-eventless-reselection', 'unnamed-internal-event') for cls, _ in findings):
            for m in mismatches[:3]:
                c.violation(m, no_input=True)
    return c.finish()


def judge_free(c, flines, fout, plan, ask_model, findings, mismatches, bump):
    adm, macro, idx = [], [], []
    for j, so in enumerate(fout):
        c.cov['evaluations'] += 1
        bump('free_runs')
        if so.startswith(('CRASH', 'EXC', 'ERR')):
            if not so.startswith('CRASH'):
                mismatches.append({'kind': 'correspondence', 'what': 'driver error', 'cmd': flines[j], 'observed': so[:500]})
            continue
        ik = kv(so)
        obs = lst(ik.get('obs'))
        ext = [x for x in obs if x.startswith('p')]
        e, m, ch, npr, cnt, q = plan[j]
        names = Names()
        adm.append('adm %s %s %s' % (','.join([str(cnt)] * npr), '1' if ik.get('done') == '1' else '0', ','.join(ext) or '-'))
        macro.append('macro ' + (','.join(obs_tokens(obs, names)) or '-'))
        idx.append(j)
        bump('free_events', len(ext))
        if ik.get('done') != '1':
            findings.append(('lost-event', {'kind': 'oracle', 'oracle': 'fifo_admissibleb(complete)', 'cmd': flines[j],
                                            'observed': 'processed %d of %d events' % (len(ext), npr * cnt),
                                            'expected': 'every event processed exactly once', 'replay_cmd': replay_cmd(flines[j])}))
    res = ask_model(adm + macro)
    for k, j in enumerate(idx):
        if res[k] != '1':
            findings.append(('fifo-order', {'kind': 'oracle', 'oracle': 'fifo_admissibleb', 'cmd': flines[j], 'observed': fout[j][:3000],
                                            'expected': 'every event exactly once, per-producer order', 'replay_cmd': replay_cmd(flines[j])}))
        if res[len(idx) + k] != '1':
            findings.append(('macrostep-order', {'kind': 'oracle', 'oracle': 'macrostep_okb', 'cmd': flines[j], 'observed': fout[j][:3000],
                                                 'expected': 'raised internal events processed in order before the next external event',
                                                 'replay_cmd': replay_cmd(flines[j])}))


def replay(path):
    r = json.load(open(path))
    print(json.dumps({k: v for k, v in r.items() if k not in ('stderr',)}, indent=1)[:6000])
    cmd = r.get('replay_cmd')
    if cmd:
        ensure_vdriver('hooks', units=['vd_fifo'])
        rc, out = sh(cmd)
        print(out[-6000:])
    return 0
