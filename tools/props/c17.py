"""C17 -- the Promela datamodel evaluates expressions with Promela's (C's) integer semantics."""
import itertools, json, os, sys, time
from vlib import *
sys.path.insert(0, os.path.join(ROOT, 'tools', 'translate'))
import pml_probe as P

NB = len(P.BINOPS)
CODE = {o: i for i, o in enumerate(P.BINOPS)}
SCOPE = [i for i, o in enumerate(P.BINOPS) if o not in ('PML_BITOR', 'PML_BITXOR', 'PML_BITAND')]
FLAGS = ['uminus_crash', 'div_unguarded', 'index_unguarded', 'no_short_circuit', 'field_meta_clobber',
         'undeclared_false', 'ord_rtl']
# defect switches in the order in which a failing input is attributed to them
SWITCHES = ['prec_table_not_C', 'ne_unsupported', 'op_unsupported'] + FLAGS
WHAT = {
    'prec_table_not_C': 'the compiled expression grammar does not order operators as C/Promela does (|| and && share a level, | ^ & share a level, unary minus binds like binary minus): `1 || 0 && 0` is 0',
    'ne_unsupported': '`!=` is parsed but evaluateExpr has no case for PML_NE: `3 != 4` raises error.execution',
    'op_unsupported': 'an operator of the property\'s set has no case in evaluateExpr',
    'uminus_crash': 'unary minus: the PML_MINUS case dereferences a second operand that does not exist: `- a` dies with SIGSEGV',
    'div_unguarded': '`/` and `%` do not look at the divisor: `7 / 0`, `7 % 0` (and INT_MIN / -1) die with SIGFPE',
    'index_unguarded': 'only `size <= index` is tested: a negative index (`a[0 - 1]`) appends elements until memory is exhausted; an array shorter than its declared size is read past its end',
    'no_short_circuit': '`&&` and `||` evaluate their right operand even when the left one decides: `0 && 1 / 0` faults instead of yielding 0',
    'field_meta_clobber': 'setVariable(CMPND) stores the keys "type" and "vis" among the fields of the value: after `x.type = 3; x.f = 4`, `x.type` reads "compound"',
    'undeclared_false': 'an undeclared variable evaluates to "false" instead of raising an error',
    'ord_rtl': 'operands are consumed right-to-left by this build (`f(*it++) - f(*it++)` is unsequenced): `10 - 3` is -7',
}


def hx(s):
    return s.encode('latin-1').hex() if s else '-'


# ---------------------------------------------------------------- expressions (prefix notation for vmodel)
def N(k): return ('n', k)
def V(x): return ('v', x)
def I(x, e): return ('i', x, e)
def F(x, *fs): return ('f', x, list(fs))
def NOT(e): return ('!', e)
def UM(e): return ('~', e)
def B(op, a, b): return ('b', CODE[op] if isinstance(op, str) else op, a, b)


def ser(e, out=None):
    out = [] if out is None else out
    k = e[0]
    if k == 'n': out.append('n%d' % e[1])
    elif k in 'TF': out.append(k)
    elif k == 'v': out.append('v' + hx(e[1]))
    elif k == 'i': out.append('i' + hx(e[1])); ser(e[2], out)
    elif k == 'f': out.append('f' + '.'.join(hx(x) for x in [e[1]] + e[2]))
    elif k in '!~': out.append(k); ser(e[1], out)
    else: out.append('b%d' % e[1]); ser(e[2], out); ser(e[3], out)
    return out


def it_decl(x): return ['D', hx(x)]
def it_init(x, e): return ['I', hx(x)] + ser(e)
def it_arr(x, n): return ['A', hx(x), str(n)]
def it_asgn(l, e): return ['='] + ser(l) + ser(e)
def it_incr(l): return ['+'] + ser(l)
def it_decr(l): return ['-'] + ser(l)
def it_eval(e): return ['E'] + ser(e)


def from_json(o):
    """corpus items: ["D","x"] / ["I","x",expr] / ["A","x",n] / ["=",lval,expr] / ["+",lval] / ["-",lval] / ["E",expr];
    expr: int | "T" | "F" | "name" | ["i","name",expr] | ["f","x","f",...] | ["!",e] | ["~",e] | ["||",e,e] ..."""
    def ex(j):
        if isinstance(j, int): return N(j)
        if j == 'T': return ('T',)
        if j == 'F': return ('F',)
        if isinstance(j, str): return V(j)
        if j[0] == 'i': return I(j[1], ex(j[2]))
        if j[0] == 'f': return F(*j[1:])
        if j[0] == '!' and len(j) == 2: return NOT(ex(j[1]))
        if j[0] == '~': return UM(ex(j[1]))
        sym = {v: k for k, v in P.SYM.items()}
        return B(sym[j[0]], ex(j[1]), ex(j[2]))
    k = o[0]
    if k == 'D': return it_decl(o[1])
    if k == 'I': return it_init(o[1], ex(o[2]))
    if k == 'A': return it_arr(o[1], o[2])
    if k == '=': return it_asgn(ex(o[1]), ex(o[2]))
    if k == '+': return it_incr(ex(o[1]))
    if k == '-': return it_decr(ex(o[1]))
    return it_eval(ex(o[1]))


def enum_exprs(leaves, ops, depth):
    """all expressions of depth <= depth: leaves; !e, -e, r[e]; e1 op e2"""
    level = list(leaves)
    for _ in range(depth - 1):
        nxt = list(leaves)
        for e in level:
            nxt.append(NOT(e)); nxt.append(UM(e)); nxt.append(I('r', e))
        for o in ops:
            for a in level:
                for b in level:
                    nxt.append(B(o, a, b))
        level = nxt
    return level


PRELUDE = [it_decl('z'), it_init('a', N(7)), it_arr('r', 3), it_asgn(I('r', N(1)), N(5)),
           it_decl('s'), it_asgn(F('s', 'f'), N(2)), it_asgn(F('s', 'g', 'h'), N(9))]


def rand_expr(rng, depth, ops):
    if depth <= 1 or rng.random() < 0.12:
        r = rng.random()
        if r < 0.30: return N(rng.choice([0, 1, 2, 3, 4, 5, 7, 8, 31, 32, 33, 100, 255, 65535, 65536, 2147483647, 2147483646]))
        if r < 0.36: return rng.choice([('T',), ('F',)])
        if r < 0.62: return V(rng.choice(['a', 'z', 'a', 'z', 'b', 'r', 's', 'zz']))
        if r < 0.80: return I(rng.choice(['r', 'r', 'r', 'a', 'zz']), rand_expr(rng, depth - 1, ops) if depth > 1 else N(rng.randint(0, 3)))
        return rng.choice([F('s', 'f'), F('s', 'g', 'h'), F('s', 'g'), F('s', 'x'), F('a', 'f'), F('zz', 'f')])
    r = rng.random()
    if r < 0.10: return NOT(rand_expr(rng, depth - 1, ops))
    if r < 0.18: return UM(rand_expr(rng, depth - 1, ops))
    return B(rng.choice(ops), rand_expr(rng, depth - 1, ops), rand_expr(rng, depth - 1, ops))


LOCS = [V('x'), V('y'), I('r', N(0)), I('r', N(1)), I('r', N(2)), F('s', 'f'), F('s', 'g', 'h'), F('s', 'g'), F('s', 'type'),
        I('r', V('x')), V('r'), V('s'), I('r', N(3)), I('r', B('PML_MINUS', N(0), N(1))), V('q'), I('x', N(0)), F('r', 'f')]


def stmt_menu():
    m = [it_decl('x'), it_init('y', N(4)), it_arr('r', 3), it_decl('s'), it_arr('q', 2)]
    for l in LOCS[:10]:
        m.append(it_asgn(l, N(6)))
        m.append(it_asgn(l, B('PML_PLUS', V('x'), N(1))))
    m += [it_incr(V('x')), it_decr(V('y')), it_incr(I('r', N(1))), it_incr(F('s', 'f')), it_asgn(V('x'), V('y')),
          it_asgn(V('r'), V('q')), it_asgn(V('x'), V('r')), it_asgn(V('s'), N(1)), it_asgn(V('x'), I('r', N(1))),
          it_asgn(I('r', N(2)), F('s', 'f')), it_asgn(F('s', 'f'), I('r', N(2))), it_init('w', B('PML_DIVIDE', N(1), V('x')))]
    return m


def reads():
    return [it_eval(l) for l in LOCS[:9]]


# ---------------------------------------------------------------- vectors
def table_str(t):
    if t == 'c':
        return 'c'
    return '%s:%s:%d:%d' % (','.join(str(t['level'][o]) for o in P.BINOPS),
                            ''.join('1' if o in t.get('rassoc', []) else '0' for o in P.BINOPS), t['neg'], t['umin'])


def variant_str(handles, vec):
    return ''.join('1' if handles[o] else '0' for o in P.BINOPS) + ':' + ''.join('1' if vec[f] else '0' for f in FLAGS)


class Vec:
    """table + variant of one instantiation of the model"""
    def __init__(self, table, handles, flags):
        self.table, self.handles, self.flags = table, dict(handles), dict(flags)

    def on(self):
        s = set()
        t = self.table
        if t != 'c' and not (t['level'] == P.C_LEVEL and not t.get('rassoc') and t['neg'] == 10 and t['umin'] == 10):
            s.add('prec_table_not_C')
        if not self.handles['PML_NE']:
            s.add('ne_unsupported')
        if any(not self.handles[P.BINOPS[i]] for i in SCOPE if P.BINOPS[i] != 'PML_NE'):
            s.add('op_unsupported')
        for f in FLAGS:
            if self.flags[f]:
                s.add(f)
        return s

    def without(self, sw):
        v = Vec(self.table, self.handles, self.flags)
        if sw == 'prec_table_not_C': v.table = 'c'
        elif sw == 'ne_unsupported': v.handles['PML_NE'] = True
        elif sw == 'op_unsupported':
            for i in SCOPE:
                if P.BINOPS[i] != 'PML_NE': v.handles[P.BINOPS[i]] = True
        else: v.flags[sw] = False
        return v

    def key(self):
        return table_str(self.table) + ' ' + variant_str(self.handles, self.flags)


# ---------------------------------------------------------------- running
def run_striped(exe, lines, timeout=3000):
    """run_lines_sharded with the lines dealt round-robin to the shards (crash-dense regions of the case list
    would otherwise make one shard the bottleneck)"""
    n = len(lines)
    if n < 64:
        return run_lines_sharded(exe, lines, timeout=timeout)
    k = NCPU
    size = (n + k - 1) // k
    order = []
    for sh in range(k):
        order += list(range(sh, n, k))
    # pad so that run_lines_sharded's contiguous chunks coincide with the stripes
    stripes = [list(range(sh, n, k)) for sh in range(k)]
    perm = []
    for st in stripes:
        perm += st + [None] * (size - len(st))
    while perm and perm[-1] is None:
        perm.pop()
    out, crashes = run_lines_sharded(exe, ['' if i is None else lines[i] for i in perm], shards=k, timeout=timeout)
    res = [None] * n
    for i, o in zip(perm, out):
        if i is not None:
            res[i] = o
    return res, crashes


def model_run(vmodel, cases, vecs):
    """cases: list of item lists; vecs: one Vec for all or a list. -> per case list of dicts"""
    lines = []
    for i, items in enumerate(cases):
        v = vecs[i] if isinstance(vecs, list) else vecs
        lines.append('case ' + v.key() + ' ' + ' ; '.join(' '.join(it) for it in items))
    out, crashes = run_striped(vmodel, lines)
    res = []
    for l in out:
        if l.startswith('EXC') or l.startswith('ERR ') or l.startswith('CRASH'):
            raise BuildError('vmodel (extract/pml) failed on a case: ' + l)
        its = []
        for f in l.split(';'):
            p = f.split('|')
            its.append({'kind': p[0], 'tmin': p[1], 'amin': p[2], 'omin': p[3], 'tfull': p[4], 'afull': p[5],
                        'ofull': p[6], 'orc': p[7], 'wt': p[8]})
        res.append(its)
    return res


def impl_run(vdriver, mres):
    lines = []
    for its in mres:
        for mode in ('tmin', 'tfull'):
            lines.append('pml-eval ' + ' '.join(it['kind'] + ':' + it[mode] for it in its))
    out, crashes = run_striped(vdriver, lines, timeout=1500)
    for k, its in enumerate(mres):
        for mode, l in (('imin', out[2 * k]), ('ifull', out[2 * k + 1])):
            toks = l.split()
            if len(toks) != len(its):
                toks = (toks + ['LOST'] * len(its))[:len(its)]
            for it, t in zip(its, toks):
                it[mode] = t
    return crashes


def died(t):
    return t.startswith('CRASH') or t in ('EXC', 'TIMEOUT', 'LOST')


def judge(orc, obs):
    """does the observed answer token satisfy the verdict of the reference semantics?"""
    if orc == 'ok': return obs == 'ok'
    if orc.startswith('V'): return obs == 'Vi:' + orc[1:]
    if orc in ('FAULT', 'ILL'): return obs == 'ERR'
    return not died(obs)     # UNSPEC: anything but a crash


def first_failure(its, key):
    """index of the first item whose answer contradicts the oracle (None if none); after the first item for
    which the reference has no definite answer only crash-freedom is judged"""
    strict = True
    for i, it in enumerate(its):
        obs = it[key]
        if obs == '-':
            return None
        orc = it['orc'] if strict else 'UNSPEC'
        if not judge(orc, obs):
            return i
        if not (it['orc'] == 'ok' or it['orc'].startswith('V')):
            if it['kind'] != 'x':
                strict = False
    return None


def text(it, mode):
    h = it['tmin' if mode == 'min' else 'tfull']
    return bytes.fromhex(h).decode('latin-1') if h != '-' else ''


def run(c):
    t0 = time.time()
    broken = c.prove()
    tr = c.notes.get('translators', {})
    vdriver = ensure_vdriver('hooks', units=['vd_pml'])
    vmodel = ensure_vmodel('pml')
    c.cov['trusted_base'] += [
        'reference semantics Pml.c_eval / c_exec_* (C int arithmetic as stated at the top of coq/theories/Pml.v; spin\'s short-circuit && ||)',
        'flex scanner promela.l and the rendering of tokens to text (extract/pml/driver.ml), the prefix notation of cases',
        'harness/vd_pml.cpp: worker process with address-space limit; SIGFPE/SIGSEGV/bad_alloc/timeout reported as outcomes',
        'tools/translate/pml_probe.py: reading of the AST dumps and of the witness answers into the table and the switch vector',
    ]
    c.assumptions += [
        'C int = 32-bit two\'s complement with wrapping + - * and unary minus; shifts by a count outside [0,31] are unspecified (only crash-freedom is required of them)',
        'the flex scanner (promela.l) is not modelled: program texts are token sequences separated by single blanks',
        'variables are of type int (no narrowing of byte/short/bit on assignment is modelled or required); names other than config, _x, _event, _sessionid, _name, _ioprocessors',
        'the reference semantics is that of an interpreter: an operand that `&&` / `||` do not evaluate is not inspected for undeclared names either',
        'statement forms: int x | int x = e | int x[n] | lval = e | lval++ | lval--, one per evaluateDecl/evaluateStmnt call; l-values x, x[e], x.f.g (a[i].f and a.f[i] are outside the model)',
        'x++ at INT_MAX: the reference wraps, the implementation computes in long (documented deviation, not exercised by the generators)',
    ]
    # 1. the implementation's vector: table from the probe of the compiled parser, switches from their witnesses
    pp = P.probe_parser()
    level, rassoc, neg, umin, problems = P.table_from_probe(pp)
    ev = P.probe_eval()
    if level is None or neg is None or umin is None:
        c.violation({'kind': 'obligation', 'what': 'the compiled parser could not be probed into an operator table', 'problems': problems}, no_input=True)
        return c.finish()
    table = {'level': level, 'rassoc': [o for o in P.BINOPS if rassoc[o]], 'neg': neg, 'umin': umin}
    impl = Vec(table, ev['handles'], ev['vector'])
    gen_meta = {'table': tr.get('tr_pmlprec', {}).get('table'), 'vector': tr.get('tr_pmleval', {}).get('vector'),
                'handles': tr.get('tr_pmleval', {}).get('handles')}
    c.notes['defect_vector'] = {'switches_on': sorted(impl.on()), 'table': table, 'handles_false': [o for o in P.BINOPS if not ev['handles'][o]],
                                'witness_answers': ev['witness'], 'table_probe_problems': problems,
                                'ypp_mismatch': tr.get('tr_pmlprec', {}).get('ypp_mismatch'),
                                'translator_fallback': [tr.get(k, {}).get('translator_fallback') for k in ('tr_pmlprec', 'tr_pmleval')]}
    rc, o, e = run_lines(vmodel, ['tableisc gen', 'tableisc ' + table_str(table)])
    c.notes['defect_vector']['table_is_C(gen_table)'] = o[0]
    gen_consistent = (o[0] == o[1] and gen_meta['table'] is not None and gen_meta['table'].get('level') == level
                      and gen_meta['vector'] == ev['vector'] and gen_meta['handles'] == ev['handles'])
    c.notes['defect_vector']['gen_files_match_witnesses'] = gen_consistent

    # 2. cases
    rng = c.rng
    quick = c.tier == 'quick'
    cases, cls = [], []
    corpus = json.load(open(os.path.join(ROOT, 'corpus', 'c17.json')))
    for cs in corpus['cases']:
        cases.append([from_json(i) for i in cs['items']]); cls.append('corpus')
    ncorpus = len(cases)
    # exhaustive: all expressions of depth <= 3 over {2, a (=7), z (=0)}, r[.], the 15 operators of the property
    leaves = [N(2), V('a'), V('z')]
    ex3 = enum_exprs(leaves, SCOPE, 3)
    d3 = float(os.environ.get('C17_D3', '1.0'))     # fraction of the depth-3 expressions (1.0 = all of them)
    if d3 < 1.0:
        ex2 = enum_exprs(leaves, SCOPE, 2)
        s2 = set(map(repr, ex2))
        ex = ex2 + [e for e in ex3 if repr(e) not in s2 and rng.random() < d3]
    else:
        ex = ex3
    BATCH = 40
    for i in range(0, len(ex), BATCH):
        cases.append(PRELUDE + [it_eval(e) for e in ex[i:i + BATCH]]); cls.append('exhaustive-expr')
    nex = len(ex)
    # all operators of the grammar (incl. | ^ &) for the parser: depth <= 2 over {1, a} exhaustively, depth 3 sampled
    pe2 = enum_exprs([N(1), V('a')], range(NB), 2)
    pe3 = enum_exprs([N(1)], range(NB), 3)
    psel = pe2 + [e for e in pe3 if rng.random() < (0.15 if quick else 1.0)]
    for i in range(0, len(psel), BATCH):
        cases.append(PRELUDE[:2] + [it_eval(e) for e in psel[i:i + BATCH]]); cls.append('exhaustive-parse')
    npar = len(psel)
    # random deeper expressions
    nrand = 20000 if quick else 400000
    rex = [rand_expr(rng, rng.randint(3, 6), SCOPE if rng.random() < 0.9 else list(range(NB))) for _ in range(nrand)]
    for i in range(0, nrand, BATCH):
        cases.append(PRELUDE + [it_eval(e) for e in rex[i:i + BATCH]]); cls.append('random-expr')
    # statement sequences: all sequences of <= 2 (quick) / 3 (thorough, sampled) menu statements after a fixed
    # declaration prefix, each followed by reads of every location; random longer ones
    menu = stmt_menu()
    pre = [it_decl('x'), it_arr('r', 3), it_decl('s')]
    nseq = 0
    for k in (1, 2, 3):
        for seq in itertools.product(range(len(menu)), repeat=k):
            if k == 3 and rng.random() > (0.02 if quick else 0.5):
                continue
            items = list(pre)
            for j in seq:
                items.append(menu[j])
            cases.append(items + reads()); cls.append('stmt-seq'); nseq += 1
    nrs = 3000 if quick else 60000
    for _ in range(nrs):
        items = []
        for _ in range(rng.randint(2, 8)):
            r = rng.random()
            if r < 0.25: items.append(rng.choice(menu[:5]))
            elif r < 0.75:
                l = rng.choice(LOCS)
                if l == LOCS[13] and rng.random() < 0.8:
                    l = LOCS[3]
                items.append(it_asgn(l, rand_expr(rng, rng.randint(1, 3), SCOPE)))
            elif r < 0.85: items.append(rng.choice([it_incr, it_decr])(rng.choice(LOCS)))
            else: items.append(it_eval(rng.choice(LOCS)))
        cases.append(items + reads()); cls.append('random-stmt')
    log('C17: %d cases generated (%.1fs)' % (len(cases), time.time() - t0))

    # 3. run model (instantiated with the implementation's vector) and implementation
    mres = model_run(vmodel, cases, impl)
    log('C17: model done (%.1fs)' % (time.time() - t0))
    crashes = impl_run(vdriver, mres)
    # an answer that differs from the prediction is asked for a second time (alone, unloaded machine state):
    # EXC / TIMEOUT depend on the memory and time limits of the worker; what differs twice counts
    sus = [ci for ci, its in enumerate(mres)
           if any(it['omin'] not in ('UB', 'UNMODELLED') and it['omin'] != it['imin'] for it in its)
           or any(it['ofull'] not in ('UB', 'UNMODELLED') and it['ofull'] != it['ifull'] for it in its)]
    flaky = []
    if 0 < len(sus) <= 2000:
        first = [[(it['imin'], it['ifull']) for it in mres[ci]] for ci in sus]
        sub = [mres[ci] for ci in sus]
        impl_run(vdriver, sub)
        for ci, old in zip(sus, first):
            new = [(it['imin'], it['ifull']) for it in mres[ci]]
            if new != old:
                flaky.append({'case': ci, 'first': [o for o, n in zip(old, new) if o != n][:2], 'second': [n for o, n in zip(old, new) if o != n][:2]})
    c.notes['answers_that_changed_on_repetition'] = {'count': len(flaky), 'samples': flaky[:3]}
    log('C17: implementation done (%.1fs)' % (time.time() - t0))
    # the public entry points the interpreter uses (<assign> -> assign(), cond -> evalAsBool(), expr -> evalAsData())
    # on every 7th case: same answers as the protected evaluateStmnt / evaluateExpr entry points are predicted
    api_lines, api_exp = [], []
    for ci in range(0, len(mres), 7):
        its = mres[ci]
        for tk, ok in (('tmin', 'omin'), ('tfull', 'ofull')):
            toks, exp = [], []
            for it in its:
                txt = bytes.fromhex(it[tk]).decode('latin-1') if it[tk] != '-' else ''
                if it['kind'] == 'x':
                    toks.append('e:' + it[tk]); exp.append(it[ok])
                    toks.append('b:' + it[tk])
                    # evalAsBool: false iff the atom of the result is "false" or "0"
                    exp.append(('B0' if it[ok][1:].split('[')[0].split('{')[0] in ('i:0', 'i:false', 'v:0', 'v:false') else 'B1')
                               if it[ok].startswith('V') else it[ok])
                elif it['kind'] == 's' and ' = ' in txt:
                    l, r = txt.split(' = ', 1)
                    toks.append('a:%s:%s' % (hx(l), hx(r))); exp.append(it[ok])
                else:
                    toks.append(it['kind'] + ':' + it[tk]); exp.append(it[ok])
            api_lines.append('pml-eval ' + ' '.join(toks)); api_exp.append(exp)
    api_out, api_cr = run_striped(vdriver, api_lines, timeout=1500)
    api_dis = []
    for line, exp, out in zip(api_lines, api_exp, api_out):
        got = out.split()
        for k, (e1, g1) in enumerate(zip(exp, got)):
            if e1 in ('UB', 'UNMODELLED') or (e1 == '-' and g1 == '-'):
                break
            if e1 != g1:
                api_dis.append((line, k, e1, g1))
                break
    log('C17: public API pass done (%.1fs)' % (time.time() - t0))
    # AST dumps of every distinct program text
    texts = {}
    for its in mres:
        for it in its:
            texts.setdefault(it['tmin'], it['amin'])
            texts.setdefault(it['tfull'], it['afull'])
    tl = sorted(texts)
    aout, acr = run_striped(vdriver, ['pml-ast ' + t for t in tl])
    ast_dis = [(t, texts[t], a) for t, a in zip(tl, aout) if texts[t] != a and texts[t] != 'UNMODELLED']
    log('C17: AST dumps done (%.1fs)' % (time.time() - t0))

    nitems = sum(len(x) for x in mres)
    c.cov['evaluations'] = 2 * nitems + len(tl) + sum(len(e) for e in api_exp)
    hist = {'items': nitems, 'expr_items': 0, 'wt_expr': 0, 'oracle_V': 0, 'oracle_FAULT': 0, 'oracle_ILL': 0, 'oracle_UNSPEC': 0,
            'oracle_ok': 0, 'impl_ERR': 0, 'impl_died': 0, 'min_ne_full_text': 0, 'distinct_texts': len(tl)}
    nontriv = set()
    disagree, fails = [], []
    unmod = 0
    ub = 0
    for ci, its in enumerate(mres):
        for it in its:
            if it['kind'] == 'x':
                hist['expr_items'] += 1
                if it['wt'] == '1': hist['wt_expr'] += 1
            k = 'oracle_' + ('V' if it['orc'].startswith('V') else it['orc'])
            hist[k] = hist.get(k, 0) + 1
            if it['imin'] == 'ERR': hist['impl_ERR'] += 1
            if died(it['imin']): hist['impl_died'] += 1
            if it['tmin'] != it['tfull']: hist['min_ne_full_text'] += 1
            if it['kind'] == 'x' and it['wt'] == '1' and len(it['tmin']) > 2:
                nontriv.add(it['tmin'])
        for mode, mk, ik in (('min', 'omin', 'imin'), ('full', 'ofull', 'ifull')):
            for i, it in enumerate(its):
                if it[mk] == 'UNMODELLED':
                    unmod += 1
                    break
                if it[mk] == 'UB':      # the model says an uninitialised value is read: no prediction from here on
                    ub += 1
                    break
                if it[ik] == '-' and it[mk] == '-':
                    break
                if it[mk] != it[ik]:
                    disagree.append((ci, i, mode))
                    break
            ff = first_failure(its, ik)
            if ff is not None:
                fails.append((ci, ff, mode))
    c.cov['distinct_nontrivial'] = len(nontriv)
    c.cov['rule'] = ('corpus (%d cases) + ALL expressions of depth <= 3 over {2, a=7, z=0, r[.]} x {! - unary, 15 binary operators}%s (%d) '
                     '+ expressions over all 18 grammar operators for the parser (%d) + %d seeded random expressions of depth 3..6 '
                     '(arrays, fields, undeclared names, INT_MAX) + %d exhaustive and %d random declaration/assignment sequences each followed by '
                     'reads of every location; every text in minimal and in full parenthesisation; every text also through pml-ast; '
                     'non-trivial = distinct well-typed expression text with at least one operator') % (
        ncorpus, ' (C17_D3 set: depth <= 2 completely, depth 3 sampled)' if d3 < 1.0 else '', nex, npar, nrand, nseq, nrs)
    c.cov['exhaustive'] = d3 >= 1.0
    c.cov['input_distribution'] = hist
    c.cov['disagreements_model_vs_impl'] = len(disagree)
    c.cov['ast_disagreements'] = len(ast_dis)
    c.cov['public_api_lines'] = len(api_lines)
    c.cov['public_api_disagreements'] = len(api_dis)
    c.cov['oracle_failures'] = len(fails)
    c.cov['unmodelled'] = unmod
    c.cov['undefined_behaviour_predicted'] = ub
    c.cov['samples'] = []
    for ci in [ncorpus + 3, len(mres) // 2, len(mres) - 1]:
        its = mres[min(ci, len(mres) - 1)]
        c.cov['samples'].append({'class': cls[min(ci, len(mres) - 1)], 'program': [text(it, 'min') for it in its][-3:],
                                 'impl': [it['imin'] for it in its][-3:], 'model': [it['omin'] for it in its][-3:],
                                 'oracle': [it['orc'] for it in its][-3:]})

    def replay_cmd(its, upto, mode):
        return "echo 'pml-eval %s' | %s" % (' '.join(
            it['kind'] + ':' + it['tmin' if mode == 'min' else 'tfull'] for it in its[:upto + 1]), vdriver)

    # 4. attribute every oracle failure to the defect switches that explain it
    classes = {}
    if fails:
        on = [s for s in SWITCHES if s in impl.on()]
        # reduce each failing case to its state-building items plus the failing item
        red = []
        for ci, i, mode in fails:
            items = [it for j, it in enumerate(cases[ci][:i]) if mres[ci][j]['kind'] != 'x'] + [cases[ci][i]]
            red.append(items)
        ok_key = {'min': 'omin', 'full': 'ofull'}

        def satisfied(vecs):
            r = model_run(vmodel, red, vecs)
            return [first_failure(its, ok_key[fails[k][2]]) is None for k, its in enumerate(r)]
        cur = []
        for _ in fails:
            v = impl
            for s in on:
                v = v.without(s)
            cur.append(v)
        okfixed = satisfied(cur)
        need = [set(on) for _ in fails]
        for s in on:            # re-enable one switch at a time where the oracle stays satisfied
            trial = []
            for k in range(len(fails)):
                v = impl
                for s2 in need[k] - {s}:
                    v = v.without(s2)
                trial.append(v)
            ok = satisfied(trial)
            for k in range(len(fails)):
                if okfixed[k] and ok[k]:
                    need[k].discard(s)
        for k, (ci, i, mode) in enumerate(fails):
            label = '+'.join(s for s in SWITCHES if s in need[k]) if okfixed[k] else 'unexplained'
            if label == '':
                # the model instantiated with the implementation's own vector satisfies the oracle here: the
                # implementation deviates from its model in a way no switch describes
                label = 'unmodelled-deviation'
            its = mres[ci]
            size = (len(its[i]['tmin']) + sum(len(x['tmin']) for j, x in enumerate(its[:i]) if x['kind'] != 'x'), its[i]['tmin'])
            if label not in classes or size < classes[label][0]:
                classes[label] = (size, ci, i, mode)
            classes.setdefault('#' + label, 0)
            classes['#' + label] += 1
    c.cov['failure_classes'] = {k[1:]: v for k, v in classes.items() if k.startswith('#')}

    # shrink the representative of each class: drop state-building items while the same item still fails the same way
    shrunk = {}
    for label, val in classes.items():
        if label.startswith('#'):
            continue
        size, ci, i, mode = val
        ik, mk = ('imin', 'omin') if mode == 'min' else ('ifull', 'ofull')
        items = [it for j, it in enumerate(cases[ci][:i]) if mres[ci][j]['kind'] != 'x'] + [cases[ci][i]]
        obs0, orc0 = mres[ci][i][ik], mres[ci][i]['orc']
        changed = True
        while changed and len(items) > 1:
            changed = False
            for d in range(len(items) - 1):
                cand = items[:d] + items[d + 1:]
                r = model_run(vmodel, [cand], impl)
                impl_run(vdriver, r)
                if first_failure(r[0], ik) == len(cand) - 1 and r[0][-1][ik] == obs0 and r[0][-1]['orc'] == orc0:
                    items = cand
                    changed = True
                    break
        r = model_run(vmodel, [items], impl)
        impl_run(vdriver, r)
        shrunk[label] = r[0]

    # 5. report
    for cr in crashes + acr + api_cr:
        c.violation({'kind': 'crash-of-driver', 'rc': cr[1], 'stderr': cr[2], 'what': 'vdriver itself died (the worker isolation did not contain it)'})
    for label, val in sorted(classes.items()):
        if label.startswith('#'):
            continue
        size, ci, i, mode = val
        its = shrunk[label]
        i = len(its) - 1
        parts = label.split('+')
        kf = [c.match_known({'class': p}) for p in parts] if label not in ('unexplained', 'unmodelled-deviation') else [None]
        if all(kf):
            for f in kf:
                c.known(f['id'], f['what'])
            continue
        prog = [text(x, mode) for j, x in enumerate(its[:i + 1]) if x['kind'] != 'x' or j == i]
        c.violation({'kind': 'oracle', 'class': label, 'what': '; '.join(WHAT.get(p, p) for p in parts),
                     'program': prog, 'parenthesisation': mode, 'failing_item': prog[-1],
                     'expected_by_c_eval': its[i]['orc'], 'observed': its[i]['imin' if mode == 'min' else 'ifull'],
                     'model_predicted': its[i]['omin' if mode == 'min' else 'ofull'],
                     'count_of_failing_inputs_in_class': classes['#' + label],
                     'replay_cmd': replay_cmd(its, i, mode)})
    # switches that are on but were not exhibited by a failing input would be a gap in the corpus
    exhibited = set()
    for label in classes:
        if not label.startswith('#'):
            exhibited |= set(label.split('+'))
    for s in impl.on() - exhibited:
        if s == 'ord_rtl' or c.match_known({'class': s}):
            continue
        c.violation({'kind': 'switch-without-failing-input', 'class': s, 'what': WHAT[s], 'witness_answers': ev['witness']}, no_input=True)
    if not fails:
        if disagree:
            ci, i, mode = disagree[0]
            its = mres[ci]
            c.violation({'kind': 'correspondence', 'program': [text(x, mode) for x in its[:i + 1]],
                         'model': its[i]['omin' if mode == 'min' else 'ofull'], 'observed': its[i]['imin' if mode == 'min' else 'ifull'],
                         'count': len(disagree), 'vector': c.notes['defect_vector']['switches_on'],
                         'what': 'the model Pml.eval_impl instantiated with the implementation\'s vector and the implementation differ; the reference semantics accepts the implementation\'s answer',
                         'replay_cmd': replay_cmd(its, i, mode)}, no_input=True)
        if ast_dis:
            t, m, a = ast_dis[0]
            c.violation({'kind': 'correspondence-ast', 'text': bytes.fromhex(t).decode('latin-1'), 'model': m, 'observed': a, 'count': len(ast_dis),
                         'replay_cmd': "echo 'pml-ast %s' | %s" % (t, vdriver)}, no_input=True)
        if api_dis:
            line, k, e1, g1 = api_dis[0]
            c.violation({'kind': 'correspondence-public-api', 'item_index': k, 'model': e1, 'observed': g1, 'count': len(api_dis),
                         'what': 'assign()/evalAsData()/evalAsBool() answer differently from what the model predicts',
                         'replay_cmd': "echo '%s' | %s" % (line, vdriver)}, no_input=True)
        if not gen_consistent:
            c.violation({'kind': 'obligation', 'what': 'coq/gen/GenPmlPrec.v / GenPmlEval.v do not carry the vector observed by the witnesses', 'gen': gen_meta,
                         'observed': {'table': table, 'vector': ev['vector']}}, no_input=True)
        for b in broken:
            c.violation({'kind': 'obligation', 'theorem': b['name'], 'why': b.get('why', '')}, no_input=True)
    else:
        for b in broken:
            log('broken obligation %s (failing inputs reported above)' % b['name'])
        if disagree:
            log('C17: %d model/implementation disagreements (first: %s)' % (len(disagree), disagree[0]))
            ci, i, mode = disagree[0]
            c.notes['first_disagreement'] = {'program': [text(x, mode) for x in mres[ci][:i + 1]], 'model': mres[ci][i]['omin' if mode == 'min' else 'ofull'],
                                             'observed': mres[ci][i]['imin' if mode == 'min' else 'ifull']}
        if api_dis:
            c.notes['first_public_api_disagreement'] = {'line': api_dis[0][0][:300], 'item': api_dis[0][1], 'model': api_dis[0][2], 'observed': api_dis[0][3]}
        if ast_dis:
            c.notes['first_ast_disagreement'] = {'text': bytes.fromhex(ast_dis[0][0]).decode('latin-1'), 'model': ast_dis[0][1], 'observed': ast_dis[0][2]}
    return c.finish()
