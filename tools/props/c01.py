"""C01 -- the interpreter (large engine) follows the W3C SCXML step algorithm on every chart."""
import sys, os
from vlib import *
from chart_common import *
from chart_runs import *
from chart_eval import *

SWITCH_NAMES = ['exit_interval_overreach', 'targetless_exits_root', 'history_of_active_parent', 'if_bracket_left_open_on_nested_error']


def run(c):
    broken = c.prove()
    vflags, notes = detect_vflags(c)
    c.notes['defect_switches'] = notes
    cases = build_cases(c)
    res = run_cases(c, cases, 'sem', vflags=vflags)
    c.assumptions += [
        'Spec.v is a faithful reading of W3C SCXML 1.0 Appendix D (reading choices: DESIGN.md Appendix B)',
        'transition conditions of the generated charts are error-free; each is evaluated at most once per selection in Spec.v',
        'integer values beyond 2^30 are not compared (Lua/Promela number representation is outside the model)',
        'expressions are rendered into each datamodel by tools/chartgen.py; the datamodels evaluate them as the abstract integer datamodel does',
    ]
    disagreements, oracle = [], {}
    # hypotheses of run_conforms (static_okb, run_guardb, run_completeb), evaluated by the extracted definitions on
    # every case: where they hold the theorem says the Large model's run IS the Appendix-D run, so a deviation of the
    # implementation there cannot be one of the recorded deviation classes
    reach = theorem_reach(c, cases, vflags, want=('runguard',))
    guarded = [all(r.get('run', (False,))) or r.get('runi', (False, False))[1] or r.get('runh', (False, False))[1] or r.get('runp', False) for r in reach]   # run_conforms / _initial / _history_partial / the prefix theorem (runs cut by the step bound)
    nontriv = set()
    hist = {'microsteps>1': 0, 'uses_history': 0, 'parallel': 0, 'multi_target': 0, 'by_origin': {}, 'by_dm': {}}
    for i, case in enumerate(cases):
        il, ml, sl = res['large'][i], res['model'][i], res['spec'][i]
        o = case['origin'].split('(')[0].split(':')[0]
        hist['by_origin'][o] = hist['by_origin'].get(o, 0) + 1
        hist['by_dm'][case['dm']] = hist['by_dm'].get(case['dm'], 0) + 1
        ti = canon(il)[0]
        nms = sum(1 for t in ti if t == 'MS{')
        if nms > 1:
            hist['microsteps>1'] += 1
            nontriv.add(hash((G.sx_tree(case['tree']), tuple(case['events']))))
        sx = G.sx_tree(case['tree'])
        if '(N hs' in sx or '(N hd' in sx:
            hist['uses_history'] += 1
        if '(N parallel' in sx:
            hist['parallel'] += 1
        if il.startswith('CRASH'):
            oracle.setdefault('crash', []).append(i)
            continue
        ok, d = corr_equal(il, ml)
        if not ok:
            disagreements.append(i)
        sc = spec_compare(il, sl)
        if sc is not None:
            # a deviation from Appendix D is a *known* one only if the implementation behaves exactly as the
            # Large model (which documents the engine's selection algorithm) and the microstep is in a listed class
            cls = sc[0] if ok else sc[0] + '+model-disagrees'
            if guarded[i]:
                cls += '+inside-run_conforms'
            oracle.setdefault(cls, []).append(i)
    # ---- the conflict caches (LargeCache.v): contents after the run, implementation vs extracted model
    vdc = ensure_vdriver('hooks', units=['vd_run', 'vd_cache'])
    vmc = ensure_vmodel('chart')
    cidx = [i for i, x in enumerate(cases) if x['origin'].split('(')[0].split(':')[0] in ('corpus', 'regions', 'exhaustive3', 'random-null')
            and not res['large'][i].startswith('CRASH')]
    ci, _ = run_lines_sharded(vdc, ['cache %s %d %s' % (G.to_scxml(cases[i]['tree'], cases[i]['dm'], cases[i]['late']).encode('latin-1').hex(), FUEL,
                                                      ' '.join(G.hx(e) for e in cases[i]['events'])) for i in cidx], timeout=1500)
    cm, _ = run_lines_sharded(vmc, ['cache %s %d %d %s (%s)' % (vflags, 1 if cases[i]['late'] else 0, FUEL, G.sx_tree(cases[i]['tree']),
                                                              ' '.join(G.hx(e) for e in cases[i]['events'])) for i in cidx], timeout=1500)
    cache_bad = [i for i, a, b in zip(cidx, ci, cm) if a.strip() != b.strip() and i not in disagreements]
    c.cov['cache_contents_compared'] = len(cidx)
    c.cov['cache_contents_nonempty'] = sum(1 for a in ci if a.strip() != 'K compat= confl=')
    c.cov['cache_disagreements'] = len(cache_bad)
    c.cov['evaluations'] = 3 * len(cases) + 2 * len(cidx)
    c.cov['distinct_nontrivial'] = len(nontriv)
    c.cov['rule'] = ('corpus of defect witnesses + all trees with <=3 (thorough: <=4) proper states x pairs of transitions from a menu '
                     '(sampled deterministically to a cap) x event words <=2 over {e,f} (null datamodel) + the region family (<parallel> with three regions x 6 region shapes x 3 event descriptors, outside state before or after, primed event words; quick: every 2nd chart) + seeded random charts with history, '
                     '<initial>, parallel, executable content (lua, promela, null); each run on the implementation (large engine), on the '
                     'extracted Large model and on the extracted Appendix-D specification; non-trivial = distinct (chart, history) whose run '
                     'takes at least one microstep after the initial one')
    c.cov['input_distribution'] = hist
    c.cov['samples'] = [{'origin': cases[i]['origin'], 'events': [e.decode() for e in cases[i]['events']], 'scxml': G.to_scxml(cases[i]['tree'], cases[i]['dm'])[:600],
                         'impl_trace': res['large'][i][:400]} for i in (len(cases) // 3, len(cases) - 1)]
    c.cov['model_disagreements'] = len(disagreements)
    c.cov['run_conforms_reach'] = {'cases': len(cases), 'static_okb': sum(1 for r in reach if r.get('run', (False,))[0]),
                                   'static+guard': sum(1 for r in reach if all(r.get('run', (False,))[:2])),
                                   'static+guard+complete (run_conforms applies)': sum(1 for r in reach if all(r.get('run', (False,)))),
                                   'static_ib': sum(1 for r in reach if r.get('runi', (False,))[0]),
                                   'static_hb': sum(1 for r in reach if r.get('runh', (False,))[0]),
                                   'run_conforms, run_conforms_initial or run_conforms_history_partial applies (complete runs)': sum(1 for r in reach if all(r.get('run', (False,))) or r.get('runi', (False, False))[1] or r.get('runh', (False, False))[1]),
                                   'some run theorem applies (incl. run_conforms_prefix_history_partial for runs cut by the step bound)': sum(1 for g in guarded if g),
                                   'of those with >1 microstep': sum(1 for i, g in enumerate(guarded) if g and sum(1 for t in canon(res['large'][i])[0] if t == 'MS{') > 1)}
    c.cov['appendix_d_deviations'] = {k: len(v) for k, v in oracle.items()}
    # defect switches
    for idx, ch in enumerate(vflags):
        if ch == '1':
            f = c.match_known({'switch': SWITCH_NAMES[idx]})
            if f:
                c.known(f['id'], f['what'])
            else:
                import witnesses as W
                name, tree, events = W.SWITCH_WITNESSES[idx]
                c.violation(case_replay(c, {'tree': tree, 'events': events, 'dm': 'null', 'late': False, 'origin': 'witness:' + name},
                                        {'kind': 'defect-switch', 'switch': name, 'what': 'the implementation shows the defect this witness distinguishes'}))
    for cls, idxs in sorted(oracle.items()):
        f = c.match_known({'class': cls})
        if f:
            c.known(f['id'], f['what'] + ' (%d cases this run)' % len(idxs))
            continue
        i = shrink_order(idxs, cases)[0]
        sc = spec_compare(res['large'][i], res['spec'][i]) if not res['large'][i].startswith('CRASH') else ('crash', 0, [], [], {}, {})
        p = sc[1] or 0
        c.violation(case_replay(c, cases[i], {'kind': 'oracle', 'class': cls, 'count': len(idxs),
                                              'expected_by_Spec': ' '.join(sc[3][max(0, p - 10):p + 10]),
                                              'observed': ' '.join(sc[2][max(0, p - 10):p + 10]), 'data': [sc[4], sc[5]]}))
    if disagreements and not any(k.endswith('+model-disagrees') for k in oracle):
        i = shrink_order(disagreements, cases)[0]
        ok, d = corr_equal(res['large'][i], res['model'][i])
        p = d[0] or 0
        c.violation(case_replay(c, cases[i], {'kind': 'correspondence', 'count': len(disagreements),
                                              'what': 'Large.large_step (variant %s) and the implementation differ; on these inputs the implementation still agrees with Spec' % vflags,
                                              'model': ' '.join(d[2][max(0, p - 8):p + 8]), 'observed': ' '.join(d[1][max(0, p - 8):p + 8])}), no_input=True)
    if cache_bad and not disagreements:
        i = shrink_order(cache_bad, cases)[0]
        k = cidx.index(i)
        c.violation(case_replay(c, cases[i], {'kind': 'correspondence', 'count': len(cache_bad),
                                              'what': 'the compatible/conflicting sets of LargeMicroStep after the run differ from LargeCache.v (the traces agree)',
                                              'model': cm[k], 'observed': ci[k]}), no_input=True)
    only_known = all(c.match_known({'class': k}) for k in oracle)
    if broken and (not oracle or only_known):
        for b in broken:
            c.violation({'kind': 'obligation', 'theorem': b['name'], 'why': b.get('why', '')}, no_input=True)
    return c.finish()
