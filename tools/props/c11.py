"""C11 -- invoked sessions start, communicate and stop as specified.

Model: coq/theories/Invoke.v (bookkeeping at macrostep end, parent/child small-step system over the
plain bool flags of USCXMLInvoker, target routing).  Theorems: coq/props/Properties_C11.v.
Correspondence: parent/child chart pairs run by harness/vd_invoke.cpp under forced schedules
(vd_sched.h), judged by the extracted oracle invoke_protocolb and compared with the model's prediction."""
import hashlib, itertools, json, os, re, sys
from vlib import *

WORK = os.path.join(BUILD, 'c11-work')
NS = 'xmlns="http://www.w3.org/2005/07/scxml" version="1.0"'
W = 3                      # bound on the child's microsteps per macrostep in the model runs

# ------------------------------------------------------------------------------------- chart pairs

def child_chart(shape, trig):
    """shape: ('early',) ('early_send',) ('late', j) ('never', j) ; trig: event that advances the child"""
    kind = shape[0]
    if kind == 'early':
        return '<scxml %s initial="cf"><final id="cf"/></scxml>' % NS
    if kind == 'early_send':
        return ('<scxml %s initial="c0"><state id="c0"><onentry><log label="pre1"/><send target="#_parent" event="m1"/></onentry>'
                '<transition target="cf"/></state><final id="cf"/></scxml>') % NS
    j = shape[1]
    out = ['<scxml %s initial="c0">' % NS]
    for i in range(j + 1):
        last = (i == j)
        sid = 'c%d' % i
        if last and kind == 'late':
            out.append('<final id="cf"/>')
            break
        out.append('<state id="%s">' % sid)
        if i == 0:
            out.append('<onentry><log label="pre1"/><send target="#_parent" event="m1"/></onentry>')
        if not last:
            nxt = 'cf' if (kind == 'late' and i + 1 == j) else 'c%d' % (i + 1)
            extra = ''
            if kind == 'never' and i == 0:
                # routing of the other target forms from inside an invoked session
                extra = '<send target="#_internal" event="ci"/><send event="cx"/>'
            out.append('<transition event="%s" target="%s"><log label="pre%d"/><send target="#_parent" event="m%d"/>%s</transition>'
                       % (trig, nxt, i + 2, i + 2, extra))
        out.append('</state>')
    out.append('</scxml>')
    return ''.join(out)


def child_prog(shape):
    kind = shape[0]
    if kind == 'early':
        return ['fin']
    if kind == 'early_send':
        return ['send', 'fin']
    j = shape[1]
    if kind == 'late':
        return ['send', 'stable'] + ['send', 'stable'] * (j - 1) + ['send', 'fin']
    return ['send', 'stable'] + ['send', 'stable'] * j


def parent_chart(childxml, childfile, content, fwd, finalize, invid='inv', nested=None, poke=False):
    # poke: the invoking state raises an event on entry that a target-less transition consumes -- the macrostep in which the
    # state becomes active then ENDS with a microstep that changes nothing (no exit set, no entry set); the invocation
    # still has to start at the end of that macrostep
    inv = ['<invoke id="%s" type="scxml"' % invid]
    if fwd == 'auto':
        inv.append(' autoforward="true"')
    if content:
        inv.append('><content>%s</content>' % childxml)
    else:
        inv.append(' src="%s">' % childfile)
    if finalize:
        inv.append('<finalize><log label="fin"/></finalize>')
    inv.append('</invoke>')
    send = '<log label="ps"/><send target="#_%s" event="go"/>' % invid if fwd == 'send' else ''
    return ('<scxml %s initial="s0">'
            '<state id="s0" initial="s01">%s' + ('<onentry><raise event="poke"/></onentry>' if poke else '') +
            '<state id="s01">' + ('<transition event="poke"/>' if poke else '') +
            '<transition event="tick" target="s01">%s</transition>'
            '<transition event="m1 m2 m3 m4 m5" target="s01"><log label="gotm"/></transition>'
            '<transition event="done.invoke.%s" target="s01"><log label="gotdone"/></transition>'
            '</state>'
            '<transition event="leave" target="s1"/>'
            '<transition event="self" target="s0"/>'
            '<transition event="end" target="fin"/>'
            '</state>'
            '<state id="s1" initial="s11"><state id="s11"><transition event="tick" target="s11"/></state>'
            '<transition event="back" target="s0"/>'
            '<transition event="end" target="fin"/>'
            '</state>'
            '<final id="fin"/></scxml>') % (NS, ''.join(inv), send, invid)


PARENT_STATES = {'': 0, 's0': 1, 's01': 2, 's1': 3, 's11': 4, 'fin': 5}


def write_pair(name, parentxml, childxml=None):
    os.makedirs(WORK, exist_ok=True)
    pf = os.path.join(WORK, name + '.scxml')
    write_if_changed(pf, parentxml)
    if childxml is not None:
        write_if_changed(os.path.join(WORK, name + '_child.scxml'), childxml)
    return pf


def shape_name(shape):
    return shape[0] + (str(shape[1]) if len(shape) > 1 else '')


# ------------------------------------------------------------------------------------- log parsing

KEEP = ('mon.', 'q.enq', 'drv.', 'invoker.', 'interp.cancel.marked', 'STUCK@')


def parse_out(line):
    """-> dict(status, ret, stuck, rem, log[list of (role, point)])"""
    r = {'status': line.split(' ', 1)[0] if line else 'empty', 'ret': None, 'stuck': False, 'rem': 0, 'log': [], 'raw': line}
    m = re.search(r'log=(\S*)', line)
    if m and m.group(1) != '-':
        for tok in m.group(1).split(','):
            if tok.startswith('STUCK@'):
                r['log'].append(('', tok))
                continue
            if ':' in tok and not tok.startswith(('mon.', 'q.', 'drv.', 'invoker.', 'interp.', 'queue.', 'delay.')):
                role, pt = tok.split(':', 1)
            else:
                role, pt = '', tok
            if pt.startswith(KEEP):
                r['log'].append((role, pt))
    m = re.search(r'ret=(-?\d+)', line)
    if m: r['ret'] = int(m.group(1))
    m = re.search(r'stuck=(\d)', line)
    if m: r['stuck'] = m.group(1) == '1'
    m = re.search(r'rem=(\d+)', line)
    if m: r['rem'] = int(m.group(1))
    if r['status'] in ('watchdog', 'hang', 'crash', 'exit', 'CRASH'):
        r['stuck'] = r['status'] in ('watchdog', 'hang')
    return r


def activations(log, invid='inv', state='s0', prole='parent', pqueue='X0'):
    """split the invoking session's log into the activations of the invoking state; one observation dict
    each.  prole: role of the invoking session's thread, pqueue: its external queue"""
    if prole != 'parent':
        log = [('parent' if role == prole else ('top' if role == 'parent' else role), pt) for role, pt in log]
    role_c = 'c.' + invid
    acts = []
    cur = None
    n = len(log)
    for i, (role, pt) in enumerate(log):
        if role == 'parent' and pt == 'mon.enter/' + state:
            cur = {'enter': i, 'exit': None, 'compl': None, 'end': n, 'closed': None}
            acts.append(cur)
        elif cur is not None and cur['exit'] is None and cur['compl'] is None:
            if role == 'parent' and pt == 'mon.exit/' + state:
                cur['exit'] = i
            elif role == 'parent' and pt == 'mon.bcompl':
                cur['compl'] = i
    # an activation's segment ends where the next one begins
    for a, b in zip(acts, acts[1:]):
        a['end'] = b['enter']
    obs = []
    for a in acts:
        seg = log[a['enter']:a['end']]
        base = a['enter']
        left = a['exit'] if a['exit'] is not None else a['compl']
        # a macrostep ended while the state was active?
        mea = any(role == 'parent' and pt == 'mon.stable' for role, pt in log[a['enter']:(left if left is not None else a['end'])])
        if a['compl'] is not None and a['exit'] is None:
            mea = mea  # completion of the parent with the state still active
        def cnt(p, lo=0, hi=None):
            return sum(1 for role, pt in seg[lo:hi] if role == 'parent' and pt == p)
        o = {'mea': mea, 'bi': cnt('mon.binv/' + invid), 'ai': cnt('mon.ainv/' + invid),
             'bu': 0, 'au': 0, 'exited': left is not None}
        # uninvoke belongs to the macrostep (or the completion) in which the state was left
        if left is not None:
            lo = left - base
            # (a tree that cancels on exit calls uninvoke inside the exit, before afterExitingState)
            while lo > 0 and not (seg[lo - 1][0] == 'parent' and (seg[lo - 1][1].startswith('mon.ev/') or seg[lo - 1][1] in ('mon.ms', 'mon.stable', 'mon.bcompl'))):
                lo -= 1
            hi = len(seg)
            o['closed_by'] = None
            for k in range(lo, len(seg)):
                role, pt = seg[k]
                if role == 'parent' and pt in ('mon.stable', 'mon.acompl'):
                    hi = k + 1
                    o['closed_by'] = pt
                    break
            o['bu'] = cnt('mon.buninv/' + invid, lo, hi)
            o['au'] = cnt('mon.auninv/' + invid, lo, hi)
            o['bu_late'] = cnt('mon.buninv/' + invid, hi)
        idx = lambda pred: next((k for k, (role, pt) in enumerate(seg) if pred(role, pt)), None)
        i_bun = idx(lambda r, p: r == 'parent' and p == 'mon.buninv/' + invid)
        i_stop = idx(lambda r, p: r == 'parent' and p == 'invoker.stop.enter')
        i_aun = idx(lambda r, p: r == 'parent' and p == 'mon.auninv/' + invid)
        i_destroyed = idx(lambda r, p: r in ('parent', 'top') and p == 'drv.destroyed')
        i_ret = i_aun if i_aun is not None else i_destroyed
        i_begun = min([x for x in (i_bun, i_stop) if x is not None], default=None)
        enq = [(k, pt.replace('q.enq/' + pqueue + '/', 'q.enq/X0/', 1)) for k, (role, pt) in enumerate(seg) if role == role_c and pt.startswith('q.enq/' + pqueue + '/')]
        # "started when a macrostep ENDS with the state active": the invocation is started in the first such macrostep, i.e.
        # before the first stable-configuration notice after the state was entered
        i_binv = idx(lambda r, p: r == 'parent' and p == 'mon.binv/' + invid)
        i_stab = idx(lambda r, p: r == 'parent' and p == 'mon.stable')
        o['late'] = i_binv is not None and i_stab is not None and i_stab < i_binv and (left is None or i_stab < left - base)
        o['done'] = sum(1 for k, pt in enq if pt == 'q.enq/X0/done.invoke.' + invid)
        o['alone'] = any(role == role_c and pt == 'mon.enter/cf' for role, pt in seg)
        o['before_done'] = any(role == role_c and pt == 'invoker.run.before_done' for role, pt in seg)
        o['run_finished'] = any(role == role_c and pt == 'invoker.run.finished' for role, pt in seg)
        o['begun'] = i_begun is not None
        o['after_return'] = sum(1 for k, pt in enq if i_ret is not None and k > i_ret)
        o['child_after_return'] = sum(1 for k, (role, pt) in enumerate(seg)
                                      if role == role_c and pt.startswith('mon.') and i_ret is not None and k > i_ret)
        names = [pt[len('q.enq/X0/'):] for k, pt in enq]
        o['delivered'] = names
        o['msgs'] = [int(x[1:]) - 1 for x in names if re.fullmatch(r'm\d+', x)]
        o['done_last'] = ('done.invoke.' + invid not in names) or names[-1] == 'done.invoke.' + invid
        pres = [pt for role, pt in seg if role == role_c and re.fullmatch(r'mon\.exec/log/pre\d+', pt)]
        o['sends_tried'] = len(pres)
        o['dropped'] = len(pres) - len(o['msgs'])
        o['enq_during_uninvoke'] = sum(1 for k, pt in enq if i_begun is not None and k > i_begun and (i_ret is None or k < i_ret))
        obs.append(o)
    return obs


def oracle_line(o, stuck):
    return 'oracle %d %d %d %d %d %d %d %d %d %d %d %d %s %d' % (
        o['mea'], o['bi'], o['ai'], o['bu'], o['au'], o['exited'], o['done'], o['alone'],
        o['before_done'], o['begun'], o['after_return'], o['child_after_return'],
        ','.join(str(x) for x in o['msgs']) or '-', 1 if stuck else 0)


def finalize_ok(log, invid='inv'):
    """every event of the invocation that the parent matches while the invocation is registered is
    preceded (in the parent's own sequence) by the execution of the <finalize> block"""
    par = [pt for role, pt in log if role == 'parent' and pt.startswith('mon.')]
    bad = []
    registered = False
    nfin = 0
    for i, pt in enumerate(par):
        if pt == 'mon.ainv/' + invid:
            registered = True
        elif pt == 'mon.buninv/' + invid:
            registered = False
        elif pt == 'mon.exec/log/fin':
            nfin += 1
            nxt = par[i + 1] if i + 1 < len(par) else ''
            if not nxt.startswith('mon.ev/'):
                bad.append('finalize not followed by the event it belongs to: ' + nxt)
        elif pt.startswith('mon.ev/') and registered:
            name = pt[len('mon.ev/'):]
            from_child = re.fullmatch(r'm\d+', name) or name == 'done.invoke.' + invid
            prev = par[i - 1] if i else ''
            if from_child and prev != 'mon.exec/log/fin':
                bad.append('event %s matched without finalize before it' % name)
            if not from_child and prev == 'mon.exec/log/fin':
                bad.append('finalize ran for foreign event %s' % name)
    return bad, nfin


def routing_ok(log, invid, fwd):
    """where did the sends go: m<k> and done.invoke -> X0 (by the child), go -> X1 (by the parent),
    ci -> I1, cx -> X1 (by the child); autoforward: every event the parent dequeues while the invocation
    is registered is enqueued at X1 by the parent, in the same order"""
    bad = []
    rc = 'c.' + invid
    depth = {'parent': 0, 'c.inv': 1, 'c.ginv': 2}      # nesting depth of the sending session
    for role, pt in log:
        if not pt.startswith('q.enq/'):
            continue
        _, q, name = pt.split('/', 2)
        d = depth.get(role)
        if d is None:
            continue
        if re.fullmatch(r'm\d+', name) or name.startswith('done.invoke.'):
            if fwd == 'auto' and q == 'X%d' % (d + 1):
                continue        # the forwarded copy
            if not (d >= 1 and q == 'X%d' % (d - 1)): bad.append('%s by %s at %s' % (name, role, q))
        elif name == 'go':
            if q != 'X%d' % (d + 1): bad.append('go by %s at %s' % (role, q))
        elif name == 'ci':
            if q != 'I%d' % d: bad.append('ci by %s at %s' % (role, q))
        elif name == 'cx':
            if q != 'X%d' % d: bad.append('cx by %s at %s' % (role, q))
    if fwd == 'auto':
        # per registration period: the events the parent processes are forwarded in the same order;
        # forwarding stops (eventFromSCXML drops) only once the invoked session has left its run loop
        periods = []
        cur = None
        started = {'ended': False}
        for role, pt in log:
            if role == 'parent' and pt == 'mon.binv/' + invid:
                started = {'ended': False}       # the session may finish before afterInvoking is reported
            if role == 'parent' and pt == 'mon.ainv/' + invid:
                cur = {'ev': [], 'fw': [], 'ended': started['ended']}
                periods.append(cur)
            elif role == 'parent' and pt == 'mon.buninv/' + invid:
                cur = None
            elif cur is not None:
                if role == 'parent' and pt.startswith('mon.ev/'):
                    cur['ev'].append(pt[len('mon.ev/'):])
                elif role == 'parent' and pt.startswith('q.enq/X1/') and not pt.endswith('/-'):
                    cur['fw'].append(pt.split('/', 2)[2])
                elif role == rc and pt == 'invoker.run.finished':
                    cur['ended'] = True
            if cur is None and role == rc and pt == 'invoker.run.finished':
                started['ended'] = True
        for p_ in periods:
            n = len(p_['fw'])
            if p_['fw'] != p_['ev'][:n] or (n < len(p_['ev']) and not p_['ended']):
                bad.append('autoforward: forwarded %s, processed %s' % (p_['fw'], p_['ev']))
    return bad


def bookkeeping_trace(log, invmap):
    """parent's configurations at its macrostep ends, the invoke/uninvoke calls per macrostep and the
    microsteps (exit set, entry set) of each macrostep.
    invmap: invoke id -> state index;  returns (cfgs, steps, completion actions or None, microsteps per macrostep)"""
    cfg = set()
    cfgs, steps, micro = [], [], []
    cur, curms, ex, en = [], [], [], []
    compl = None
    partial = False     # the last entry is the unfinished macrostep that led into completion
    for role, pt in log:
        if role != 'parent':
            continue
        if pt.startswith('mon.enter/'):
            cfg.add(pt[len('mon.enter/'):]); en.append(pt[len('mon.enter/'):])
        elif pt.startswith('mon.exit/'):
            cfg.discard(pt[len('mon.exit/'):]); ex.append(pt[len('mon.exit/'):])
        elif pt == 'mon.ms':
            curms.append((ex, en)); ex, en = [], []
        elif pt.startswith('mon.binv/'):
            cur.append('I%d' % invmap.get(pt[len('mon.binv/'):], 99))
        elif pt.startswith('mon.buninv/'):
            cur.append('U%d' % invmap.get(pt[len('mon.buninv/'):], 99))
        elif pt == 'mon.bcompl':
            if cur or curms:
                # calls made after the last stable configuration but before completion
                steps.append(cur); cfgs.append(sorted(cfg)); micro.append(curms); cur, curms = [], []
                partial = True
        elif pt == 'mon.acompl':
            compl = cur
            cur = []
        elif pt == 'mon.stable':
            cfgs.append(sorted(cfg))
            steps.append(cur); micro.append(curms)
            cur, curms = [], []
    return cfgs, steps, compl, micro, partial


# ------------------------------------------------------------------------------------- model side

def model_items(trace, inv='inv'):
    """race signature of a model trace -> schedule items for vd_sched (see the module comment of
    vd_invoke.cpp): the position of u1 among the child's reads of _isActive (p1 of each send, c2)."""
    rc = 'c.' + inv
    if 'U1' not in trace:
        return []
    iu = trace.index('U1')
    racing = []     # (index, kind, k)
    k = 0
    for i, l in enumerate(trace):
        if l == 'P1':
            k += 1
            racing.append((i, 'P1', k))
        elif l == 'Read':
            racing.append((i, 'Read', 0))
    before = [r for r in racing if r[0] < iu]
    after = [r for r in racing if r[0] > iu]
    items = []
    if before:
        _, kind, k = before[-1]
        if kind == 'P1':
            items += [rc + ':invoker.parentqueue.active_checked'] * k
        else:
            items += [rc + ':invoker.run.before_done']
    items += ['parent:mon.buninv/' + inv, 'parent:invoker.stop.enter']
    if after:
        _, kind, k = after[0]
        items += [rc + (':mon.exec/log/pre%d' % k if kind == 'P1' else ':invoker.run.finished')]
    return items


def run_one(exe, line, tries=5):
    """one line through a driver; the binary may be in the middle of being re-linked by another check"""
    import time
    for t in range(tries):
        try:
            rc, out, err = run_lines(exe, [line])
            if out:
                return out[0]
        except OSError:
            pass
        time.sleep(1.0)
    return 'CRASH rc=exec'


def kv(line):
    return dict(x.split('=', 1) for x in line.split() if '=' in x)


# ------------------------------------------------------------------------------------- the check

def defect_witness_cases():
    """chart pairs that decide the defect switches / document confirmed defects"""
    never = child_chart(('never', 1), 'go')
    cases = {}
    # D1: the parent reaches its top-level final state while the invocation runs
    cases['compl'] = dict(parent=parent_chart(never, 'w_compl_child.scxml', False, 'send', False), child=never,
                          script='s,w:20,e:end,s,p:afterend,w:20')
    # D2: the invoking state is left and re-entered within one macrostep
    cases['reenter'] = dict(parent=parent_chart(never, 'w_reenter_child.scxml', False, 'send', False), child=never,
                            script='s,w:20,e:self,s,e:leave,s,e:end,s')
    # D3: <invoke srcexpr> whose evaluation fails, then the state is left
    cases['srcexpr'] = dict(parent=('<scxml %s initial="s0" datamodel="lua"><state id="s0"><invoke id="inv" type="scxml" srcexpr="nosuchvar.foo"/>'
                                    '<transition event="leave" target="s1"/></state><state id="s1"><transition event="end" target="fin"/></state>'
                                    '<final id="fin"/></scxml>') % NS, child=None, script='s,e:leave,s,e:end,s')
    # D4: invoke id that differs from a special target only by case
    cases['case'] = dict(parent=('<scxml %s initial="s0"><state id="s0" initial="s01"><invoke id="Parent" type="scxml" src="w_case_child.scxml"/>'
                                 '<state id="s01"><transition event="tick" target="s01"><send target="#_Parent" event="go"/></transition>'
                                 '<transition event="error.communication" target="s01"><log label="errcomm"/></transition></state>'
                                 '<transition event="end" target="fin"/></state><final id="fin"/></scxml>') % NS,
                         child=never, script='s,w:20,e:tick,s,w:20,e:end,s')
    return cases


def run(c):
    import time as _t
    _t0 = _t.time()
    def tick(what):
        log('C11 %-28s %6.1fs' % (what, _t.time() - _t0))
    broken = c.prove()
    tick('prove')
    vdriver = ensure_vdriver('hooks', units=['vd_invoke'])
    vmodel = ensure_vmodel('invoke')
    quick = c.tier == 'quick'
    rng = c.rng
    c.assumptions += [
        'each access to the plain bool flags _isActive/_isStarted is atomic and sequentially consistent (data races as such are not carried by the model; TSan run in thorough is supporting evidence)',
        'std::thread::join returns only after the thread function returned; BasicEventQueue is a FIFO (C08)',
        'macrosteps of the invoked chart terminate (at most W microsteps) -- needed for "the join returns", not for safety',
        'one invocation is modelled; invocations interact only through the parent\'s FIFO queue',
    ]
    c.cov['trusted_base'] += ['harness/vd_invoke.cpp, harness/vd_sched.h (schedule controller), the log parser of tools/props/c11.py']
    viol = []          # (class, payload)

    def rline(engine, pf, script, items, wd=8000, pto=1500):
        return 'invoke %s %s %d %d %s %s' % (engine, pf, wd, pto, script, ' '.join(items))

    # ---- 1. defect vector from the witnesses ------------------------------------------------
    wit = defect_witness_cases()
    wl, wkeys = [], []
    for name, d in sorted(wit.items()):
        pf = write_pair('w_' + name, d['parent'], d['child'])
        for eng in ('large', 'fast'):
            wl.append(rline(eng, pf, d['script'], []))
            wkeys.append((name, eng))
    def defect_vector(wres):
        vec = {}
        for eng in ('large', 'fast'):
            lg = wres[('compl', eng)]['log']
            vec['completion_skips_uninvoke_' + eng] = 0 if ('parent', 'mon.buninv/inv') in lg and ('parent', 'mon.acompl') in lg and lg.index(('parent', 'mon.buninv/inv')) < lg.index(('parent', 'mon.acompl')) else 1
            lg = wres[('reenter', eng)]['log']
            vec['no_restart_on_reentry_' + eng] = 0 if sum(1 for x in lg if x == ('parent', 'mon.binv/inv')) >= 2 else 1
            lg = wres[('srcexpr', eng)]['log']
            vec['uninvoke_null_id_throws_' + eng] = 1 if any(pt.startswith('drv.exc/') for _, pt in lg) or wres[('srcexpr', eng)]['status'] != 'ok' else 0
            lg = wres[('case', eng)]['log']
            vec['special_target_case_insensitive_' + eng] = 0 if ('parent', 'q.enq/X1/go') in lg else 1
        return vec

    # ---- 1b. witnesses of the _refuted theorems, replayed on the implementation -----------------
    corpus = json.load(open(os.path.join(ROOT, 'corpus', 'c11.json')))
    refw_lines, refw_keys = [], []
    for wsch in corpus['witness_schedules']:
        shape = tuple(wsch['child'])
        cx = child_chart(shape, 'go')
        name = 'wit_' + wsch['name']
        pf = write_pair(name, parent_chart(cx, name + '_child.scxml', True, 'send', False), None)
        for eng in ('large', 'fast'):
            refw_lines.append(rline(eng, pf, wsch['script'], wsch['items']))
            refw_keys.append((wsch, eng))
    tw = corpus['teardown_witness']
    cx = child_chart(tuple(tw['child']), 'go')
    tw_pf = write_pair('wit_teardown', parent_chart(cx, 'wit_teardown_child.scxml', True, 'send', False), None)
    tw_lines = [rline(eng, tw_pf, tw['script'], tw['items'], wd=4000, pto=1000) for eng in ('large', 'fast')]
    tw_model = run_lines(vmodel, ['teardown %d %s %s' % (k_, tw['start'], ','.join(tw['labels'])) for k_ in (0, 1)])[1]
    refw_model = run_lines_sharded(vmodel, ['run %d %s' % (W, ','.join(w_['labels'])) for w_ in corpus['witness_schedules']])[0]

    # ---- 2. forced schedules: model schedules -> signature -> replay -------------------------
    shapes = [('early',), ('early_send',), ('late', 1), ('late', 2), ('never', 1), ('never', 2)]
    ks = [0, 1, 2, 3]
    maxsw = 4 if quick else 6
    enum_lines, enum_keys = [], []
    def finishes_alone(shape, k):
        return shape[0] in ('early', 'early_send') or (shape[0] == 'late' and shape[1] <= k)
    for shape in shapes:
        for k in ks:
            for leave in (True, False):
                if not leave and not finishes_alone(shape, k):
                    continue
                pprog = ['Invoke'] + ['SendChild'] * k + (['U1', 'U2', 'U3a', 'U3b', 'U4'] if leave else [])
                enum_lines.append('enum %d %s %s %d' % (W, ','.join(pprog), ','.join(child_prog(shape)), maxsw))
                enum_keys.append((shape, k, leave, pprog))
    eo, _ = run_lines_sharded(vmodel, enum_lines)
    sched_lines, sched_keys = [], []
    for (shape, k, leave, pprog), o in zip(enum_keys, eo):
        for sch in ([] if o == '-' else o.split(';')):
            sched_lines.append('sched %d %s %s %s' % (W, ','.join(pprog), ','.join(child_prog(shape)), sch))
            sched_keys.append((shape, k, leave, sch))
    so, _ = run_lines_sharded(vmodel, sched_lines)
    groups = {}        # (shape,k,leave,items) -> set of predicted outcomes, example schedule
    nmodel = 0
    for (shape, k, leave, sch), o in zip(sched_keys, so):
        d = kv(o)
        trace = d['trace'].split(',')
        nmodel += 1
        # only complete runs (both threads ran to their end or to a blocked child that never finishes)
        items = tuple(model_items(trace))
        pqs = d['pq'].split(',') if d['pq'] != '-' else []
        pred = (d['done'], d['fin'], d['saw'], str(sum(1 for x in pqs if x.startswith('m'))), d['dropped'],
                'D-last' if ('D' not in pqs or pqs[-1] == 'D') else 'D-not-last', d['pp'], d['cp'])
        g = groups.setdefault((shape, k, leave, items), {'pred': {}, 'n': 0})
        g['pred'].setdefault(pred, sch)
        g['n'] += 1
    # outcomes must be a function of the signature (independence claim behind the forcing); the final
    # control state may differ by how far the truncated schedules got, compare the outcome fields only
    inconsistent = []
    for key, g in groups.items():
        outs = {p[:6] for p in g['pred'] if p[6] in ('PRet', 'PRun') and p[7] in ('CEnd', 'CWait')}
        if len(outs) > 1:
            inconsistent.append((key, sorted(outs)))
    c.notes['model_schedules'] = nmodel
    tick('model schedules')
    c.notes['race_signatures'] = len(groups)

    run_lines_l, run_keys = [], []
    # (a child given as src file is loaded through uscxml's URL fetcher, about a second per invocation:
    #  inline <content> for the bulk, src files for a slice)
    variants = [(eng, True, fin) for eng in ('large', 'fast') for fin in (False, True)]
    src_variants = [(eng, False, False) for eng in ('large', 'fast')]
    for (shape, k, leave, items), g in sorted(groups.items(), key=lambda kv_: (kv_[0][0], kv_[0][1], kv_[0][2], kv_[0][3])):
        complete = [p for p in g['pred'] if (p[6] == 'PRet' or not leave) and p[7] in ('CEnd', 'CWait')]
        if not complete:
            continue
        pred = complete[0]
        for eng, content, fin in variants + (src_variants if (k <= 1 or not quick) else []):
            name = 'f_%s_k%d_%s_%s%s' % (shape_name(shape), k, 'l' if leave else 'n', 'c' if content else 's', 'f' if fin else '')
            cx = child_chart(shape, 'go')
            px = parent_chart(cx, name + '_child.scxml', content, 'send', fin)
            pf = write_pair(name, px, None if content else cx)
            script = 's' + ',e:tick,s' * k + (',e:leave,s,e:tick,s' if leave else ',p:sync') + ',e:end,s'
            if not leave:
                items = ('c.inv:q.enqd/X0/done.invoke.inv', 'parent:drv.sync')
            run_lines_l.append(rline(eng, pf, script, list(items)))
            run_keys.append(dict(kind='forced', shape=shape, k=k, leave=leave, items=list(items), pred=pred, engine=eng,
                                 content=content, finalize=fin, fwd='send', file=pf, script=script, example=g['pred'][pred]))

    # ---- 3. unforced runs: autoforward, re-activation, parent completion ------------------------
    for shape in shapes:
        for fwd in ('auto', 'send'):
            for eng in ('large', 'fast'):
                for scr, tag in (('s,w:15,e:tick,s,w:15,e:tick,s,w:15,e:leave,s,e:back,s,w:15,e:tick,s,w:15,e:leave,s,e:end,s', 'react'),
                                 ('s,w:15,e:tick,s,w:15,e:tick,s,w:15,e:end,s', 'endin'),
                                 ('s,e:leave,s,e:end,s', 'fastleave')):
                  for poke in (False, True):
                    if poke and tag == 'fastleave':
                        continue
                    name = 'u_%s_%s_%s%s' % (shape_name(shape), fwd, tag, '_poke' if poke else '')
                    cx = child_chart(shape, 'tick' if fwd == 'auto' else 'go')
                    px = parent_chart(cx, name + '_child.scxml', False, fwd, True, poke=poke)
                    pf = write_pair(name, px, cx)
                    run_lines_l.append(rline(eng, pf, scr, []))
                    run_keys.append(dict(kind='free', shape=shape, engine=eng, fwd=fwd, finalize=True, content=False, file=pf,
                                         script=scr, items=[], tag=tag + ('+poke' if poke else '')))
    if not quick:
        # random driver scripts on random pairs, and 2-level nesting
        evs = ['tick', 'tick', 'leave', 'back', 'self', 'tick']
        for i in range(1500):
            shape = rng.choice(shapes)
            fwd = rng.choice(['auto', 'send'])
            eng = rng.choice(['large', 'fast'])
            content = rng.random() < 0.5
            n = rng.randint(1, 6)
            scr = 's' + ''.join(',%se:%s,s' % ('w:%d,' % rng.choice([0, 1, 5, 20]) if rng.random() < 0.6 else '', rng.choice(evs)) for _ in range(n)) + ',e:end,s'
            name = 'r_%d' % i
            cx = child_chart(shape, 'tick' if fwd == 'auto' else 'go')
            px = parent_chart(cx, name + '_child.scxml', content, fwd, True)
            pf = write_pair(name, px, None if content else cx)
            run_lines_l.append(rline(eng, pf, scr, []))
            run_keys.append(dict(kind='free', shape=shape, engine=eng, fwd=fwd, finalize=True, content=content, file=pf,
                                 script=scr, items=[], tag='random'))
        for eng in ('large', 'fast'):
            for i, scr in enumerate(['s,w:30,e:leave,s,e:end,s', 's,w:30,e:tick,s,w:20,e:leave,s,e:end,s', 's,w:30,e:end,s', 's,w:30,c,s']):
                gc = child_chart(('never', 1), 'go')
                mid = parent_chart(gc, 'n2_%d_gchild.scxml' % i, True, 'send', False, invid='ginv')
                mid = mid.replace('<transition event="tick" target="s01">', '<transition event="go" target="s01">')
                top = parent_chart(mid, 'n2_%d_child.scxml' % i, False, 'send', False)
                pf = write_pair('n2_%d' % i, top, mid)
                run_lines_l.append(rline(eng, pf, scr, []))
                run_keys.append(dict(kind='nested', shape=('never', 1), engine=eng, fwd='send', finalize=False, content=False,
                                     file=pf, script=scr, items=[], tag='nested'))

    pre = wl + refw_lines + tw_lines
    allouts, crashes = run_lines_sharded(vdriver, pre + run_lines_l, shards=NCPU * 2)
    outs = allouts[len(pre):]
    results = [parse_out(o) for o in outs]
    # a run that did not return is repeated alone (twice): a dead-lock forced by the schedule is
    # reproducible, a stall of the machine is not; what was not reproducible is recorded
    transient = []
    for i, r_ in enumerate(results):
        if r_['status'] in ('watchdog', 'hang', 'CRASH', 'empty'):
            again = [parse_out(run_one(vdriver, run_lines_l[i])) for _ in range(2)]
            if all(a_['status'] == 'ok' for a_ in again):
                transient.append({'cmd': run_lines_l[i], 'first': r_['raw'][:300]})
                results[i] = again[-1]
                outs[i] = again[-1]['raw']
    c.notes['no_return_not_reproducible'] = transient
    wres = {k: parse_out(o) for k, o in zip(wkeys, allouts[:len(wl)])}
    vec = defect_vector(wres)
    c.notes['defect_vector'] = vec
    clears = {'large': vec['completion_skips_uninvoke_large'], 'fast': 0}
    wit_runs = []
    tw_res = [parse_out(o_) for o_ in allouts[len(wl) + len(refw_lines):len(pre)]]
    for (wsch, eng), o_, in zip(refw_keys, allouts[len(wl):len(wl) + len(refw_lines)]):
        res = parse_out(o_)
        obs = activations(res['log'])
        o = obs[0] if obs else {}
        ml_ = refw_model[corpus['witness_schedules'].index(wsch)]
        md = kv(ml_)
        ok = (res['status'] == 'ok' and not res['stuck'] and res['rem'] == 0 and o and
              all(o.get(k) == v for k, v in wsch['expect'].items()) and
              md['err'] == '-' and int(md['done']) == o['done'] and (md['fin'] == '1') == o['alone'])
        wit_runs.append(dict(witness=wsch['name'], theorem=wsch['theorem'], engine=eng, realised=bool(ok), model=ml_,
                             observed={k: o.get(k) for k in ('done', 'alone', 'enq_during_uninvoke', 'after_return', 'before_done')},
                             stuck=res['stuck'], unconsumed=res['rem'], cmd=refw_lines[refw_keys.index((wsch, eng))]))
    c.notes['refuted_witness_replays'] = wit_runs
    # the teardown witness: the model says "stuck"; on the implementation uninvoke must then not return
    tw_hang = []
    for eng, res in zip(('large', 'fast'), tw_res):
        hung = res['status'] in ('watchdog', 'hang') and ('parent', 'mon.buninv/inv') in res['log'] and ('parent', 'mon.auninv/inv') not in res['log']
        tw_hang.append(hung)
        # switch: lost wake-up in ~BasicDelayedEventQueue (pinned) or repaired (sticky wake-up); the model
        # variant that is selected must predict what was observed
        vec['teardown_lost_wakeup_' + eng] = 1 if hung else 0
        tm = tw_model[0 if hung else 1]
        wit_runs.append(dict(witness='teardown_witness', theorem=tw['theorem'], engine=eng, model=tm,
                             realised=(res['status'] in ('ok', 'watchdog', 'hang') and hung == ('stuck=1' in tm)),
                             observed=res['status'], cmd=tw_lines[0 if eng == 'large' else 1]))
        if hung:
            viol.append(('uninvoke-never-returns:' + eng, dict(engine=eng, file=tw_pf, script=tw['script'], schedule=tw['items'], kind='oracle',
                          what='uninvoke does not return: after the join of the invoked session\'s thread the invoker is destroyed, '
                               '~BasicDelayedEventQueue::stop() breaks a loop the delayed-event thread has not entered yet and then joins it '
                               '(lost wake-up; also seen unforced as sporadic hangs, see no_return_not_reproducible)',
                          expected='parent:mon.auninv/inv and the run returns', observed=res['raw'][:1200],
                          replay_cmd="echo '%s' | %s" % (tw_lines[0 if eng == 'large' else 1], vdriver))))
    tick('replays')

    # ---- 4. judge every run -------------------------------------------------------------------
    olines, okeys = [], []
    for idx, (key, res) in enumerate(zip(run_keys, results)):
        obs = activations(res['log'])
        if key['kind'] == 'nested':
            obs = obs + activations(res['log'], 'ginv', 's0', 'c.inv', 'X1')
        key['obs'] = obs
        for ai, o in enumerate(obs):
            olines.append(oracle_line(o, res['stuck'] and res['status'] != 'ok'))
            okeys.append((idx, ai))
    oo, _ = run_lines_sharded(vmodel, olines)
    verdict = {}
    for (idx, ai), v in zip(okeys, oo):
        verdict.setdefault(idx, []).append(v == '1')

    nontriv = set()
    hist = {'forced': 0, 'free': 0, 'nested': 0, 'overlap': 0, 'done_delivered': 0, 'cancelled_child': 0, 'dropped_sends': 0,
            'late_done_during_uninvoke': 0, 'status': {}}
    mismatches = []
    for idx, (key, res) in enumerate(zip(run_keys, results)):
        hist[key['kind']] += 1
        hist['status'][res['status']] = hist['status'].get(res['status'], 0) + 1
        lg = res['log']
        rcmd = "echo '%s' | %s" % (run_lines_l[idx], vdriver)
        base = dict(engine=key['engine'], file=key['file'], script=key['script'], schedule=key['items'], replay_cmd=rcmd,
                    child=shape_name(key['shape']), kind=key['kind'])
        if res['status'] != 'ok':
            cls = 'no-return' if res['status'] in ('watchdog', 'hang') else 'crash'
            viol.append((cls + ':' + key['engine'], dict(base, what='the run did not end normally: ' + res['raw'][:300])))
            continue
        obs = key['obs']
        if not obs and key['kind'] != 'nested':
            mismatches.append(dict(base, what='no activation of the invoking state observed', log=res['raw'][:400]))
            continue
        for ai, (o, ok) in enumerate(zip(obs, verdict.get(idx, []))):
            if o['done']: hist['done_delivered'] += 1
            if not o['alone'] and o['exited']: hist['cancelled_child'] += 1
            if o['dropped']: hist['dropped_sends'] += 1
            if o['enq_during_uninvoke']: hist['late_done_during_uninvoke'] += 1
            if o['begun'] and o['run_finished']:
                hist['overlap'] += 1
                nontriv.add((key['kind'], key['engine'], shape_name(key['shape']), tuple(key['items']), key.get('k'), key['content'], key['finalize']))
            if not ok or not o['done_last']:
                # classify
                if o['mea'] and o['exited'] and o['bu'] == 0 and o['bi'] == 1:
                    cls = 'not-uninvoked-on-exit'
                    # was the state left by completion of the invoking session, or re-entered in the same macrostep?
                    cls += ':completion' if o.get('closed_by') == 'mon.acompl' else ':reentry'
                elif o['mea'] and o['bi'] == 0 and ai > 0 and obs[ai - 1]['bu'] == 0:
                    cls = 'not-uninvoked-on-exit:reentry'      # the re-entered activation of the same defect
                elif o['mea'] and o['bi'] == 0:
                    cls = 'not-invoked-on-activation'
                else:
                    cls = 'protocol'
                viol.append((cls + ':' + key['engine'], dict(base, activation=ai, observed=o, expected='invoke_protocolb = true',
                                                              what='oracle invoke_protocolb rejects the observed behaviour of activation %d' % ai)))
        for ai, o in enumerate(obs):
            if o.get('late'):
                viol.append(('invoke-started-late:' + key['engine'], dict(base, activation=ai, observed=o,
                             what='a macrostep ended with the invoking state active and the invocation was only started in a later macrostep (activation %d)' % ai)))
        if key['finalize']:
            bad, nfin = finalize_ok(lg)
            if bad:
                viol.append(('finalize:' + key['engine'], dict(base, what='; '.join(bad[:3]))))
        bad = routing_ok(lg, 'inv', key['fwd'])
        if bad:
            viol.append(('routing:' + key['engine'], dict(base, what='; '.join(bad[:3]))))
        if key['kind'] == 'forced':
            o = obs[0]
            pred = key['pred']
            saw = '1' if o['before_done'] else ('0' if o['run_finished'] else '-')
            got = (str(o['done']), '1' if o['alone'] else '0', saw, str(len(o['msgs'])), str(o['dropped']),
                   'D-last' if o['done_last'] else 'D-not-last')
            if res['stuck'] or res['rem'] or got != pred[:6]:
                mismatches.append(dict(base, predicted=dict(zip(('done', 'fin_alone', 'c2_saw', 'delivered', 'dropped', 'done_last'), pred[:6])),
                                       observed=dict(zip(('done', 'fin_alone', 'c2_saw', 'delivered', 'dropped', 'done_last'), got)),
                                       stuck=res['stuck'], unconsumed=res['rem'], model_schedule=key['example'],
                                       what='model prediction and forced replay differ'))

    # ---- 5. bookkeeping correspondence ---------------------------------------------------------
    # model: the engines' end-of-macrostep comparison (Invoke.large_macro_end / fast_macro_end); for a tree
    # that cancels invocations when the state is exited (patches/C11-uninvoke-on-exit.diff) the
    # Recommendation's bookkeeping over the observed microsteps (Invoke.w3c_macro), compared as sets
    def sidx(x):
        return PARENT_STATES.get(x, 98)
    bl, bkeys = [], []
    for idx, (key, res) in enumerate(zip(run_keys, results)):
        if res['status'] != 'ok' or key['kind'] == 'nested':
            continue
        cfgs, steps, compl, micro, partial = bookkeeping_trace(res['log'], {'inv': 1})
        if not cfgs:
            continue
        eng = key['engine']
        if vec['no_restart_on_reentry_' + eng]:
            if partial and not steps[-1]:
                # the engines do not run the end-of-macrostep bookkeeping before completion
                cfgs, steps = cfgs[:-1], steps[:-1]
                if not cfgs:
                    continue
            cs = '/'.join('.'.join(str(sidx(x)) for x in sorted(cf, key=sidx)) or '-' for cf in cfgs)
            bl.append('bk %s %d 1 %s %d' % (eng, clears[eng], cs, 1 if compl is not None else 0))
            bkeys.append((idx, 'bk', steps, compl))
        else:
            prev = []
            for cf, st, ms in zip(cfgs, steps, micro):
                running = [sidx(x) for x in prev if sidx(x) == 1]
                mss = '/'.join('%s>%s' % (','.join(str(sidx(x)) for x in ex_) or '-', ','.join(str(sidx(x)) for x in en_) or '-') for ex_, en_ in ms) or '->-'
                bl.append('w3c 1 %s %s' % (','.join(map(str, running)) or '-', mss))
                bkeys.append((idx, 'w3c', st, None))
                prev = cf
    bo, _ = run_lines_sharded(vmodel, bl)
    bk_dis = []
    bk_runs = 0
    for (idx, how, steps, compl), o in zip(bkeys, bo):
        d = kv(o)
        bk_runs += 1
        if how == 'bk':
            got = '/'.join('.'.join(s_) or '-' for s_ in steps)
            gotc = ('.'.join(compl) or '-') if compl is not None else '-'
            if d['steps'] != got or d['compl'] != gotc:
                bk_dis.append(dict(engine=run_keys[idx]['engine'], file=run_keys[idx]['file'], script=run_keys[idx]['script'],
                                   model_steps=d['steps'], observed_steps=got, model_completion=d['compl'], observed_completion=gotc,
                                   spec_steps=d['spec'], replay_cmd="echo '%s' | %s" % (run_lines_l[idx], vdriver)))
        else:
            want = sorted(x for x in d['actions'].split('.') if x != '-')
            if want != sorted(steps):
                bk_dis.append(dict(engine=run_keys[idx]['engine'], file=run_keys[idx]['file'], script=run_keys[idx]['script'],
                                   model_w3c_actions=want, observed_actions=steps,
                                   replay_cmd="echo '%s' | %s" % (run_lines_l[idx], vdriver)))
    c.notes['bookkeeping_runs_compared'] = bk_runs
    tick('bookkeeping')

    # ---- 6. routing function probe ---------------------------------------------------------------
    targets = [b'', b'#_internal', b'#_parent', b'#_scxml_@SID@', b'#_inv', b'#_', b'#', b'x', b'#x', b'_#', b'#_INTERNAL', b'#_Internal',
               b'#_PARENT', b'#_Parent', b'#_parent2', b'#_paren', b'#_internal ', b'#_scxml_', b'#_scxml_nosuch', b'#_SCXML_@SID@',
               b'#_Scxml_x', b'#_scxml', b'#_scxml_a', b'#_internal2', b'http://x/y', b'#_a', b'#_inv2', b'#_in']
    targets += [bytes.fromhex(x) for x in corpus.get('routing_targets', [])]
    alpha = [b'#', b'_', b'p', b'P', b'a', b'r', b'e', b'n', b't', b'i', b'I', b'l', b's', b'S', b'c', b'x', b'm', b'1', b'@SID@', b'parent', b'internal', b'scxml_', b'inv']
    for _ in range(600 if quick else 6000):
        t = b''.join(rng.choice(alpha) for _ in range(rng.randint(0, 5)))
        if rng.random() < 0.7:
            t = b'#_' + t
        targets.append(t)
    tabs = [(hp, invs) for hp in (0, 1) for invs in ([], [b'inv'], [b'parent', b'a'], [b'Parent', b'internal', b'scxml_a', b'inv2'])]
    rl, ml, rkeys = [], [], []
    ci = 1 if vec['special_target_case_insensitive_large'] else 0
    for t in targets:
        for hp, invs in tabs:
            rl.append('route %s %d %s' % (hexs(t), hp, ' '.join(hexs(i) for i in invs)))
            for civ in (ci, 0):
                ml.append('route %d %s %d %s %s' % (civ, hexs(t), hp, hexs(b'@SID@'), ','.join(hexs(i) for i in invs) or '-'))
            rkeys.append((t, hp, invs))
    ro, rcr = run_lines_sharded(vdriver, rl)
    mo, _ = run_lines_sharded(vmodel, ml)
    route_dis, route_fail = [], []

    def norm_impl(o):
        d = kv(o)
        dest = d.get('dest', o)
        if dest.startswith('errcomm') or dest == 'exc:error.communication': dest = 'err.communication'
        if dest == 'exc:error.execution': dest = 'err.execution'
        return d.get('valid', '?')[:1], dest

    def norm_model(o):
        d = kv(o)
        dest = d['dest']
        if dest.startswith('session:'): dest = 'session'
        return d['valid'], dest
    for i, ((t, hp, invs), o) in enumerate(zip(rkeys, ro)):
        iv, idest = norm_impl(o)
        mv, mdest = norm_model(mo[2 * i])
        sv, sdest = norm_model(mo[2 * i + 1])      # the specification: exact, case-sensitive forms
        if (iv, idest) != (mv, mdest):
            route_dis.append((t, hp, invs, o, mo[2 * i]))
        if iv == '1' and idest != sdest:
            route_fail.append((t, hp, invs, idest, sdest))
    for cr in rcr:
        viol.append(('route-crash', dict(what='vdriver died in the routing probe', at=rl[min(cr[0], len(rl) - 1)], rc=cr[1], stderr=cr[2])))

    # ---- 7. coverage, report -------------------------------------------------------------------
    c.cov['evaluations'] = len(run_lines_l) + len(wl) + len(rl)
    c.cov['distinct_nontrivial'] = len(nontriv)
    c.cov['rule'] = ('forced replays of every race signature of the model\'s schedules (%d model schedules with <= %d context switches, %d signatures) '
                     'x engine x inline-content/src x finalize, plus unforced pairs (autoforward, re-activation, parent completion%s) and %d routing probes; '
                     'non-trivial = distinct (pair, schedule) in which the child left its run loop while the parent was inside or past uninvoke '
                     '(child completion and parent exit overlap)') % (nmodel, maxsw, len(groups), '' if quick else ', random, 2-level nesting', len(rl))
    c.cov['input_distribution'] = hist
    c.cov['samples'] = [{'cmd': run_lines_l[i], 'out': outs[i][:600]} for i in (0, len(run_lines_l) // 2, len(run_lines_l) - 1)]
    c.cov['model_vs_replay_mismatches'] = len(mismatches)
    c.cov['mismatch_examples'] = mismatches[:12]
    c.cov['bookkeeping_disagreement_examples'] = bk_dis[:5]
    c.cov['bookkeeping_disagreements'] = len(bk_dis)
    c.cov['routing_disagreements'] = len(route_dis)
    c.cov['routing_oracle_failures'] = len(route_fail)
    c.cov['oracle_failures'] = len(viol)

    if not quick and os.environ.get('VERIF_NO_TSAN') is None:
        c.notes['tsan'] = tsan_run(c, run_lines_l, run_keys)

    # defects seen through the witnesses (one violation / known finding per class)
    wit_desc = {
        'completion_skips_uninvoke': ('not-uninvoked-on-exit:completion', 'compl',
            'an interpreter that completes (top-level final state or cancel) while an invocation is running does not cancel it: no before/afterUninvoking, the invoked session keeps running until the Interpreter object is destroyed (LargeMicroStep.cpp:563-569: _invocations.clear() inside the loop over the final configuration)'),
        'no_restart_on_reentry': ('not-uninvoked-on-exit:reentry', 'reenter',
            'an invoking state that is exited and re-entered within one macrostep keeps its old invocation: it is neither cancelled on exit nor started for the new activation (both engines decide by comparing the configuration at macrostep end with _invocations)'),
        'uninvoke_null_id_throws': ('crash-uninvoke-null-id', 'srcexpr',
            'leaving a state whose <invoke srcexpr/typeexpr/...> failed to evaluate makes Interpreter::step throw std::logic_error (BasicContentExecutor::uninvoke builds a std::string from the NULL invokeid user data)'),
        'special_target_case_insensitive': ('routing-case-insensitive', 'case',
            'SCXMLIOProcessor compares the special targets with iequals: a send to #_Parent (invoke id "Parent") goes to the parent session / raises error.communication instead of reaching the invoked session'),
    }
    for sw, (cls, wname, text) in wit_desc.items():
        for eng in ('large', 'fast'):
            if vec[sw + '_' + eng]:
                d = wit[wname]
                pf = os.path.join(WORK, 'w_' + wname + '.scxml')
                viol.append((cls + ':' + eng, dict(engine=eng, file=pf, script=d['script'], schedule=[], what=text,
                                                    parent_chart=d['parent'], child_chart=d['child'],
                                                    observed=wres[(wname, eng)]['raw'][:1500],
                                                    replay_cmd="echo '%s' | %s" % (rline(eng, pf, d['script'], []), vdriver))))
    for t, hp, invs, idest, sdest in route_fail[:2000]:
        cls = 'routing-case-insensitive' if t.lower() != t or any(i.lower() != i for i in invs) else 'routing'
        viol.append((cls + ':large', dict(target=t.decode('latin-1'), has_parent=hp, invokers=[i.decode() for i in invs], observed=idest, expected=sdest,
                                         what='SCXMLIOProcessor::eventFromSCXML routes the target elsewhere than the specification',
                                         replay_cmd="echo 'route %s %d %s' | %s" % (hexs(t), hp, ' '.join(hexs(i) for i in invs), vdriver))))

    seen = set()
    for cls, payload in viol:
        base_cls = cls.rsplit(':', 1)[0]
        eng = cls.rsplit(':', 1)[1] if ':' in cls else ''
        f = c.match_known({'class': base_cls, 'engine': eng}) or c.match_known({'class': base_cls})
        if f:
            c.known(f['id'], f['what'])
            continue
        if cls in seen:
            continue
        seen.add(cls)
        payload = dict(payload)
        payload['class'] = base_cls
        payload.setdefault('kind', 'oracle')
        if payload.get('file') and 'parent_chart' not in payload:
            try:
                payload['parent_chart'] = open(payload['file']).read()
                cf = payload['file'][:-len('.scxml')] + '_child.scxml'
                payload['child_chart'] = open(cf).read() if os.path.exists(cf) else None
            except OSError:
                pass
        c.violation(payload)
    wit_bad = [w for w in wit_runs if not w['realised']]
    # model / implementation disagreements are reported whether or not other inputs failed the oracle:
    # none of the failing inputs above is a forced replay whose outcome the model predicts differently
    rep = []
    if wit_bad: rep.append(('refuted-witness-not-realised', wit_bad[0], len(wit_bad)))
    if mismatches: rep.append(('model-vs-replay', mismatches[0], len(mismatches)))
    if bk_dis: rep.append(('bookkeeping', bk_dis[0], len(bk_dis)))
    if route_dis: rep.append(('routing-model', dict(target=route_dis[0][0].decode('latin-1'), impl=route_dis[0][3], model=route_dis[0][4]), len(route_dis)))
    if inconsistent: rep.append(('model-independence', dict(case=str(inconsistent[0][0]), outcomes=inconsistent[0][1]), len(inconsistent)))
    had_input = bool(c.violations)
    for kind, ex, n in rep:
        c.violation(dict(kind='correspondence', which=kind, count=n, example=ex,
                         what='model and implementation disagree; no input on which the implementation fails the oracle invoke_protocolb explains it'),
                    no_input=True)
    if not had_input:      # no failing input was reported (known findings do not count)
        for b in broken:
            c.violation({'kind': 'obligation', 'theorem': b['name'], 'why': b.get('why', '')}, no_input=True)
    else:
        for b in broken:
            log('broken obligation %s (failing inputs reported above)' % b['name'])
    return c.finish()


def tsan_run(c, lines, keys):
    """supporting evidence only: free-running pairs under ThreadSanitizer; the model treats each flag
    access as atomic, so reports on _isActive/_isStarted are expected and recorded, not judged"""
    try:
        exe = ensure_vdriver('tsan', units=['vd_invoke'])
    except BuildError as e:
        return {'error': str(e)[:500]}
    sel = [l for l, k in zip(lines, keys) if k['kind'] in ('free',)][:40]
    env = dict(os.environ, TSAN_OPTIONS='halt_on_error=0 report_signal_unsafe=0 exitcode=0')
    reports = {}
    n = 0
    for l in sel:
        p = subprocess.run([exe], input=(l + '\n').encode(), stdout=subprocess.PIPE, stderr=subprocess.PIPE, env=env, timeout=300)
        err = p.stderr.decode('utf-8', 'replace')
        for m in re.finditer(r'WARNING: ThreadSanitizer: data race.*?\n(.*?)\n\n', err, flags=re.S):
            fr = re.findall(r'#0 (\S+).*?(\w+\.(?:cpp|h)):(\d+)', m.group(1))
            keyr = ' / '.join(sorted({'%s %s:%s' % x for x in fr[:2]}))
            reports[keyr] = reports.get(keyr, 0) + 1
        n += 1
    return {'runs': n, 'data_race_reports': reports}


def replay(path):
    r = json.load(open(path))
    print(json.dumps({k: v for k, v in r.items() if k not in ('parent_chart', 'child_chart')}, indent=1))
    cmd = r.get('replay_cmd')
    if cmd:
        ensure_vdriver('hooks', units=['vd_invoke'])
        if r.get('parent_chart') and r.get('file'):
            os.makedirs(os.path.dirname(r['file']), exist_ok=True)
            write_if_changed(r['file'], r['parent_chart'])
            if r.get('child_chart'):
                write_if_changed(r['file'][:-len('.scxml')] + '_child.scxml', r['child_chart'])
        rc, out = sh(cmd)
        print(out)
    return 0
