"""C03 -- the two micro-step engines are interchangeable."""
from vlib import *
from chart_common import *
from chart_runs import *
from chart_eval import *


def classify(la, fa, spec_line):
    """first difference between the engines' traces, classified with the diagnostics of the Spec run"""
    ta, da = canon(la)
    tb, db = canon(fa)
    i = first_diff(ta, tb)
    ts_raw, _ = canon(spec_line)
    ts, diags = strip_diag(ts_raw)
    if i is None:
        return 'data', 0
    k = sum(1 for t in ta[:i + 1] if t == 'MS{')
    flag = diags[k - 1] if 0 < k <= len(diags) else 0
    nxt = diags[k] if k < len(diags) else 0
    a = ta[i] if i < len(ta) else ''
    b = tb[i] if i < len(tb) else ''
    if a.startswith(DONE_HEX) or b.startswith(DONE_HEX):
        return 'parallel-done', i
    if (flag | nxt) & 1:
        return 'ancestor-pair', i
    return 'other', i


def run(c):
    broken = c.prove()
    vflags, notes = detect_vflags(c)
    cases = build_cases(c)
    res = run_cases(c, cases, 'sem', vflags=vflags)
    c.assumptions += ['the engines are compared through the recording monitor, logger, step() results and getConfiguration() (vd_run.cpp)',
                      'Lua/Promela/null datamodel runs of the same chart share one rendering of its expressions']
    # hypotheses of fast_large_run_equiv (eq_chartb, eq_guard_run along the large model's run) on every case: where they
    # hold the theorem says the two engine models produce the same run, so a difference between the engines there
    # cannot be one of the recorded difference classes
    reach = theorem_reach(c, cases, vflags, want=('eqguard',))
    guarded = [all(r.get('eqh', (False,))) for r in reach]   # fast_large_run_equiv_hist (subsumes the core theorem)
    diffs = {}
    mdis = {}
    nontriv = set()
    for i, case in enumerate(cases):
        la, fa = res['large'][i], res['fast'][i]
        if la.startswith('CRASH') or fa.startswith('CRASH'):
            diffs.setdefault('crash', []).append(i)
            continue
        ta = canon(la)[0]
        if sum(1 for t in ta if t == 'MS{') > 1 and ('(N parallel' in G.sx_tree(case['tree']) or '(N h' in G.sx_tree(case['tree'])):
            nontriv.add(hash((G.sx_tree(case['tree']), tuple(case['events']))))
        okl, _ = corr_equal(la, res['model'][i])
        okf, _ = corr_equal(fa, res['model_fast'][i])
        if not okl:
            mdis.setdefault('large', []).append(i)
        if not okf:
            mdis.setdefault('fast', []).append(i)
        if canon(la) != canon(fa):
            cls, pos = classify(la, fa, res['spec'][i])
            # a difference is a *known* one only if each engine behaves exactly as its Coq model
            if not (okl and okf):
                cls += '+model-disagrees'
            if guarded[i]:
                cls += '+inside-fast_large_run_equiv_histp'
            diffs.setdefault(cls, []).append(i)
    # the W3C IRP corpus, both engines (thorough: all; quick: a sample)
    irp = irp_compare(c)
    c.cov['evaluations'] = 2 * len(cases) + 2 * irp['documents']
    c.cov['distinct_nontrivial'] = len(nontriv)
    c.cov['rule'] = ('the runs of C01 executed with both engines and compared token by token (monitor notifications, log output, events processed, step() '
                     'results, configuration after every step, data values at the end), plus the W3C IRP documents for lua/promela/null run with both '
                     'engines; non-trivial = distinct (chart, history) with parallel or history states that takes at least one non-initial microstep')
    c.cov['engine_differences'] = {k: len(v) for k, v in diffs.items()}
    c.cov['fast_large_run_equiv_reach'] = {'cases': len(cases), 'eq_chartb': sum(1 for r in reach if r.get('eq', (False,))[0]),
                                           'eq_chartb+eq_guard_run (core theorem applies)': sum(1 for r in reach if all(r.get('eq', (False,)))),
                                           'eq_chartb_histp': sum(1 for r in reach if r.get('eqh', (False,))[0]),
                                           'eq_chartb_histp+eq_guard_run_hist (theorem with <initial>/<history>, also below <parallel>, applies)': sum(1 for g in guarded if g)}
    c.cov['model_disagreements'] = {k: len(v) for k, v in mdis.items()}
    c.cov['irp'] = irp
    c.cov['samples'] = [{'scxml': G.to_scxml(cases[i]['tree'], cases[i]['dm'])[:400], 'events': [e.decode() for e in cases[i]['events']], 'large': res['large'][i][:300], 'fast': res['fast'][i][:300]}
                        for i in (len(cases) - 2,)]
    for cls, idxs in sorted(diffs.items()):
        f = c.match_known({'class': cls})
        if f:
            c.known(f['id'], f['what'] + ' (%d cases this run)' % len(idxs))
            continue
        i = shrink_order(idxs, cases)[0]
        ta, tb = canon(res['large'][i])[0], canon(res['fast'][i])[0]
        p = first_diff(ta, tb) or 0
        c.violation(case_replay(c, cases[i], {'kind': 'oracle', 'class': cls, 'count': len(idxs), 'large': ' '.join(ta[max(0, p - 10):p + 10]),
                                              'fast': ' '.join(tb[max(0, p - 10):p + 10]), 'engine': 'fast'}))
    for d in irp['differences'][:3]:
        f = c.match_known({'class': 'irp', 'document': d['document']})
        if f:
            c.known(f['id'], f['what'])
        else:
            c.violation({'kind': 'oracle', 'class': 'irp', 'document': d['document'], 'large': d['large'], 'fast': d['fast'],
                         'replay_cmd': "echo 'runfile large %s 200' | /verif/.build/vdriver-hooks/vdriver; same with fast" % d['document']})
    for eng, idxs in mdis.items():
        if any(k.endswith('+model-disagrees') for k in diffs):
            break
        i = shrink_order(idxs, cases)[0]
        ok, d = corr_equal(res[eng][i], res['model' if eng == 'large' else 'model_fast'][i])
        p = d[0] or 0
        c.violation(case_replay(c, cases[i], {'kind': 'correspondence', 'engine': eng, 'count': len(idxs),
                                              'what': 'the %s engine and its Coq model differ; the two engines still agree with each other on these inputs' % eng,
                                              'model': ' '.join(d[2][max(0, p - 8):p + 8]), 'observed': ' '.join(d[1][max(0, p - 8):p + 8])}), no_input=True)
    if broken and not diffs:
        for b in broken:
            c.violation({'kind': 'obligation', 'theorem': b['name'], 'why': b.get('why', '')}, no_input=True)
    return c.finish()


def irp_compare(c):
    import glob
    vd = ensure_vdriver('hooks', units=['vd_run'])
    docs = []
    for dm in ('lua', 'promela', 'null'):
        docs += sorted(glob.glob(os.path.join(REPO, 'test', 'w3c', dm, 'test*.scxml')))
    # documents that need network/timers/invoke of files are still deterministic in the number of steps we take
    if c.tier == 'quick':
        docs = docs[::6]
    lines_l = ['runfile large %s 200' % d for d in docs]
    lines_f = ['runfile fast %s 200' % d for d in docs]
    lo, cl = run_lines_sharded(vd, lines_l, timeout=900)
    fo, cf = run_lines_sharded(vd, lines_f, timeout=900)
    diffs = []
    import re
    uu = re.compile(r'[0-9a-f]{8}-[0-9a-f]{4}-[0-9a-f]{4}-[0-9a-f]{4}-[0-9a-f]{12}')
    threaded = 0
    for d, a, b in zip(docs, lo, fo):
        a, b = uu.sub('<uuid>', a), uu.sub('<uuid>', b)
        try:
            text = open(d, encoding='utf-8', errors='replace').read()
        except OSError:
            text = ''
        if '<invoke' in text or 'delay=' in text or 'delayexpr=' in text:
            # invoked sessions run on their own threads and log through the same logger, timers fire on the timer
            # thread: the interleaving of these traces is not a function of the document (C09/C11 judge them);
            # only the outcome (state pass reached or not) is compared
            threaded += 1
            ca = [t for t in a.split() if t in ('PASS', 'NOPASS')][-1:]
            cb = [t for t in b.split() if t in ('PASS', 'NOPASS')][-1:]
            if ca == cb:
                continue
            a, b = ' '.join(ca), ' '.join(cb)
        if a != b:
            ta, tb = a.split(), b.split()
            p = first_diff(ta, tb) or 0
            diffs.append({'document': os.path.relpath(d, REPO), 'large': ' '.join(ta[max(0, p - 6):p + 6]), 'fast': ' '.join(tb[max(0, p - 6):p + 6])})
    return {'documents': len(docs), 'compared_by_outcome_only': threaded, 'differences': diffs, 'different': len(diffs)}
