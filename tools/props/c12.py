"""C12 -- event descriptors match exactly as the Recommendation prescribes."""
import itertools, json, os, sys
from vlib import *

WIT_SHORT = (b'aa b', b'b')       # distinguishes nm_short_desc_bug
WIT_SHORT2 = (b'a b', b'a')
WIT_CASE = (b'Foo', b'foo')       # distinguishes nm_case_insensitive


def words(alpha, maxlen):
    for l in range(0, maxlen + 1):
        for t in itertools.product(alpha, repeat=l):
            yield bytes(t)


def gen_cases(c):
    cases = []
    # corpus: witnesses of the _refuted lemmas and earlier disagreements, always first
    corpus = json.load(open(os.path.join(ROOT, 'corpus', 'c12.json')))
    for d, n in corpus:
        cases.append((bytes.fromhex(d), bytes.fromhex(n)))
    ncorpus = len(cases)
    if c.tier == 'quick':
        dl, nl, nalpha = 5, 3, b'ab.'
    else:
        dl, nl, nalpha = 6, 3, b'ab.B'
    names = [n for n in words(nalpha, nl)]
    for d in words(b'ab.* ', dl):
        for n in names:
            cases.append((d, n))
    nex = len(cases) - ncorpus
    # random longer ones: tabs/newlines, upper case, UTF-8, long tokens
    rng = c.rng
    toks = [b'a', b'b', b'foo', b'bar', b'Foo', b'x', b'*', b'.', b'.*', b'error', b'done', b'state', b'\xc3\xa4', b'e1', b'A']
    seps = [b' ', b'  ', b'\t', b'\n', b' \r\n']
    nrand = 20000 if c.tier == 'quick' else 200000
    for _ in range(nrand):
        nd = rng.randint(1, 4)
        ds = []
        for _ in range(nd):
            k = rng.randint(1, 4)
            t = b'.'.join(rng.choice(toks[:7] + toks[9:]) for _ in range(k))
            r = rng.random()
            if r < 0.15:
                t += b'.*'
            elif r < 0.25:
                t += b'.'
            elif r < 0.30:
                t += b'*'
            elif r < 0.35:
                t = b'*'
            ds.append(t)
        d = rng.choice([b'', b'', b' ']) + b''.join(x + rng.choice(seps) for x in ds[:-1]) + ds[-1] + rng.choice([b'', b'', b' '])
        if rng.random() < 0.6:
            base = rng.choice(ds).rstrip(b'.*')
            n = base + rng.choice([b'', b'', b'.x', b'x', b'.bar.baz'])
            if rng.random() < 0.1:
                n = n.swapcase()
        else:
            n = b'.'.join(rng.choice(toks[:6] + toks[9:]) for _ in range(rng.randint(1, 4)))
        cases.append((d, n))
    return cases, ncorpus, nex, nrand


def interp_part(c, vdriver, cases, model):
    import re
    safe = re.compile(rb'^[A-Za-z0-9.* _-]*$')
    sel = []
    for (d, n), mo in zip(cases, model):
        m = dict(kv.split('=') for kv in mo.split())
        if m.get('wf') == '1' and n and safe.match(d) and re.match(rb'^[A-Za-z0-9._-]+$', n) and d.strip():
            sel.append((d, n, m['spec']))
    # add the descriptor forms of the Recommendation explicitly (trailing '.', '.*', lists)
    for d in (b'foo.', b'foo.*', b'foo', b'foo. bar', b'foo.bar.', b'error.', b'*', b'a.b. c'):
        for n in (b'foo', b'foo.bar', b'foo.bar.baz', b'foobar', b'bar', b'error.execution', b'a.b', b'c.d'):
            sel.append((d, n, None))
    cap = 1500 if c.tier == 'quick' else 20000
    if len(sel) > cap:
        step = len(sel) / float(cap)
        sel = [sel[int(i * step)] for i in range(cap)] + sel[-64:]
    vmn = ensure_vmodel('namematch')
    need = [i for i, x in enumerate(sel) if x[2] is None]
    if need:
        oo, _ = run_lines_sharded(vmn, ['match 0 0 %s %s' % (hexs(sel[i][0]), hexs(sel[i][1])) for i in need])
        for i, o in zip(need, oo):
            sel[i] = (sel[i][0], sel[i][1], dict(kv.split('=') for kv in o.split())['spec'])
    fail = {}
    for eng in ('large', 'fast'):
        out, _ = run_lines_sharded(vdriver, ['matchi %s %s %s' % (eng, hexs(d), hexs(n)) for d, n, _ in sel])
        for (d, n, spec), io in zip(sel, out):
            if io in ('0', '1') and io != spec:
                if eng not in fail or len(d) + len(n) < len(fail[eng][0]) + len(fail[eng][1]):
                    fail[eng] = (d, n, io, spec)
    c.cov['interpreter_match_cases'] = 2 * len(sel)
    c.cov['evaluations'] = c.cov.get('evaluations', 0) + 2 * len(sel)
    return fail


def trie_part(c, vdriver):
    import itertools
    vm = ensure_vmodel('pmlstep')
    names = [b'a', b'a.b', b'a.b.c', b'b', b'a.c', b'ab', b'b.a', b'link', b'link.up', b'link.up.fast']
    attrs = [b'a', b'a.b', b'a.*', b'a.', b'b', b'*', b'a b', b'a.b a', b'link', b'link.up link', b'ab', b'a.b.c', b'c', b'b.a.*', b'a.c b']
    wordlists = []
    for k in (1, 2, 3):
        for comb in itertools.combinations(names, k):
            for perm in itertools.permutations(comb):
                wordlists.append(list(perm))
    rng = c.rng
    for _ in range(300 if c.tier == 'quick' else 3000):
        wl = rng.sample(names, rng.randint(2, 6))
        wordlists.append(wl)
    if c.tier == 'quick':
        rng.shuffle(wordlists)
        wordlists = wordlists[:700]
    jobs = [(wl, at) for wl in wordlists for at in attrs]
    il = ['trie-impl %s %s' % (','.join(hexs(w) for w in wl) or '-', hexs(at)) for wl, at in jobs]
    impl, _ = run_lines_sharded(vdriver, il)
    bad, oracle = [], {}
    # the model resolves per name: ask for every inserted name whether it is among the resolved words
    ml = ['trie 1 %s %s %s' % (','.join(hexs(w) for w in wl) or '-', hexs(at), hexs(wl[0])) for wl, at in jobs]
    mo, _ = run_lines_sharded(vm, ml)
    for (wl, at), io, m in zip(jobs, impl, mo):
        mres = m.split(' ')[0]
        want_all = (mres == '-')
        iset = None if io == 'all' else set(x for x in io.strip('[]').split(',') if x)
        mset = None if want_all else set(x for x in mres.strip('[]').split(',') if x)
        if (iset is None) != (mset is None) or (iset is not None and iset != mset):
            bad.append((wl, at, io, m))
        # the oracle: resolved words = inserted names matched by the attribute (the Recommendation's relation)
        import subprocess
    # oracle through the namematch model: name_match_spec attr name for every inserted name
    vmn = ensure_vmodel('namematch')
    ol, idx = [], []
    for j, (wl, at) in enumerate(jobs):
        for w in wl:
            ol.append('match 0 0 %s %s' % (hexs(at), hexs(w)))
            idx.append((j, w))
    oo, _ = run_lines_sharded(vmn, ol)
    expect = {}
    for (j, w), o in zip(idx, oo):
        m = dict(kv.split('=') for kv in o.split())
        if m.get('spec') == '1':
            expect.setdefault(j, set()).add(hexs(w))
    for j, ((wl, at), io) in enumerate(zip(jobs, impl)):
        want = expect.get(j, set())
        got = set(hexs(w) for w in wl) if io == 'all' else set(x for x in io.strip('[]').split(',') if x)
        if got != want:
            missing = sorted(want - got)
            cls = 'trie-misses-inserted-name' if missing else 'trie-resolves-unmatched-name'
            if cls not in oracle or len(wl) < len(oracle[cls][0]):
                nm = bytes.fromhex((missing or sorted(got - want))[0])
                oracle[cls] = (wl, at, nm, io, '-')
    c.cov['trie_cases'] = len(jobs)
    c.cov['trie_model_disagreements'] = len(bad)
    c.cov['trie_oracle_failures'] = {k: 1 for k in oracle}
    c.cov['evaluations'] = c.cov.get('evaluations', 0) + len(jobs)
    return bad, oracle


def run(c):
    broken = c.prove()
    vdriver = ensure_vdriver('hooks')
    vmodel = ensure_vmodel('namematch')
    c.assumptions += ['isspace/tolower as in the "C" locale', 'event names contain no whitespace; descriptors admitted by the grammar of 3.12.1 (wf_descs) -- other descriptor texts are compared model-vs-code only']
    # 1. defect vector of the implementation, from the witnesses
    rc, o, e = run_lines(vdriver, ['match %s %s' % (hexs(a), hexs(b)) for a, b in (WIT_SHORT, WIT_SHORT2, WIT_CASE)] +
                         ['matchc %s %s' % (hexs(a), hexs(b)) for a, b in (WIT_SHORT, WIT_SHORT2, WIT_CASE)])
    vec = {'short': 1 if (o[0] == '0' or o[1] == '0') else 0, 'ci': 1 if o[2] == '1' else 0}
    vecc = {'short': 1 if (o[3] == '0' or o[4] == '0') else 0, 'ci': 1 if o[5] == '1' else 0}
    c.notes['defect_vector'] = {'nameMatch': vec, 'test-gen-c copy': vecc}
    sys.path.insert(0, os.path.join(ROOT, 'tools', 'translate'))
    import gen_c_namematch
    c.notes['gen_c_copy_token_identical'] = gen_c_namematch.token_identical(REPO)

    cases, ncorpus, nex, nrand = gen_cases(c)
    il = []
    for d, n in cases:
        il.append('match %s %s' % (hexs(d), hexs(n)))
    impl, crashes = run_lines_sharded(vdriver, il)
    implc, crashes2 = run_lines_sharded(vdriver, [l.replace('match', 'matchc', 1) for l in il])
    model, _ = run_lines_sharded(vmodel, ['match %d %d %s %s' % (vec['ci'], vec['short'], hexs(d), hexs(n)) for d, n in cases])
    if (vecc != vec):
        modelc, _ = run_lines_sharded(vmodel, ['match %d %d %s %s' % (vecc['ci'], vecc['short'], hexs(d), hexs(n)) for d, n in cases])
    else:
        modelc = model
    c.cov['evaluations'] = c.cov.get('evaluations', 0) + 2 * len(cases)
    nontriv = set()
    disagreements = []
    oracle_fail = []
    hist = {'wf': 0, 'match': 0, 'multi_desc': 0, 'wf_and_match': 0}
    for which, iv, mv in (('nameMatch', impl, model), ('gen-c-copy', implc, modelc)):
        for (d, n), io, mo in zip(cases, iv, mv):
            m = dict(kv.split('=') for kv in mo.split())
            wf = m['wf'] == '1'
            if which == 'nameMatch':
                if wf: hist['wf'] += 1
                if io == '1': hist['match'] += 1
                if wf and io == '1': hist['wf_and_match'] += 1
                if b' ' in d.strip(): hist['multi_desc'] += 1
                if wf and len(d.split()) >= 1 and len(n) > 0:
                    nontriv.add((d, n))
            if io != m['impl']:
                disagreements.append((which, d, n, io, m))
            if wf and io != m['spec']:
                oracle_fail.append((which, d, n, io, m))
    c.cov['distinct_nontrivial'] = len(nontriv)
    c.cov['rule'] = ('corpus (%d) + exhaustive descriptor lists over {a,b,.,*,space} x names (%d pairs) + %d seeded random longer pairs '
                     '(tabs, newlines, upper case, UTF-8); each run on uscxml::nameMatch and on the copy in test-gen-c.cpp; '
                     'non-trivial = distinct pair with grammar-conformant descriptors and non-empty name') % (ncorpus, nex, nrand)
    c.cov['exhaustive'] = True
    c.cov['input_distribution'] = hist
    c.cov['samples'] = [{'descs': d.decode('latin-1'), 'name': n.decode('latin-1'), 'impl': io, 'model': mo}
                        for (d, n), io, mo in list(zip(cases, impl, model))[ncorpus + 1000:ncorpus + 1003] + list(zip(cases, impl, model))[-2:]]
    c.cov['disagreements'] = len(disagreements)
    c.cov['oracle_failures'] = len(oracle_fail)

    # 1b. the event trie of the Promela / VHDL back-ends (Trie.cpp) against Trie.v and the matching relation:
    # word lists in every insertion order (a name before or after its token prefixes), descriptor attributes
    trie_bad, trie_oracle = trie_part(c, vdriver)

    # 1c. the relation as the interpreter applies it (InterpreterImpl::isMatched through both micro-steppers): small
    # documents, one per (descriptor attribute, event name), for the grammar-conformant part of the exhaustive set
    interp_fail = interp_part(c, vdriver, cases, model)

    # 2. classify
    def shrink_key(x):
        return (len(x[1]) + len(x[2]), x[1], x[2])
    for cr in crashes + crashes2:
        c.violation({'kind': 'crash', 'at_case': il[min(cr[0], len(il) - 1)], 'rc': cr[1], 'stderr': cr[2],
                     'replay_cmd': 'echo "<at_case>" | /verif/.build/vdriver-hooks/vdriver'})
    seen_classes = set()
    for which, d, n, io, m in sorted(oracle_fail, key=shrink_key):
        # classify by which repaired switch explains it
        cls = 'other'
        v = vec if which == 'nameMatch' else vecc
        if v['short']: cls = 'one-char-descriptor'
        if v['ci'] and d.lower() != d or n.lower() != n: cls = 'case-insensitive' if v['ci'] else cls
        case = {'function': which, 'class': cls}
        f = c.match_known(case)
        if f:
            c.known(f['id'], f['what'])
            continue
        if (which, cls) in seen_classes:
            continue
        seen_classes.add((which, cls))
        c.violation({'kind': 'oracle', 'function': which, 'descs_hex': hexs(d), 'name_hex': hexs(n),
                     'descs': d.decode('latin-1'), 'name': n.decode('latin-1'),
                     'expected_by_name_match_spec': m['spec'], 'observed': io,
                     'replay_cmd': "echo '%s %s %s' | /verif/.build/vdriver-hooks/vdriver" % ('match' if which == 'nameMatch' else 'matchc', hexs(d), hexs(n))})
    for cls, (ws, attr, name, io, mo) in sorted(trie_oracle.items()):
        c.violation({'kind': 'oracle', 'function': 'Trie (static resolution)', 'class': cls, 'words_in_insertion_order': [w.decode('latin-1') for w in ws],
                     'descs': attr.decode('latin-1'), 'name': name.decode('latin-1'), 'resolved_by_Trie_cpp': io, 'model': mo,
                     'expected': 'the words resolved for the descriptor are exactly the inserted names the descriptor matches (name_match_spec)',
                     'replay_cmd': "echo 'trie-impl %s %s' | /verif/.build/vdriver-hooks/vdriver" % (','.join(hexs(w) for w in ws) or '-', hexs(attr))})
    for eng, (d, n, io, spec) in sorted(interp_fail.items()):
        c.violation({'kind': 'oracle', 'function': 'InterpreterImpl::isMatched through the %s engine' % eng, 'descs': d.decode('latin-1'), 'name': n.decode('latin-1'),
                     'expected_by_name_match_spec': spec, 'observed': io,
                     'document': '<state id="s1"><transition event="%s" target="s2"/></state><state id="s2"/> with event %s' % (d.decode('latin-1'), n.decode('latin-1')),
                     'replay_cmd': "echo 'matchi %s %s %s' | /verif/.build/vdriver-hooks/vdriver" % (eng, hexs(d), hexs(n))})
    if trie_bad and not trie_oracle:
        ws, attr, io, mo = trie_bad[0]
        c.violation({'kind': 'correspondence', 'function': 'Trie', 'count': len(trie_bad), 'words_in_insertion_order': [w.decode('latin-1') for w in ws],
                     'descs': attr.decode('latin-1'), 'observed': io, 'model': mo}, no_input=True)
    if not oracle_fail:
        # disagreement or broken obligation without a failing input
        if disagreements:
            which, d, n, io, m = sorted(disagreements, key=shrink_key)[0]
            c.violation({'kind': 'correspondence', 'function': which, 'descs_hex': hexs(d), 'name_hex': hexs(n),
                         'model': m, 'observed': io, 'count': len(disagreements),
                         'what': 'model NameMatch.name_match_impl (variant %s) and the implementation differ on input outside the grammar-conformant domain; no input on which the code contradicts name_match_spec was found' % json.dumps(vec)},
                        no_input=True)
        for b in broken:
            c.violation({'kind': 'obligation', 'theorem': b['name'], 'why': b.get('why', '')}, no_input=True)
    else:
        for b in broken:
            log('broken obligation %s (failing input reported above)' % b['name'])
    return c.finish()
