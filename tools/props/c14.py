"""C14 -- serialized state resumes to identical behaviour.

For every generated chart, history (<= 4 inputs) and macrostep boundary k of that history the real interpreter
is serialised at k, a fresh interpreter of the same document is given the string, and both are run on the rest
of the history (harness/vd_serialize.cpp).  The oracle judges every implementation output: the continuation
traces, final data values and pending (external, delayed) events of the two interpreters must be equal, the
state string must decode to the configuration the interpreter reports, a string of another document must be
rejected and leave the rejecting interpreter untouched.  The extracted model (Serialize.v, instantiated with the
defect switches the implementation shows on the corpus witnesses) predicts snapshot and both traces; a
disagreement without an oracle failure is reported as such."""
import base64, copy, json, os, random, re, struct, subprocess, sys
from vlib import *
from chart_common import canon, first_diff, BIG
import chartgen as G

N_, T_ = G.node, G.trans
FUEL = 60
SW_NAMES = ['delay_lost', 'stable_lost', 'final_lost', 'queue_before_md5', 'undeclared_restored']
CLASS_OF_SWITCH = {'delay_lost': 'delayed-events-lost', 'stable_lost': 'extra-stable-notice',
                   'final_lost': 'finished-resumes-running', 'queue_before_md5': 'rejected-string-leaves-events',
                   'undeclared_restored': 'undeclared-data-declared-by-resume'}


# ------------------------------------------------------------------ charts

def xml_of(tree, dm, late):
    """SCXML text; an event name `~<r><name>` of a <send> is the delayed send of `name` with delay (100+10r) s"""
    xml = G.to_scxml(tree, dm, late)
    return re.sub(r'<send event="~(\d)([^"]*)"', lambda m: '<send event="%s" delay="%ds"' % (m.group(2), 100 + 10 * int(m.group(1))), xml)


def tree_to_json(t):
    def cv(x):
        if isinstance(x, bytes):
            return {'b': x.decode('latin-1')}
        if isinstance(x, tuple):
            return {'t': [cv(y) for y in x]}
        if isinstance(x, list):
            return [cv(y) for y in x]
        if isinstance(x, dict):
            return {'d': {k: cv(v) for k, v in x.items()}}
        return x
    return cv(t)


def tree_from_json(j):
    def cv(x):
        if isinstance(x, dict):
            if 'b' in x:
                return x['b'].encode('latin-1')
            if 't' in x:
                return tuple(cv(y) for y in x['t'])
            return {k: cv(v) for k, v in x['d'].items()}
        if isinstance(x, list):
            return [cv(y) for y in x]
        return x
    return cv(j)


def instrs_of(tree):
    """all instruction lists of a chart (blocks and if-bodies), for in-place edits"""
    out = []

    def block(b):
        out.append(b)
        for i in b:
            if i[0] == 'if':
                pass  # if-items are tuples inside a list: handled by rebuild below
    for n in G.walk(tree):
        for b in n.get('onentry', []) + n.get('onexit', []):
            block(b)
        for t in n.get('trans', []):
            block(t['body'])
    return out


def delay_some_sends(tree, rng, prob=0.7):
    """turn <send event=x/> into delayed sends, each with its own delay rank; returns number of delayed sends"""
    rank = [0]

    def conv(i):
        if i[0] == 'send' and rank[0] < 10 and rng.random() < prob and not i[2].startswith(b'~'):
            r = rank[0]
            rank[0] += 1
            return ('send', i[1], b'~%d' % r + i[2])
        if i[0] == 'if':
            return ('if', i[1], i[2], [x if x[0] in ('elseif', 'else') else conv(x) for x in i[3]])
        return i
    for b in instrs_of(tree):
        b[:] = [conv(i) for i in b]
    return rank[0]


def add_sends(tree, rng, vidbase=900):
    """make sure the chart sends something: an onentry <send> on up to two proper states"""
    props = [n for n in G.proper_states(tree)]
    k = 0
    for n in rng.sample(props, min(2, len(props))):
        n.setdefault('onentry', [])
        n['onentry'].append([('send', vidbase + k, rng.choice(G.EVENTS))])
        k += 1


def make_late(tree, rng):
    """binding=late with one variable declared in an inner state (initialised when that state is first entered)"""
    props = [n for n in G.proper_states(tree)]
    if not tree.get('data') or not props:
        return False
    v, e = tree['data'][-1]
    tree['data'] = tree['data'][:-1]
    rng.choice(props)['data'] = [(v, e)]
    tree['_late_var'] = v
    return True


def assign_only_root_vars(tree, dm):
    """The abstract datamodel of the chart core raises error.execution on every use of an undeclared name.  Lua
    creates a global on assignment to one and evaluates a bare read to nil; Promela evaluates a bare read to
    false.  In binding=late charts the inner variable is therefore never assigned (Lua) and only read inside
    an arithmetic term (nil + 0 / false + 0 is an error in both)."""
    v = tree.get('_late_var')
    root = [x for x, _ in tree.get('data', [])]
    if v is None or not root:
        return

    def rd(e):
        return ('+', e, ('n', 0)) if e == ('v', v) else e

    def conv(i):
        if i[0] == 'assign':
            return ('assign', i[1], root[0] if (i[2] == v and dm == 'lua') else i[2], rd(i[3]))
        if i[0] == 'log':
            return ('log', i[1], rd(i[2]))
        if i[0] == 'if':
            return ('if', i[1], i[2], [x if x[0] in ('elseif', 'else') else conv(x) for x in i[3]])
        return i
    for b in instrs_of(tree):
        b[:] = [conv(i) for i in b]


def force_history(tree, rng):
    """add a history state (with default transition) to a compound state that has none, and a transition into it"""
    vid = [max([t['vid'] for n in G.walk(tree) for t in n.get('trans', [])] + [100]) + 200]
    maxsid = max(n['sid'] for n in G.walk(tree))
    comps = [n for n in G.walk(tree) if n['kind'] == 'state' and any(k['kind'] in ('state', 'parallel', 'final') for k in n['kids'])
             and not any(k['kind'] in ('hs', 'hd') for k in n['kids'])]
    if not comps:
        return False
    n = rng.choice(comps)
    kids = [k for k in n['kids'] if k['kind'] in ('state', 'parallel', 'final')]
    deep = rng.random() < 0.5
    cands = [d for k in kids for d in G.walk(k) if d['kind'] in ('state', 'parallel', 'final')] if deep else kids
    vid[0] += 1
    h = G.node('hd' if deep else 'hs', maxsid + 1, trans=[G.trans(vid[0], targets=[rng.choice(cands)['sid']])])
    n['kids'].insert(0, h)
    # somebody outside goes to the history, somebody inside leaves the compound state
    outside = [s for s in G.proper_states(tree) if s['kind'] != 'final' and s is not n and s not in list(G.walk(n))]
    inside = [s for s in G.walk(n) if s['kind'] in ('state', 'parallel') and s is not n]
    allp = [s['sid'] for s in G.proper_states(tree) if s not in list(G.walk(n))]
    vid[0] += 1
    (rng.choice(outside) if outside else tree['kids'][0] if tree['kids'][0]['kind'] != 'final' else n)['trans'].append(
        G.trans(vid[0], rng.choice([b'e', b'f']), None, [maxsid + 1]))
    if inside and allp:
        vid[0] += 1
        rng.choice(inside)['trans'].append(G.trans(vid[0], rng.choice([b'e', b'f']), None, [rng.choice(allp)]))
    return True


def history_words(rng, with_tick, n):
    alpha = list(G.EVENTS) + (['@t', '@t'] if with_tick else [])
    out = []
    for _ in range(n):
        l = rng.randint(0, 4)
        out.append([rng.choice(alpha) for _ in range(l)])
    return out


def item(x):
    return x if x == '@t' else G.hx(x)


def build_base_cases(c):
    """(tree, dm, late, history, origin) -- every boundary of each becomes a snapshot point"""
    rng = random.Random(c.seed * 104729 + 14)
    quick = c.tier == 'quick'
    cases = []
    corpus = json.load(open(os.path.join(ROOT, 'corpus', 'c14.json')))
    for w in corpus['cases']:
        cases.append({'tree': tree_from_json(w['tree']), 'dm': w['dm'], 'late': w['late'],
                      'hist': [x if x == '@t' else x.encode('latin-1') for x in w['history']], 'origin': 'corpus:' + w['name']})
    plan = [('random', 'lua', 260), ('random', 'promela', 140), ('history', 'lua', 120), ('history', 'promela', 50),
            ('late', 'lua', 100), ('late', 'promela', 40), ('delayed', 'lua', 120), ('delayed', 'promela', 50),
            ('null', 'null', 60)]
    if not quick:
        plan = [(a, b, n * 10) for a, b, n in plan]
    for kind, dm, n in plan:
        made = 0
        while made < n:
            t = G.rand_chart(rng, content=0.6, faults=0.0, only_in=(dm == 'null'), nprop=rng.randint(2, 7))
            late = False
            if kind == 'history' and not force_history(t, rng):
                continue
            if kind == 'late':
                late = make_late(t, rng)
                if not late:
                    continue
                assign_only_root_vars(t, dm)
            if kind == 'delayed':
                add_sends(t, rng)
                if delay_some_sends(t, rng) == 0:
                    continue
            for h in history_words(rng, kind == 'delayed', 3):
                cases.append({'tree': t, 'dm': dm, 'late': late, 'hist': h, 'origin': kind + '-' + dm})
            made += 1
    return cases


# ------------------------------------------------------------------ driver lines

def impl_line(eng, case, k):
    return 'serialize-resume %s %s %d %d %s' % (eng, xml_of(case['tree'], case['dm'], case['late']).encode('latin-1').hex(), FUEL, k,
                                                 ' '.join(item(x) for x in case['hist']))


def model_line(eng, vflags, szf, case, k):
    return 'sr %s %s %s %d %d %d %s (%s)' % (eng, vflags, szf, 1 if case['late'] else 0, FUEL, k, G.sx_tree(case['tree']),
                                              ' '.join(item(x) for x in case['hist']))


def impl_foreign_line(eng, a, b, k):
    return 'serialize-foreign %s %s %s %d %d %s' % (eng, xml_of(a['tree'], a['dm'], a['late']).encode('latin-1').hex(),
                                                    xml_of(b['tree'], b['dm'], b['late']).encode('latin-1').hex(), FUEL, k,
                                                    ' '.join(item(x) for x in a['hist']))


def model_foreign_line(eng, vflags, szf, a, b, k):
    return 'sf %s %s %s %d %d %d %s %s (%s)' % (eng, vflags, szf, 1 if a['late'] else 0, FUEL, k, G.sx_tree(a['tree']), G.sx_tree(b['tree']),
                                                ' '.join(item(x) for x in a['hist']))


def run_robust(exe, lines, timeout=120):
    """sharded run; a case that kills or hangs its child process is an outcome (`CRASH rc=..`), the cases behind
    it in the same shard are run again in a new child"""
    outs = [None] * len(lines)
    todo = list(range(len(lines)))
    crashes = []
    rounds = 0
    while todo and rounds < 40:
        rounds += 1
        res, cr = run_lines_sharded(exe, [lines[i] for i in todo], timeout=timeout)
        bad = set()
        for pos, rc, err in cr:
            if pos < len(todo):
                bad.add(pos)
                crashes.append((todo[pos], rc, err))
        nxt = []
        for j, i in enumerate(todo):
            if j in bad:
                outs[i] = 'CRASH rc=%s' % [rc for pos, rc, err in cr if pos == j][0]
            elif res[j].startswith('CRASH rc='):
                nxt.append(i)
            else:
                outs[i] = res[j]
        todo = nxt
    for i in todo:
        outs[i] = 'CRASH rc=unknown'
    # a case that died or hung: twice more on its own -- an answer then makes it an intermittent failure
    for i in sorted(set(i for i, rc, err in crashes)):
        for attempt in range(2):
            try:
                rc, o, err = run_lines(exe, [lines[i]], timeout=30)
            except subprocess.TimeoutExpired:
                continue
            if rc == 0 and len(o) == 1:
                outs[i] = 'INTERMITTENT ' + outs[i] + ' || ' + o[0]
                break
    return outs, crashes


# ------------------------------------------------------------------ reading outputs

def fields(line):
    """'SR k=.. | PRE .. | SNAP ..' -> dict tag -> text"""
    parts = [p.strip() for p in line.split(' | ')]
    d = {'HEAD': parts[0]}
    for p in parts[1:]:
        tag, _, rest = p.partition(' ')
        d[tag] = rest.strip()
    m = re.search(r'at=(\w+)', parts[0])
    d['at'] = m.group(1) if m else 'NONE'
    m = re.search(r'nb=(\d+)', parts[0])
    d['nb'] = int(m.group(1)) if m else None
    return d


def toks(s):
    return [t for t in s.split() if t not in ('TICK',)]


def unb64_bits(s):
    raw = base64.b64decode(s)
    if len(raw) % 8 or len(raw) < 8:
        raise ValueError('bit array of %d bytes' % len(raw))
    n = struct.unpack('<Q', raw[-8:])[0]
    body = raw[:-8]
    return [i for i in range(n) if i // 8 < len(body) and (body[i // 8] >> (i % 8)) & 1]


def canon_snapshot(hexjson, eng):
    """the state string as the model prints it; ('invalid-json', text) when it is no JSON"""
    text = bytes.fromhex(hexjson).decode('latin-1') if hexjson != '-' else ''
    notes = []
    try:
        j = json.loads(text)
    except ValueError:
        # the Lua datamodel prints an undefined value as nil
        try:
            j = json.loads(re.sub(r':\s*nil\b', ': null', text))
            notes.append('invalid-json')
        except ValueError:
            return None, ['unparsable'], text
    ms = j.get('microstepper') or {}

    def enc(x):
        if eng == 'large':
            return '[' + ','.join(str(v) for v in (x or [])) + ']'
        return '"%s"' % x
    data = j.get('datamodel') or {}

    def val(v):
        if v is None or v is False and False:
            return 'undef'
        if isinstance(v, bool):
            return 'undef' if v is False else '1'
        if isinstance(v, float) and v == int(v):
            v = int(v)
        return str(v)
    ds = sorted((int(k[3:]), val(v)) for k, v in data.items() if k.startswith('Var'))
    eq = [e.get('name', '') for e in ((j.get('externalQueue') or {}).get('BasicEventQueue') or [])]
    dq = []
    for e in ((j.get('delayQueue') or {}).get('BasicDelayedEventQueue') or []):
        ev = e.get('event', e) if isinstance(e, dict) else {}
        dq.append((ev.get('name', ''), e.get('delay') if isinstance(e, dict) else None))
    canon_ = {'cfg': enc(ms.get('configuration')), 'hist': enc(ms.get('histories')), 'initd': enc(ms.get('intializedData')),
              'inv': enc(ms.get('invocations')), 'data': ','.join('%d:%s' % kv for kv in ds) or '-',
              'eq': ','.join(n.encode('latin-1').hex() or '-' for n in eq) or '-',
              'dq': [n for n, d in dq], 'dq_delays': [d for n, d in dq], 'md5': j.get('md5'),
              'flags': ms.get('flags')}
    try:
        if eng == 'large':
            canon_['cfg_set'] = [int(v) for v in (ms.get('configuration') or [])]
        else:
            canon_['cfg_set'] = unb64_bits(ms.get('configuration'))
    except Exception as ex:
        notes.append('configuration-undecodable:%s' % ex)
        canon_['cfg_set'] = None
    return canon_, notes, text


def model_snapshot(s):
    d = {}
    for kv in s.split():
        k, _, v = kv.partition('=')
        d[k] = v
    return d


def dq_names(q):
    """'66:110,65:120' -> (names, delays)"""
    if q in ('-', ''):
        return [], []
    ns, ds = [], []
    for x in q.split(','):
        n, _, d = x.partition(':')
        ns.append(n)
        ds.append(int(d) if d.lstrip('-').isdigit() else None)
    return ns, ds


def norm_data(s):
    """'1=5 2=nil' -> {'1': '5'}: an undefined value (nil, false, ERR, EMPTY) is no entry"""
    d = {}
    for kv in (s or '').split():
        k, _, v = kv.partition('=')
        if _ and v not in ('nil', 'false', 'ERR', 'EMPTY', 'undef'):
            d[k] = v
    return d


def big_values(*texts):
    for t in texts:
        for m in re.finditer(r'(?:LOG:|=)(-?\d+)', t or ''):
            if abs(int(m.group(1))) > BIG:
                return True
    return False


def sid_to_index(tree):
    """document-order index of every state as LargeMicroStep numbers them after resortStates: history children
    first (reversed), then <initial>, then the rest"""
    order = []

    def rec(n):
        order.append(n['sid'])
        kids = list(n.get('kids', []))
        hist = [k for k in kids if k['kind'] in ('hs', 'hd')]
        rest = [k for k in kids if k['kind'] not in ('hs', 'hd')]
        k1 = hist[::-1] + rest
        ini = [k for k in k1 if k['kind'] == 'initial']
        rest2 = [k for k in k1 if k['kind'] != 'initial']
        for k in ini[::-1] + rest2:
            rec(k)
    rec(tree)
    return {sid: i for i, sid in enumerate(order)}


# ------------------------------------------------------------------ the oracle (on implementation output only)

def judge(case, eng, f):
    """the property oracle on ONE implementation output: (failure classes, observations).  Empty failures: the
    property holds on this snapshot/continuation pair."""
    fails, obs = [], []
    if 'SERFAIL' in f:
        return ['serialize-throws'], obs
    if 'DESERFAIL' in f:
        return ['deserialize-throws'], obs
    if 'SNAP' not in f or 'RES' not in f:
        return ['no-output'], obs
    sn, notes, text = canon_snapshot(f['SNAP'], eng)
    if sn is None:
        fails.append('state-string-unparsable')
    else:
        if 'invalid-json' in notes:
            obs.append('state-string-not-json')
        # the string describes the configuration the interpreter reports at the snapshot point
        pre = f['PRE'].split()
        cfgs = [t for t in pre if t.startswith('CFG:')]
        if cfgs and sn['cfg_set'] is not None:
            idx = sid_to_index(case['tree'])
            want = sorted(idx[int(x)] for x in cfgs[-1][4:].split(',') if x != '')
            if sorted(sn['cfg_set']) != want:
                fails.append('snapshot-configuration-wrong')
        elif sn['cfg_set'] is None:
            fails.append('snapshot-configuration-undecodable')
    to, tr = toks(f['ORIG']), toks(f['RES'])
    # pending events right after deserialisation
    oq_e, _, oq_d = f['OQ'].partition(';')
    rq_e, _, rq_d = f['RQ'].partition(';')
    if oq_e != rq_e:
        fails.append('external-events-differ')
    on, od = dq_names(oq_d)
    rn, rd = dq_names(rq_d)
    if on != rn:
        fails.append('delayed-events-lost' if not rn else 'delayed-events-differ')
    elif any(a is None or b is None or abs(a - b) > 3 for a, b in zip(od, rd)):
        fails.append('delayed-events-delay-wrong')
    if f['at'] == 'FINISHED':
        if tr[:1] != ['RET:FINISHED']:
            fails.append('finished-resumes-running')
        return fails, obs
    if tr != to or norm_data(f['OD']) != norm_data(f['RD']):
        extra = len(tr) >= 3 and tr[0] == 'STABLE' and tr[1] == 'RET:MACROSTEPPED' and tr[2].startswith('CFG:') and tr[:3] != to[:3]
        rest = tr[3:] if extra else tr
        if extra:
            fails.append('extra-stable-notice')
        # the resumed interpreter may have hit the step bound one step earlier
        nret = sum(1 for t in tr if t.startswith('RET:')) + sum(1 for t in pre if t.startswith('RET:'))
        cut = extra and nret >= FUEL
        n = min(len(rest), len(to))
        if cut:
            if rest[:n] != to[:n]:
                fails.append('continuation-differs')
        elif rest != to or norm_data(f['OD']) != norm_data(f['RD']):
            fails.append('continuation-differs')
    return fails, obs


def judge_foreign(f):
    fails = []
    if 'SERFAIL' in f:
        return ['serialize-throws']
    if 'ACCEPTED' in f:
        return ['foreign-string-accepted']
    if 'REJECTED' not in f:
        return ['no-output']
    if toks(f.get('B', '')) != toks(f.get('U', '')) or f.get('BD') != f.get('UD') or f.get('BQ', '-;-') != '-;-':
        fails.append('rejected-string-leaves-events')
    return fails


# ------------------------------------------------------------------ document-level stream (no model)
#
# The chart core has integer variables only.  Values of other kinds -- strings (empty, numeric-looking), booleans,
# nil, tables (array, map, nested, empty) -- are exercised by hand-shaped documents: one variable per document, an
# event per value that assigns it, and a continuation that logs the variable and its type, branches on it in a cond
# and sends it as a <param> of an event whose payload is logged.  Every macrostep boundary is a snapshot point; the
# oracle is the implementation against itself: ORIG == RES token by token and equal final values.

def xesc(s):
    return s.replace('&', '&amp;').replace('<', '&lt;').replace('"', '&quot;')


# (id, kind of the initial value, initialiser or None)
LUA_VARS = [('vs', 'string', "'draft'"), ('vn', 'number', '7'), ('vb', 'boolean', 'true'), ('vt', 'array', '{1,2,3}'),
            ('vm', 'nested-table', "{a={b=1},c='x'}"), ('vd', 'numeric-string', "'42'"), ('ve', 'empty-string', "''"), ('vu', 'unset', None)]
# (kind, Lua expression); 'initial' and 'other-type' are filled in per variable
LUA_VALUES = [('empty-string', "''"), ('empty-table', '{}'), ('zero', '0'), ('false', 'false'), ('nil', 'nil'), ('string-zero', "'0'"),
              ('same-as-initial', None), ('other-type', None), ('float', '1.5'), ('negative', '-3'), ('big-integer', '9007199254740993'),
              ('string-nil', "'nil'"), ('string-true', "'true'"), ('string-braces', "'{}'"), ('string-float', "'1.0'"), ('string-space', "' '"),
              ('string-quote', "'a\"b'"), ('map', '{x=1}'), ('array-of-strings', "{'a','b'}"), ('mixed-table', '{1,x=2}'),
              ('empty-table-inside', '{a={}}'), ('empty-table-inside', '{{},1}'), ('nil-in-array', '{1,nil,3}')]
PML_VARS = [('pi', 'int', '5'), ('pb', 'bool', 'true'), ('pz', 'int', '0'), ('py', 'byte', '3')]
PML_VALUES = [('zero', '0'), ('false', 'false'), ('one', '1'), ('true', 'true'), ('same-as-initial', None), ('sum', '(2+3)')]


def doc_values(dm, var):
    vid, vkind, init = var
    out = []
    for kind, e in (LUA_VALUES if dm == 'lua' else PML_VALUES):
        if kind == 'same-as-initial':
            e = init if init is not None else 'nil'
        elif kind == 'other-type':
            e = '5' if vkind in ('string', 'numeric-string', 'empty-string') else "'other'"
        out.append((kind, e))
    return out


def document(dm, vars_, only_value=None):
    """one state; per variable: set.<id>.<n> assigns the n-th value, chk.<id> branches on it, snd.<id> sends it;
    show logs every variable (Lua: and its type)"""
    s = '<?xml version="1.0"?><scxml xmlns="http://www.w3.org/2005/07/scxml" version="1.0" datamodel="%s" name="m"><datamodel>' % dm
    for vid, vkind, init in vars_:
        if dm == 'lua':
            s += '<data id="%s"%s/>' % (vid, (' expr="%s"' % xesc(init)) if init is not None else '')
        else:
            s += '<data id="%s" type="%s" expr="%s"/>' % (vid, vkind, init)
    s += '</datamodel><state id="s1">'
    for var in vars_:
        vid = var[0]
        for n, (kind, e) in enumerate(doc_values(dm, var)):
            if only_value is None or only_value == n:
                s += '<transition event="set.%s.%d"><assign location="%s" expr="%s"/></transition>' % (vid, n, vid, xesc(e))
        if dm == 'lua':
            cnd = "(%s == nil) or (%s == '') or (%s == 0) or (%s == false) or (type(%s) == 'table' and next(%s) == nil)" % ((vid,) * 6)
            s += '<transition event="chk.%s" cond="%s"><log label="chk" expr="\'emptyish\'"/></transition>' % (vid, xesc(cnd))
            s += '<transition event="chk.%s"><log label="chk" expr="\'other\'"/></transition>' % vid
        else:
            s += '<transition event="chk.%s" cond="%s == 0"><log label="chk" expr="0"/></transition>' % (vid, vid)
            s += '<transition event="chk.%s"><log label="chk" expr="1"/></transition>' % vid
        s += '<transition event="snd.%s"><send event="got"><param name="p" expr="%s"/></send></transition>' % (vid, vid)
    s += '<transition event="got"><log label="got" expr="_event.data.p"/></transition><transition event="show">'
    for vid, vkind, init in vars_:
        s += '<log label="%s" expr="%s"/>' % (vid, vid)
        if dm == 'lua':
            s += '<log label="type.%s" expr="type(%s)"/>' % (vid, vid)
    return s + '</transition></state></scxml>'


def doc_line(eng, xml, k, hist):
    return 'serialize-resume-doc %s %s %d %d %s' % (eng, xml.encode('latin-1').hex(), FUEL, k, ' '.join(h.encode().hex() for h in hist))


def build_doc_cases():
    """(datamodel, variables of the document, variable under test, index of the value, kind of the value, history)"""
    cases = []
    # corpus first: literal documents (regressions, witnesses of known findings)
    for d in json.load(open(os.path.join(ROOT, 'corpus', 'c14.json'))).get('documents', []):
        var = tuple(d['var'])
        cases.append({'dm': d['dm'], 'vars': [var], 'var': var, 'n': d['n'], 'kind': d['kind'], 'expr': d['expr'], 'hist': list(d['history']),
                      'xml': d['scxml'], 'origin': 'corpus:' + d['name']})
    for dm, vars_ in (('lua', LUA_VARS), ('promela', PML_VARS)):
        for var in vars_:
            for n, (kind, e) in enumerate(doc_values(dm, var)):
                cases.append({'dm': dm, 'vars': [var], 'var': var, 'n': n, 'kind': kind, 'expr': e,
                              'hist': ['set.%s.%d' % (var[0], n), 'show', 'chk.%s' % var[0], 'snd.%s' % var[0]]})
        # all variables in one document: the value of one is changed, every one is looked at afterwards
        for var in vars_:
            for n, (kind, e) in enumerate(doc_values(dm, var)):
                if kind in ('empty-string', 'empty-table', 'nil', 'false', 'zero', 'same-as-initial'):
                    cases.append({'dm': dm, 'vars': list(vars_), 'var': var, 'n': n, 'kind': kind, 'expr': e,
                                  'hist': ['set.%s.%d' % (var[0], n), 'show'] + ['chk.%s' % v[0] for v in vars_] + ['snd.%s' % var[0]]})
    return cases


def doc_data(s):
    d = {}
    for kv in (s or '').split():
        k, _, v = kv.partition('=')
        if _:
            try:
                d[k] = bytes.fromhex(v).decode('latin-1') if v not in ('ERR', '-') else v
            except ValueError:
                d[k] = v
    return d


def doc_readable(tokens):
    out = []
    for t in tokens.split():
        if t.startswith('LOG:'):
            out.append('LOG<%s>' % (bytes.fromhex(t[4:]).decode('latin-1') if t[4:] != '-' else ''))
        elif t.startswith('EV:'):
            out.append('EV<%s>' % bytes.fromhex(t[3:]).decode('latin-1'))
        elif t.startswith('RET:') or t == 'STABLE':
            out.append(t)
    return ' '.join(out)


def judge_doc(case, f):
    """failure classes of one snapshot/continuation pair of the document stream: list of (class, variable, index of
    the assigned value or None when the variable still has its initial value)"""
    assigned = ('EV:' + case['hist'][0].encode().hex()) in f.get('PRE', '').split()
    kind = case['kind'] if assigned else 'initial:' + case['var'][1]
    me = (case['var'], case['n'] if assigned else None)
    if 'SERFAIL' in f:
        return [('serialize-throws:' + kind,) + me]
    if 'DESERFAIL' in f:
        return [('deserialize-throws:' + kind,) + me]
    if 'RES' not in f or 'ORIG' not in f:
        return [('no-output',) + me]
    od, rd = doc_data(f.get('OD')), doc_data(f.get('RD'))
    if toks(f['ORIG']) == toks(f['RES']) and od == rd:
        return []
    bad = [v for v in od if od.get(v) != rd.get(v)]
    if not bad or case['var'][0] in bad:
        return [('data-value-not-restored:' + kind,) + me]
    byid = dict((v[0], v) for v in case['vars'])
    return [('data-value-not-restored:initial:' + byid[v][1], byid[v], None) for v in bad if v in byid]


def run_doc_stream(c, vd, engines):
    """returns (classes: class -> list of (case, engine, k, fields, xml), number of pairs, distribution)"""
    cases = build_doc_cases()
    xmls = [x.get('xml') or document(x['dm'], x['vars']) for x in cases]
    probe, pidx = [], []
    for ci, x in enumerate(cases):
        for eng in engines:
            probe.append(doc_line(eng, xmls[ci], 9999, x['hist']))
            pidx.append((ci, eng))
    pouts, _ = run_robust(vd, probe)
    pairs = []
    for (ci, eng), o in zip(pidx, pouts):
        if o.startswith('INTERMITTENT'):
            o = o.split(' || ', 1)[1]
        for k in range(fields(o).get('nb') or 0):
            pairs.append((ci, eng, k))
    outs, _ = run_robust(vd, [doc_line(eng, xmls[ci], k, cases[ci]['hist']) for ci, eng, k in pairs])
    classes = {}
    dist = {'pairs': len(pairs), 'documents': len(set(xmls)), 'by_datamodel': {}, 'by_value_kind_at_snapshot': {}}
    for (ci, eng, k), o in zip(pairs, outs):
        x = cases[ci]
        if o.startswith('INTERMITTENT'):
            o = o.split(' || ', 1)[1]
        dist['by_datamodel'][x['dm']] = dist['by_datamodel'].get(x['dm'], 0) + 1
        if o.startswith('CRASH') or o.startswith('EXC') or o.startswith('ERR'):
            classes.setdefault('crash:' + x['kind'], []).append((x, eng, k, {}, xmls[ci], x['var'], x['n']))
            continue
        f = fields(o)
        assigned = ('EV:' + x['hist'][0].encode().hex()) in f.get('PRE', '').split()
        kd = x['kind'] if assigned else 'initial:' + x['var'][1]
        dist['by_value_kind_at_snapshot'][kd] = dist['by_value_kind_at_snapshot'].get(kd, 0) + 1
        for cls, var, n in judge_doc(x, f):
            classes.setdefault(cls, []).append((x, eng, k, f, xmls[ci], var, n))
    return classes, len(pairs), dist


def minimal_doc_replay(vd, x, eng, k, f, xml, var, n, cls):
    """the smallest document that still shows the failure: only the failing variable and only the assigned value"""
    small = document(x['dm'], [var], only_value=(n if n is not None else -1))
    hist = (['set.%s.%d' % (var[0], n)] if n is not None else []) + ['show', 'chk.%s' % var[0], 'snd.%s' % var[0]]
    probe = {'dm': x['dm'], 'vars': [var], 'var': var, 'n': n, 'kind': x['kind'], 'hist': hist if n is not None else ['-'] + hist}
    try:
        rc, o, _ = run_lines(vd, [doc_line(eng, small, 9999, hist)], timeout=60)
        nb = fields(o[0]).get('nb') or 0
        rc, outs, _ = run_lines(vd, [doc_line(eng, small, kk, hist) for kk in range(nb)], timeout=120)
        for kk, o in enumerate(outs):
            f2 = fields(o)
            if any(c2.split(':')[0] == cls.split(':')[0] for c2, _, _ in judge_doc(probe, f2)):
                return small, hist, kk, f2
    except Exception:
        pass
    return xml, x['hist'], k, f


# ------------------------------------------------------------------ the check

def detect_switches(c, vd, corpus):
    """defect switches of the implementation from the corpus witnesses (each distinguishes one switch)"""
    sw = {}
    notes = {}
    byname = {w['name']: w for w in corpus['cases']}

    def caseof(name):
        w = byname[name]
        return {'tree': tree_from_json(w['tree']), 'dm': w['dm'], 'late': w['late'],
                'hist': [x if x == '@t' else x.encode('latin-1') for x in w['history']]}
    w = corpus['switch_witnesses']
    lines = [impl_line('large', caseof(w['stable_lost']['case']), w['stable_lost']['k']),
             impl_line('large', caseof(w['delay_lost']['case']), w['delay_lost']['k']),
             impl_line('large', caseof(w['final_lost']['case']), w['final_lost']['k']),
             impl_foreign_line('large', caseof(w['queue_before_md5']['case']), caseof(w['queue_before_md5']['other']), w['queue_before_md5']['k']),
             impl_line('large', caseof(w['undeclared_restored']['case']), w['undeclared_restored']['k'])]
    outs, _ = run_robust(vd, lines)
    f = [fields(o) for o in outs]
    sw['stable_lost'] = 1 if toks(f[0].get('RES', ''))[:1] == ['STABLE'] else 0
    sw['delay_lost'] = 1 if f[1].get('OQ', '').partition(';')[2] not in ('-', '') and f[1].get('RQ', '').partition(';')[2] in ('-', '') else 0
    sw['final_lost'] = 1 if f[2].get('at') == 'FINISHED' and toks(f[2].get('RES', ''))[:1] != ['RET:FINISHED'] else 0
    sw['queue_before_md5'] = 1 if 'REJECTED' in f[3] and f[3].get('BQ', '-;-') != '-;-' else 0
    # promela only: the value `false` written for a never initialised <data> declares it in the resumed interpreter
    sw['undeclared_restored'] = 1 if 'LOG:5' in toks(f[4].get('RES', '')) and 'LOG:5' not in toks(f[4].get('ORIG', '')) else 0
    for i, n in enumerate(['stable_lost', 'delay_lost', 'final_lost', 'queue_before_md5', 'undeclared_restored']):
        notes[n] = {'present': bool(sw[n]), 'witness_output': outs[i][:300]}
    return sw, notes


def replay_payload(case, eng, k, extra, foreign=None):
    r = {'origin': case['origin'], 'engine': eng, 'datamodel': case['dm'], 'late_binding': case['late'],
         'history': [x if x == '@t' else x.decode('latin-1') for x in case['hist']], 'snapshot_point_k': k,
         'scxml': xml_of(case['tree'], case['dm'], case['late']), 'chart_sexp': G.sx_tree(case['tree'])}
    r.update(extra)
    line = impl_foreign_line(eng, case, foreign, k) if foreign else impl_line(eng, case, k)
    r['replay_cmd'] = "echo '%s' | /verif/.build/vdriver-hooks/vdriver" % line
    return r


def size_key(case, k):
    return (len(G.sx_tree(case['tree'])), len(case['hist']), k)


def run(c):
    broken = c.prove()
    vd = ensure_vdriver('hooks', units=['vd_serialize'])
    vm = ensure_vmodel('serialize')
    corpus = json.load(open(os.path.join(ROOT, 'corpus', 'c14.json')))
    c.assumptions += [
        'md5 distinguishes the compared documents (foreign_state_rejected is stated for documents with different digests)',
        'the datamodels evaluate the rendered integer expressions as the abstract integer datamodel does; values beyond 2^30 are not compared',
        'delayed sends use delays of 100 s and more: no timer fires on its own during a run; the tick input makes every pending timer due in due order (event_active on the timer objects of BasicDelayedEventQueue, nothing else is touched)',
        'Data::asJSON / Data::fromJSON transport the state string unchanged for the values occurring here (C15 covers the codec)',
        'a state index never exceeds 2^32 (strTo<uint32_t>), a bit array is shorter than 2^64 bits',
        'document stream: the data values are compared as the datamodel prints them (evalAsData -> JSON text, <log> text); two values that print alike are not distinguished',
    ]
    sw, swnotes = detect_switches(c, vd, corpus)
    c.notes['defect_switches'] = swnotes
    def szf_of(case):
        # the undeclared-data switch is a property of the Promela datamodel
        return ''.join(str(sw[n] if (n != 'undeclared_restored' or case['dm'] == 'promela') else 0) for n in SW_NAMES)
    szf = ''.join(str(sw[n]) for n in SW_NAMES)
    # defect switches of the chart core (large engine), as C01 determines them
    try:
        from chart_runs import detect_vflags
        vflags, vnotes = detect_vflags(c)
    except Exception as ex:   # the chart core is under construction elsewhere: assume the repaired engine
        vflags, vnotes = '0000', {'error': str(ex)}
    c.notes['chart_core_switches'] = vnotes

    base = build_base_cases(c)
    engines = ('large', 'fast')
    # pass 1: number of boundaries of every (case, engine)
    probe, pidx = [], []
    for ci, case in enumerate(base):
        for eng in engines:
            probe.append(impl_line(eng, case, 9999))
            pidx.append((ci, eng))
    pouts, pcr = run_robust(vd, probe)
    pairs = []
    for (ci, eng), o in zip(pidx, pouts):
        if o.startswith('INTERMITTENT'):
            o = o.split(' || ', 1)[1]
        f = fields(o)
        nb = f.get('nb') or 0
        for k in range(nb):
            pairs.append((ci, eng, k))
    lines = [impl_line(eng, base[ci], k) for ci, eng, k in pairs]
    outs, crashes = run_robust(vd, lines)
    mouts, _ = run_lines_sharded(vm, [model_line(eng, vflags, szf_of(base[ci]), base[ci], k) for ci, eng, k in pairs], timeout=1500)

    classes = {}          # failure class -> list of pair indices
    disagreements = []    # (pair index, field)
    core_disagree = 0
    skipped_big = 0
    nontriv = set()
    observations = {}
    hist = {'pairs': len(pairs), 'by_origin': {}, 'by_engine': {}, 'by_at': {}, 'with_history_recorded': 0, 'with_late_data_initialised': 0,
            'with_pending_external': 0, 'with_pending_delayed': 0, 'continuation_nonempty': 0}
    for pi, ((ci, eng, k), o, mo) in enumerate(zip(pairs, outs, mouts)):
        case = base[ci]
        org = case['origin'].split(':')[0]
        hist['by_origin'][org] = hist['by_origin'].get(org, 0) + 1
        hist['by_engine'][eng] = hist['by_engine'].get(eng, 0) + 1
        if o.startswith('INTERMITTENT'):
            # the child process died or hung once while this line was being worked on and answered when the line was
            # run again on its own.  Interpreters of EARLIER lines are destroyed concurrently on the reaper thread of
            # the driver; the races of that tear-down (timer thread, pending delayed events) are the subject of C09 /
            # C10 and cannot be attributed to this input: recorded as an observation, the answer of the re-run is judged
            kind = 'intermittent-hang' if 'rc=-999' in o else 'intermittent-crash'
            observations[kind] = observations.get(kind, 0) + 1
            o = o.split(' || ', 1)[1]
        if o.startswith('CRASH') or o.startswith('EXC') or o.startswith('ERR'):
            classes.setdefault(('hang' if 'rc=-999' in o else 'crash') if o.startswith('CRASH') else 'driver-exception', []).append(pi)
            continue
        f = fields(o)
        hist['by_at'][f['at']] = hist['by_at'].get(f['at'], 0) + 1
        if big_values(f.get('PRE'), f.get('ORIG'), f.get('RES'), f.get('OD'), f.get('RD')):
            skipped_big += 1
            continue
        fl, ob = judge(case, eng, f)
        for o_ in ob:
            observations[o_] = observations.get(o_, 0) + 1
        mf = fields(mo) if not (mo.startswith('EXC') or mo.startswith('ERR')) else {}
        if 'continuation-differs' in fl and 'RES' in mf and toks(mf['RES']) == toks(f['RES']) and norm_data(mf.get('RD')) == norm_data(f.get('RD')) \
                and toks(mf.get('ORIG', '')) == toks(f['ORIG']):
            # the model, instantiated with the switches the implementation shows, predicts this very continuation:
            # the difference is the consequence of a lost / invented component, not a further defect
            fl.remove('continuation-differs')
            if 'delayed-events-lost' in fl:
                pass
            elif case['dm'] == 'promela' and case['late'] and sw['undeclared_restored']:
                fl.append('undeclared-data-declared-by-resume')
            else:
                fl.append('continuation-differs')
        for cls in fl:
            classes.setdefault(cls, []).append(pi)
        # coverage
        sn, notes, _ = canon_snapshot(f['SNAP'], eng) if 'SNAP' in f else (None, [], '')
        nt = False
        if sn:
            if sn['hist'] not in ('[]', '') and not (eng == 'fast' and set(unb64_bits(sn['hist'].strip('"'))) == set()):
                hist['with_history_recorded'] += 1
                nt = True
            if case['late'] and (sn['initd'] not in ('[0]',)):
                hist['with_late_data_initialised'] += 1
                nt = True
        oq_e, _, oq_d = f.get('OQ', '-;-').partition(';')
        if oq_e != '-':
            hist['with_pending_external'] += 1
            nt = True
        if oq_d != '-':
            hist['with_pending_delayed'] += 1
            nt = True
        if len(toks(f.get('ORIG', ''))) > 4:
            hist['continuation_nonempty'] += 1
        if nt or k > 1:
            nontriv.add((G.sx_tree(case['tree']), tuple(case['hist']), k))
        # correspondence with the model
        if mo.startswith('EXC') or mo.startswith('ERR'):
            disagreements.append((pi, 'model-exception'))
            continue
        mf = fields(mo)
        if toks(mf.get('PRE', '')) != toks(f.get('PRE', '')) or ('RES' in f and (toks(mf.get('ORIG', '')) != toks(f.get('ORIG', '')) or
                                                                         norm_data(mf.get('OD')) != norm_data(f.get('OD')))):
            core_disagree += 1      # chart-core behaviour (C01/C03's business), not the serialisation
            continue
        if sn and 'SNAP' in mf:
            ms = model_snapshot(mf['SNAP'])
            for key in ('cfg', 'hist', 'initd', 'inv', 'data', 'eq'):
                a, b = sn[key], ms.get(key)
                if key == 'data':
                    # an undefined value: Lua prints nil, Promela false, the repaired code writes nothing
                    a = ','.join(x for x in a.split(',') if not x.endswith(':undef')) or '-'
                    b = ','.join(x for x in (b or '-').split(',') if not x.endswith(':undef')) or '-'
                if a != b:
                    disagreements.append((pi, 'snapshot.' + key))
                    break
            else:
                mdq, _ = dq_names(ms.get('dq', '-'))
                if sorted(n.encode('latin-1').hex() or '-' for n in sn['dq']) != sorted(mdq):
                    disagreements.append((pi, 'snapshot.dq'))
                elif sn.get('flags') is not None:
                    # repaired code: STABLE = 32, TOP_LEVEL_FINAL = 4, FINISHED = 16
                    fl = int(sn['flags'])
                    want = (ms.get('stable'), ms.get('final'))
                    got = ('1' if fl & 32 else '0', ('1' if fl & 4 else '0') + ('1' if fl & 16 else '0'))
                    if want != got and want != ('none', 'none'):
                        disagreements.append((pi, 'snapshot.flags'))
        # every field of every pending event (name, type, hideSendId, sendid, origintype, invokeid, data, namelist,
        # params; delayed events by their uuid) is the same in the resumed interpreter -- implementation against itself
        if 'OQF' in f and 'RQF' in f and f['OQF'] != f['RQF'] and \
                f['OQ'].partition(';')[0] == f['RQ'].partition(';')[0] and dq_names(f['OQ'].partition(';')[2])[0] == dq_names(f['RQ'].partition(';')[2])[0]:
            classes.setdefault('pending-event-fields', []).append(pi)
        for tag in ('OQ', 'RQ'):
            if tag in f and tag in mf:
                ie, _, idq = f[tag].partition(';')
                me, _, mdq = mf[tag].partition(';')
                if ie != me or dq_names(idq)[0] != dq_names(mdq)[0]:
                    disagreements.append((pi, tag))
        if 'RES' in f and 'RES' in mf:
            if toks(f['RES']) != toks(mf['RES']):
                disagreements.append((pi, 'RES'))
            elif norm_data(f.get('RD')) != norm_data(mf.get('RD')):
                disagreements.append((pi, 'RD'))
        elif ('RES' in f) != ('RES' in mf):
            disagreements.append((pi, 'outcome'))

    # the hypotheses of the theorems, evaluated on every generated chart
    hyp, _ = run_lines_sharded(vm, ['hyp %d %s' % (1 if x['late'] else 0, G.sx_tree(x['tree'])) for x in base], timeout=600)
    hist['charts'] = len(base)
    hist['charts_satisfying_theorem_hypotheses'] = sum(1 for h in hyp if 'named=1' in h and 'bounded=1' in h)
    hist['max_states'] = max([int(m.group(1)) for m in (re.search(r'n=(\d+)', h) for h in hyp) if m] + [0])

    # foreign documents
    frng = random.Random(c.seed * 31 + 5)
    fpairs = []
    nf = 300 if c.tier == 'quick' else 3000
    cand = [i for i, x in enumerate(base)]
    while len(fpairs) < nf:
        a, b = frng.choice(cand), frng.choice(cand)
        if xml_of(base[a]['tree'], base[a]['dm'], base[a]['late']) == xml_of(base[b]['tree'], base[b]['dm'], base[b]['late']):
            continue
        fpairs.append((a, b, frng.choice(engines), frng.randint(0, 3)))
    # a document that differs from the original in one attribute value only
    for a in cand[:40]:
        t2 = copy.deepcopy(base[a]['tree'])
        props = G.proper_states(t2)
        props[-1].setdefault('onentry', []).append([('raise', 990, b'zz')])
        fpairs.append((a, len(base), 'large', 0))
        base.append({'tree': t2, 'dm': base[a]['dm'], 'late': base[a]['late'], 'hist': base[a]['hist'], 'origin': 'variant-of:' + base[a]['origin']})
    flines = [impl_foreign_line(eng, base[a], base[b], k) for a, b, eng, k in fpairs]
    fouts, fcr = run_robust(vd, flines)
    fm, _ = run_lines_sharded(vm, [model_foreign_line(eng, vflags, szf_of(base[b]), base[a], base[b], k) for a, b, eng, k in fpairs], timeout=1500)
    fclasses = {}
    fdis = []
    nfor = 0
    for fi, ((a, b, eng, k), o, mo) in enumerate(zip(fpairs, fouts, fm)):
        if o.startswith('INTERMITTENT'):
            kind = 'intermittent-hang' if 'rc=-999' in o else 'intermittent-crash'
            observations[kind] = observations.get(kind, 0) + 1
            o = o.split(' || ', 1)[1]
        if o.startswith('CRASH'):
            fclasses.setdefault('crash', []).append(fi)
            continue
        f = fields(o)
        if f['at'] == 'NONE':
            continue
        nfor += 1
        if big_values(f.get('B'), f.get('U')):
            continue
        for cls in judge_foreign(f):
            fclasses.setdefault(cls, []).append(fi)
        mf = fields(mo)
        if mf['at'] != f['at']:
            continue      # document A runs differently in the chart-core model: not judged here
        if ('REJECTED' in f) != ('REJECTED' in mf):
            fdis.append((fi, 'verdict'))
        elif toks(mf.get('U', '')) == toks(f.get('U', '')) and toks(mf.get('B', '')) != toks(f.get('B', '')):
            fdis.append((fi, 'B'))

    # document-level stream: values of every kind, implementation against itself
    dclasses, ndoc, ddist = run_doc_stream(c, vd, engines)
    c.cov['document_stream'] = dict(ddist, oracle_failures={k: len(v) for k, v in dclasses.items()})

    c.cov['evaluations'] = len(pairs) + nfor + ndoc
    c.cov['distinct_nontrivial'] = len(nontriv)
    c.cov['rule'] = ('corpus witnesses + seeded random charts of tools/chartgen.py (classes: plain, forced history state, binding=late with an inner '
                     '<data>, delayed <send> with tick inputs, null datamodel) x one history of <= 4 inputs each; EVERY macrostep boundary of the '
                     'history (step() = MACROSTEPPED / IDLE / FINISHED) is a snapshot point; both engines; lua and promela; plus state strings given '
                     'to interpreters of other documents.  evaluations = snapshot/continuation pairs executed on the implementation (+ foreign '
                     'pairs); non-trivial = distinct (chart, history, k) with a recorded history value, initialised late data, a pending external '
                     'or delayed event, or k > 1.  Document stream (no model, implementation against itself): one Lua / Promela document per '
                     'variable kind (string, number, boolean, array, nested table, numeric-looking string, empty string, unset; int, bool, byte) '
                     'with an event per value kind that assigns it (empty string, empty table, 0, false, nil, "0", the initial value, a value of '
                     'another type, float, big integer, strings that look like nil/true/{}/1.0, maps, tables with empty tables or nil inside) and a '
                     'continuation that logs the variable and its type, branches on it and sends it as a payload; every boundary a snapshot point')
    hist['foreign_pairs'] = nfor
    hist['skipped_values_beyond_2^30'] = skipped_big
    hist['chart_core_disagreements_not_judged_here'] = core_disagree
    c.cov['input_distribution'] = hist
    c.cov['oracle_failures'] = {k: len(v) for k, v in classes.items()}
    c.cov['observations'] = observations
    c.cov['oracle_failures_foreign'] = {k: len(v) for k, v in fclasses.items()}
    c.cov['model_disagreements'] = len(disagreements) + len(fdis)
    c.cov['defect_switch_vector'] = sw
    if pairs:
        s_i = len(pairs) // 2
        c.cov['samples'] = [{'origin': base[pairs[i][0]]['origin'], 'engine': pairs[i][1], 'k': pairs[i][2],
                             'history': [x if x == '@t' else x.decode() for x in base[pairs[i][0]]['hist']],
                             'impl': outs[i][:700], 'model': mouts[i][:500]} for i in (s_i, len(pairs) - 1)]

    # ---- report
    explained = set(CLASS_OF_SWITCH[n] for n in SW_NAMES if sw[n])
    for cls, idxs in sorted(classes.items()):
        kf = c.match_known({'class': cls})
        if kf:
            c.known(kf['id'], kf['what'] + ' (%d snapshot points this run)' % len(idxs))
            continue
        pi = sorted(idxs, key=lambda i: size_key(base[pairs[i][0]], pairs[i][2]))[0]
        ci, eng, k = pairs[pi]
        f = fields(outs[pi]) if not outs[pi].startswith('CRASH') else {}
        c.violation(replay_payload(base[ci], eng, k, {
            'kind': 'oracle', 'class': cls, 'count': len(idxs),
            'expected': 'the resumed interpreter continues exactly as the original: same trace, same data, same pending events',
            'observed_original': f.get('ORIG', '')[:600], 'observed_resumed': f.get('RES', f.get('DESERFAIL', f.get('SERFAIL', outs[pi])))[:600],
            'pending_original': f.get('OQ'), 'pending_resumed': f.get('RQ'),
            'state_string': bytes.fromhex(f['SNAP']).decode('latin-1')[:1500] if f.get('SNAP') and f['SNAP'] != '-' else None,
            'explained_by_model_switch': cls in explained}))
    for cls, idxs in sorted(fclasses.items()):
        kf = c.match_known({'class': cls})
        if kf:
            c.known(kf['id'], kf['what'] + ' (%d foreign strings this run)' % len(idxs))
            continue
        fi = sorted(idxs, key=lambda i: size_key(base[fpairs[i][0]], fpairs[i][3]) + size_key(base[fpairs[i][1]], 0))[0]
        a, b, eng, k = fpairs[fi]
        f = fields(fouts[fi]) if not fouts[fi].startswith('CRASH') else {}
        c.violation(replay_payload(base[a], eng, k, {
            'kind': 'oracle', 'class': cls, 'count': len(idxs), 'other_document': xml_of(base[b]['tree'], base[b]['dm'], base[b]['late']),
            'expected': 'the string of the other document is rejected and the rejecting interpreter behaves as an untouched one',
            'observed_after_rejection': f.get('B', '')[:600], 'untouched': f.get('U', '')[:600], 'queues_after_rejection': f.get('BQ'),
            'explained_by_model_switch': cls in explained}, foreign=base[b]))
    for cls, hits in sorted(dclasses.items()):
        kf = c.match_known({'class': cls})
        if kf:
            c.known(kf['id'], kf['what'] + ' (%d snapshot points of the document stream this run)' % len(hits))
            continue
        x, eng, k, f, xml, var, n = sorted(hits, key=lambda h: (len(h[4]), h[2], h[1]))[0]
        xml, dh, k, f = minimal_doc_replay(vd, x, eng, k, f, xml, var, n, cls)
        c.violation({'kind': 'oracle', 'class': cls, 'count': len(hits), 'stream': 'documents', 'engine': eng, 'datamodel': x['dm'],
                     'variable': var[0], 'initial_value': var[2], 'assigned_value': (doc_values(x['dm'], var)[n][1] if n is not None else None), 'history': dh, 'snapshot_point_k': k,
                     'scxml': xml,
                     'expected': 'the resumed interpreter continues exactly as the original: same trace (log output, cond, payload), same final values',
                     'observed_original': doc_readable(f.get('ORIG', ''))[:900], 'observed_resumed': doc_readable(f.get('RES', ''))[:900] or str(f)[:600],
                     'final_values_original': doc_data(f.get('OD')), 'final_values_resumed': doc_data(f.get('RD')),
                     'state_string': bytes.fromhex(f['SNAP']).decode('latin-1')[:1500] if f.get('SNAP') and f['SNAP'] != '-' else None,
                     'replay_cmd': "echo '%s' | /verif/.build/vdriver-hooks/vdriver" % doc_line(eng, xml, k, dh)})
    any_oracle = bool(classes) or bool(fclasses) or bool(dclasses)
    if disagreements or fdis:
        if disagreements:
            pi, what = sorted(disagreements, key=lambda d: size_key(base[pairs[d[0]][0]], pairs[d[0]][2]))[0]
            ci, eng, k = pairs[pi]
            c.violation(replay_payload(base[ci], eng, k, {
                'kind': 'correspondence', 'field': what, 'count': len(disagreements),
                'what': 'Serialize.v (switch vector %s) and the implementation differ in %s' % (szf, what),
                'model': mouts[pi][:1500], 'observed': outs[pi][:1500]}), no_input=not any_oracle)
        else:
            fi, what = fdis[0]
            a, b, eng, k = fpairs[fi]
            c.violation(replay_payload(base[a], eng, k, {'kind': 'correspondence', 'field': 'foreign.' + what, 'count': len(fdis),
                                                         'model': fm[fi][:1500], 'observed': fouts[fi][:1500]}, foreign=base[b]), no_input=not any_oracle)
    only_known = all(c.match_known({'class': k}) for k in list(classes) + list(fclasses) + list(dclasses))
    if broken and (not any_oracle or only_known):
        for b in broken:
            c.violation({'kind': 'obligation', 'theorem': b['name'], 'why': b.get('why', '')}, no_input=True)
    return c.finish()
