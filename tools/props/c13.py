"""C13 -- monitor notifications are a well-nested, complete account of execution."""
from vlib import *
from chart_common import *
from chart_runs import *
from chart_eval import *


def run(c):
    broken = c.prove()
    vflags, notes = detect_vflags(c)
    cases = build_cases(c)
    res = run_cases(c, cases, 'sem', vflags=vflags)
    fcases = build_cases(c, faults=0.25)
    fres = run_cases(c, fcases, 'faults', want_spec=False, vflags=vflags)
    vm = ensure_vmodel('chart')
    c.assumptions += ['the grammar of Trace.v / DESIGN.md Appendix E is the reading of "balanced and well nested" used',
                      'vd_run.cpp records every InterpreterMonitor callback; cancellation is covered by C10']
    lines, owners = [], []
    for tag, cs, rs in (('sem', cases, res), ('faults', fcases, fres)):
        for eng in ('large', 'fast'):
            for i, case in enumerate(cs):
                l = rs[eng][i]
                if l.startswith('CRASH') or l.startswith('EXC'):
                    continue
                toks = canon(l)[0]
                lines.append('wf ' + ' '.join(toks))
                owners.append((tag, eng, i, toks))
    # delayed events a chart sends to its own internal queue arrive while the machine is stable and idle
    dl_docs = delayed_docs()
    vd = ensure_vdriver('hooks', units=['vd_run'])
    dl_lines = ['runw %s %s 60 - %s' % (eng, d.encode().hex(), ev) for eng in ('large', 'fast') for (d, ev) in dl_docs]
    dl_out, _ = run_lines_sharded(vd, dl_lines, timeout=600)
    dl_owner = [(eng, k) for eng in ('large', 'fast') for k in range(len(dl_docs))]
    for (eng, k), l in zip(dl_owner, dl_out):
        toks = canon(l)[0]
        lines.append('wf ' + ' '.join(toks))
        owners.append(('delayed', eng, k, toks))
    # <script> elements (lua), in particular document-level ones (children of <scxml>, run when the root is entered): every
    # executed element has to be reported exactly once, in execution order
    sc_docs = script_docs()
    sc_lines = ['run %s %s 60 1 %s' % (eng, d.encode().hex(), ev) for eng in ('large', 'fast') for (d, ev, exp) in sc_docs]
    sc_out, _ = run_lines_sharded(vd, sc_lines, timeout=600)
    sc_owner = [(eng, k) for eng in ('large', 'fast') for k in range(len(sc_docs))]
    sc_bad = []
    for (eng, k), l in zip(sc_owner, sc_out):
        toks = canon(l)[0]
        lines.append('wf ' + ' '.join(toks))
        owners.append(('script', eng, k, toks))
        got = [t[3:] for t in toks if t.startswith('C{:')]
        if got != sc_docs[k][2]:
            sc_bad.append((eng, k, 'executed elements reported %s, executed (in order) %s' % (' '.join(got), ' '.join(sc_docs[k][2]))))
    c.cov['script_documents'] = len(sc_lines)
    out, _ = run_lines_sharded(vm, lines)
    # the completeness half: the extracted checker trace_completeb (TraceComplete.v; the statement of
    # large_trace_complete / fast_trace_complete) applied to every implementation trace of a generated chart
    tc_lines, tc_owner = [], []
    for k, (tag, eng, i, toks) in enumerate(owners):
        if tag in ('delayed', 'script'):
            continue
        case = (cases if tag == 'sem' else fcases)[i]
        tc_lines.append('tc %d %s %s' % (1 if case['late'] else 0, G.sx_tree(case['tree']), ' '.join(toks)))
        tc_owner.append(k)
    tc_out, _ = run_lines_sharded(vm, tc_lines)
    tc_res = dict(zip(tc_owner, tc_out))
    c.cov['trace_completeb_applied'] = len(tc_lines)
    c.cov['trace_completeb_hypotheses_failed'] = sum(1 for o in tc_out if o.startswith('-'))
    compl_unreported = 0
    bad = []
    nontriv = set()
    for k, ((tag, eng, i, toks), o) in enumerate(zip(owners, out)):
        if any(t.startswith('C{:') for t in toks):
            nontriv.add(hash(tuple(toks)))
        if o != '1':
            bad.append((tag, eng, i, 'not well nested: ' + o))
            continue
        d = delta_check(toks)
        if d:
            bad.append((tag, eng, i, d))
        else:
            r = tc_res.get(k)
            if r is not None and not (r == '1' or r.startswith('-')):
                bad.append((tag, eng, i, 'incomplete account (trace_completeb): first offending token ' + r[2:]))
        # literal reading of the property: the states active at completion are exited (their onexit handlers run inside
        # the completion bracket) without an exit notification
        if 'COMPL{' in toks:
            a = toks.index('COMPL{')
            before = [t for t in toks[:a] if t.startswith('CFG:')]
            if before and before[-1] != 'CFG:' and not any(t.startswith('X{:') for t in toks[a:]):
                compl_unreported += 1
    c.cov['evaluations'] = len(owners)
    c.cov['distinct_nontrivial'] = len(nontriv)
    c.cov['rule'] = ('every trace of the C01 runs and of the fault-injection runs (failing elements at random positions of executable blocks), '
                     'both engines, judged by the extracted recogniser wf_traceb and by the completeness cross-check (configuration after each '
                     'microstep = (before - exited) + entered, nothing exited/entered twice, one stable notice per MACROSTEPPED); non-trivial = '
                     'distinct trace with at least one executable-content bracket')
    c.cov['samples'] = [' '.join(owners[len(owners) // 2][3][:60])]
    c.cov['ill_formed'] = len(bad)
    c.cov['runs_with_unreported_completion_exits'] = compl_unreported
    if compl_unreported:
        f = c.match_known({'class': 'completion-exits-unreported'})
        if f:
            c.known(f['id'], f['what'] + ' (%d runs this run)' % compl_unreported)
        else:
            c.violation({'kind': 'oracle', 'class': 'completion-exits-unreported', 'count': compl_unreported})
    if vflags[3] == '1':
        f = c.match_known({'switch': 'if_bracket_left_open_on_nested_error'})
        if f:
            c.known(f['id'], f['what'])
    seen = set()
    for eng, k, why in sc_bad:
        bad.append(('script', eng, k, 'incomplete account: ' + why))
    def size_of(b):
        if b[0] == 'script':
            return len(sc_docs[b[2]][0])
        return len(dl_docs[b[2]][0]) if b[0] == 'delayed' else len(G.sx_tree((cases if b[0] == 'sem' else fcases)[b[2]]['tree']))
    for tag, eng, i, why in sorted(bad, key=size_of):
        key = (eng, why.split(' at token')[0].split(':')[0])
        if key in seen:
            continue
        seen.add(key)
        f = c.match_known({'engine': eng, 'class': key[1]})
        if f:
            c.known(f['id'], f['what'])
            continue
        if tag == 'script':
            d, ev, exp = sc_docs[i]
            c.violation({'kind': 'oracle', 'engine': eng, 'why': why, 'scxml': d, 'events_hex': ev,
                         'trace': ' '.join([o for o in owners if o[0] == 'script' and o[1] == eng and o[2] == i][0][3]),
                         'replay_cmd': "echo 'run %s %s 60 1 %s' | /verif/.build/vdriver-hooks/vdriver" % (eng, d.encode().hex(), ev)})
            continue
        if tag == 'delayed':
            d, ev = dl_docs[i]
            c.violation({'kind': 'oracle', 'engine': eng, 'why': why, 'scxml': d, 'events_hex': ev,
                         'trace': ' '.join([o for o in owners if o[0] == 'delayed' and o[1] == eng and o[2] == i][0][3]),
                         'replay_cmd': "echo 'runw %s %s 60 - %s' | /verif/.build/vdriver-hooks/vdriver" % (eng, d.encode().hex(), ev)})
            continue
        cs, rs = (cases, res) if tag == 'sem' else (fcases, fres)
        c.violation(case_replay(c, cs[i], {'kind': 'oracle', 'engine': eng, 'why': why, 'trace': rs[eng][i][:2000]}))
    if broken and not bad:
        for b in broken:
            c.violation({'kind': 'obligation', 'theorem': b['name'], 'why': b.get('why', '')}, no_input=True)
    return c.finish()


def delayed_docs():
    """documents whose delayed <send> to their own internal / external queue is delivered while the machine is
    stable and idle (the driver waits after the last external event)"""
    hdr = '<scxml xmlns="http://www.w3.org/2005/07/scxml" version="1.0" datamodel="null" name="m">'
    docs = []
    for target in ('#_internal', ''):
        for delay in ('50ms', '150ms'):
            tg = (' target="%s"' % target) if target else ''
            docs.append((hdr + '<state id="s1"><onentry><send event="tick"%s delay="%s" vid="101"/></onentry>'
                         '<transition event="tick" target="s2" vid="102"/></state>'
                         '<state id="s2"><onentry><send event="tock"%s delay="%s" vid="103"/><raise event="now" vid="104"/></onentry>'
                         '<transition event="tock" target="s3" vid="105"/><transition event="now" vid="106"/></state>'
                         '<state id="s3"><transition event="e" target="s4" vid="107"/></state><final id="s4"/></scxml>' % (tg, delay, tg, delay), ''))
            docs.append((hdr + '<parallel id="s1"><state id="s2"><onentry><send event="a"%s delay="%s" vid="101"/></onentry>'
                         '<transition event="a" target="s3" vid="102"/></state><state id="s5"><state id="s6"><transition event="a" target="s7" vid="103"/></state>'
                         '<state id="s7"/></state></parallel><state id="s3"><transition event="e" target="s4" vid="107"/></state><final id="s4"/></scxml>' % (tg, delay), '65'))
    return docs


def script_docs():
    """(document, events as hex words, vids of the executed elements in execution order)"""
    hdr = '<scxml xmlns="http://www.w3.org/2005/07/scxml" version="1.0" datamodel="lua" name="m"><datamodel><data id="Var1" expr="0"/></datamodel>'
    e = b'e'.hex()
    docs = []
    # one and two document-level scripts, before and after the states
    docs.append((hdr + '<script vid="150">Var1 = 5</script><state id="s1"><onentry><log expr="Var1" vid="151"/><script vid="152">Var1 = Var1 + 1</script></onentry>'
                 '<transition event="e" target="s2" vid="153"><script vid="154">Var1 = Var1 * 2</script><log expr="Var1" vid="155"/></transition></state><final id="s2"/></scxml>',
                 e, ['150', '151', '152', '154', '155']))
    docs.append((hdr + '<script vid="150">Var1 = 5</script><script vid="156">Var1 = Var1 + 2</script><state id="s1"><onentry><log expr="Var1" vid="151"/></onentry>'
                 '<onexit><script vid="157">Var1 = 0</script></onexit><transition event="e" target="s2" vid="153"/></state><final id="s2"/></scxml>',
                 e, ['150', '156', '151', '157']))
    docs.append((hdr + '<state id="s1"><onentry><if cond="Var1 == 5" vid="158"><script vid="159">Var1 = 1</script><else/><script vid="160">Var1 = 2</script></if><log expr="Var1" vid="151"/></onentry>'
                 '<transition event="e" target="s2" vid="153"/></state><final id="s2"/><script vid="150">Var1 = 5</script></scxml>',
                 e, ['150', '158', '159', '151']))
    # a failing document-level script: error.execution, the bracket is still closed and the rest runs
    docs.append((hdr + '<script vid="150">Var1 = nil + 1</script><state id="s1"><onentry><log expr="Var1" vid="151"/></onentry>'
                 '<transition event="error.execution" target="s2" vid="153"><log expr="7" vid="161"/></transition></state><final id="s2"/></scxml>',
                 '', ['150', '151', '161']))
    return docs
