"""C13 -- monitor notifications are a well-nested, complete account of execution."""
from vlib import *
from chart_common import *
from chart_runs import *
from chart_eval import *


def run(c):
    broken = c.prove()
    vflags, notes = detect_vflags(c)
    cases = build_cases(c)
    res = run_cases(c, cases, 'sem', vflags=vflags)
    fcases = build_cases(c, faults=0.25)
    fres = run_cases(c, fcases, 'faults', want_spec=False, vflags=vflags)
    vm = ensure_vmodel('chart')
    c.assumptions += ['the grammar of Trace.v / DESIGN.md Appendix E is the reading of "balanced and well nested" used',
                      'vd_run.cpp records every InterpreterMonitor callback; cancellation is covered by C10']
    lines, owners = [], []
    for tag, cs, rs in (('sem', cases, res), ('faults', fcases, fres)):
        for eng in ('large', 'fast'):
            for i, case in enumerate(cs):
                l = rs[eng][i]
                if l.startswith('CRASH') or l.startswith('EXC'):
                    continue
                toks = canon(l)[0]
                lines.append('wf ' + ' '.join(toks))
                owners.append((tag, eng, i, toks))
    out, _ = run_lines_sharded(vm, lines)
    bad = []
    nontriv = set()
    for (tag, eng, i, toks), o in zip(owners, out):
        cs = cases if tag == 'sem' else fcases
        if any(t.startswith('C{:') for t in toks):
            nontriv.add(hash(tuple(toks)))
        if o != '1':
            bad.append((tag, eng, i, 'not well nested: ' + o))
            continue
        d = delta_check(toks)
        if d:
            bad.append((tag, eng, i, d))
    c.cov['evaluations'] = len(owners)
    c.cov['distinct_nontrivial'] = len(nontriv)
    c.cov['rule'] = ('every trace of the C01 runs and of the fault-injection runs (failing elements at random positions of executable blocks), '
                     'both engines, judged by the extracted recogniser wf_traceb and by the completeness cross-check (configuration after each '
                     'microstep = (before - exited) + entered, nothing exited/entered twice, one stable notice per MACROSTEPPED); non-trivial = '
                     'distinct trace with at least one executable-content bracket')
    c.cov['samples'] = [' '.join(owners[len(owners) // 2][3][:60])]
    c.cov['ill_formed'] = len(bad)
    if vflags[3] == '1':
        f = c.match_known({'switch': 'if_bracket_left_open_on_nested_error'})
        if f:
            c.known(f['id'], f['what'])
    seen = set()
    for tag, eng, i, why in sorted(bad, key=lambda b: len(G.sx_tree((cases if b[0] == 'sem' else fcases)[b[2]]['tree']))):
        key = (eng, why.split(' at token')[0].split(':')[0])
        if key in seen:
            continue
        seen.add(key)
        cs, rs = (cases, res) if tag == 'sem' else (fcases, fres)
        f = c.match_known({'engine': eng, 'class': key[1]})
        if f:
            c.known(f['id'], f['what'])
            continue
        c.violation(case_replay(c, cs[i], {'kind': 'oracle', 'engine': eng, 'why': why, 'trace': rs[eng][i][:2000]}))
    if broken and not bad:
        for b in broken:
            c.violation({'kind': 'obligation', 'theorem': b['name'], 'why': b.get('why', '')}, no_input=True)
    return c.finish()
