"""C07 -- errors become error events, never crashes."""
from vlib import *
from chart_common import *
from chart_runs import *
from chart_eval import *

ERR = 'EV:' + b'error.'.hex()


def run(c):
    broken = c.prove()
    vflags, notes = detect_vflags(c)
    fcases = build_cases(c, faults=0.25)
    fres = run_cases(c, fcases, 'faults', want_spec=False, vflags=vflags)
    c.assumptions += ['failing elements are: <send> with an unsupported type (error.execution), <send> to an unknown #_ target (error.communication), '
                      '<log>/<assign> with an ill-formed expression, ill-formed conditions of <if>/<elseif>/<transition> (error.execution); rendered per datamodel',
                      'memory safety of code outside the model (Xerces, Lua VM, libevent) is exercised (thorough: under ASan/UBSan), not proved',
                      'evaluator crash-freedom of the Promela datamodel is C17, of the JSON parser C15',
                      'fault matrix: a condition that fails counts as false and raises error.execution, whether the rest of the block runs is not judged (the engines go on, as Exec.v models); '
                      'a document that cannot be loaded (<script src> unreachable, W3C test 301) is rejected by an exception from the first step() by design and is not part of the matrix; '
                      'an undeclared <foreach> item/index is declared, not an error (SCXML 4.6)',
                      'the sites outside Exec.v (finalize, donedata, <content expr>, <param>, undeliverable sends, invoke arguments) are modelled in ExecFaults.v; their tie to the code is the fault matrix']
    disagreements, crashes = [], []
    nontriv = set()
    nerr = 0
    for eng in ('large', 'fast'):
        for i, case in enumerate(fcases):
            l = fres[eng][i]
            if l.startswith('CRASH') or l.startswith('EXC'):
                crashes.append((eng, i, l))
                continue
            toks = canon(l)[0]
            ne = sum(1 for t in toks if t.startswith(ERR))
            if ne:
                nerr += 1
                nontriv.add(hash((eng, tuple(toks))))
            if eng == 'large':
                ok, d = corr_equal(l, fres['model'][i])
                if not ok:
                    disagreements.append((i, d))
    # malformed / arbitrary documents built from SCXML vocabulary: must not crash
    mal = malformed_stream(c)
    # document-level construct x fault matrix (tools/c07_faults.py): every evaluation site x every fault kind of the datamodel
    fstats, ffind = fault_matrix(c)
    c.cov['evaluations'] = 2 * len(fcases) + mal['documents'] + fstats['runs']
    c.cov['distinct_nontrivial'] = len(nontriv) + fstats['runs_with_error_event']
    c.cov['fault_matrix'] = fstats
    c.cov['rule'] = ('charts of the reference fragment with failing elements injected at random positions of onentry/onexit/transition blocks and '
                     'conditions (three datamodels, both engines): the large engine trace must equal the trace of Large.v+Exec.v (whose error protocol is '
                     'what the theorems are about) and no run may crash; plus arbitrary well-formed XML built from SCXML vocabulary, validated and - unless validation reports a fatal issue - interpreted for a '
                     'bounded number of steps, in child processes; plus the document-level fault matrix: for every place where the interpreter evaluates an '
                     'expression or executes content (%d sites: attributes and children of assign/log/send/cancel/foreach/script/if/elseif/transition/data/invoke/'
                     'donedata, and the <data> elements of an invoked session initialised from <param>/namelist values its datamodel rejects; %d kinds of blocks: onentry, onexit, transition, initial and history transitions, finalize, nested if/else/foreach) and every fault kind '
                     '(lua %d, promela %d: syntax error, run-time errors with string / nil / table error values, nil arithmetic, division and modulo by zero, '
                     'INT_MIN / -1, index out of range, illegal locations, unsupported types, undeliverable targets without and with delay) a small document with '
                     'markers before and behind the failing element and in the next block, run by both engines in child processes (c07run) and judged by the '
                     'property oracle alone (no exception out of step(), no crash, no hang, exactly one error event of the expected name in queue order, rest of '
                     'the block skipped, next block run, interpreter reaches its final state afterwards); every site has a control document (well-formed '
                     'expression) for which the oracle demands the opposite; hand-confirmed witnesses (corpus/c07.json) run first; the runs of the sites '
                     'modelled in ExecFaults.v are also compared with the outcome class (no error / error event / escaped) that ExecFaults.outcomes computes '
                     '(coqc vm_compute) for the variant the witnesses select; '
                     'non-trivial = distinct run in which at least one error.* event was processed'
                     % (fstats['sites'], fstats['block_kinds'], fstats['fault_kinds']['lua'], fstats['fault_kinds']['promela']))
    c.cov['runs_with_error_events'] = nerr
    c.cov['model_disagreements'] = len(disagreements)
    c.cov['crashes'] = len(crashes)
    c.cov['malformed'] = {k: mal[k] for k in ('documents', 'crashed', 'outcomes')}
    c.cov['samples'] = [fres['large'][len(fcases) // 2][:500]]
    for eng, i, l in crashes[:2]:
        c.violation(case_replay(c, fcases[i], {'kind': 'crash', 'engine': eng, 'observed': l}))
    for d in mal['crash_samples'][:2]:
        f = c.match_known({'class': 'malformed-crash', 'signature': d.get('signature')})
        if f:
            c.known(f['id'], f['what'])
        else:
            c.violation(d)
    for f in ffind:
        k = c.match_known({'class': f['class']})
        if k:
            c.known(k['id'], k['what'])
        else:
            f = dict(f)
            f['kind'] = 'fault-matrix'
            c.violation(f, no_input=(f['class'] == 'model-disagreement' and not f.get('oracle_failure')))
    if disagreements:
        i, d = sorted(disagreements, key=lambda x: len(G.sx_tree(fcases[x[0]]['tree'])))[0]
        p = d[0] or 0
        # the model is the statement of the error protocol: a disagreement is an oracle failure
        c.violation(case_replay(c, fcases[i], {'kind': 'oracle', 'count': len(disagreements), 'what': 'error handling differs from Exec.v/Large.v',
                                               'expected': ' '.join(d[2][max(0, p - 10):p + 10]), 'observed': ' '.join(d[1][max(0, p - 10):p + 10])}))
    if broken and not disagreements and not crashes and not ffind:
        for b in broken:
            c.violation({'kind': 'obligation', 'theorem': b['name'], 'why': b.get('why', '')}, no_input=True)
    return c.finish()


def fault_matrix(c):
    """construct x fault matrix of tools/c07_faults.py on the hook build; returns (stats, findings: one per failing class,
    with the smallest failing document)"""
    import c07_faults
    vd = ensure_vdriver('hooks', units=['vd_run', 'vd_c07'])
    return c07_faults.run_stream(vd, c.tier, coqdir=COQ, workdir=os.path.join(BUILD, 'c07-faults'))


def malformed_stream(c):
    """arbitrary well-formed XML from SCXML vocabulary; each batch in its own process"""
    import random
    rng = random.Random(c.seed * 31 + 7)
    vd = ensure_vdriver('hooks', units=['vd_run'])
    tags = ['state', 'parallel', 'final', 'history', 'initial', 'transition', 'onentry', 'onexit', 'raise', 'send', 'log', 'assign', 'if', 'elseif',
            'else', 'foreach', 'script', 'datamodel', 'data', 'donedata', 'param', 'content', 'cancel', 'invoke', 'finalize']
    attrs = ['id', 'initial', 'target', 'event', 'cond', 'expr', 'location', 'type', 'name', 'delay', 'array', 'item', 'index', 'sendid', 'src', 'namelist']
    vals = ['s1', 's2', 'nosuch', 'e', '*', 'true', 'In(\'s1\')', '1', 'x', 'deep', 'internal', '', 's1 s2', ')(', '1s', '#_internal', '#_parent', 'scxml']

    def gen(depth):
        t = rng.choice(tags)
        a = ''.join(' %s="%s"' % (k, rng.choice(vals).replace('<', '&lt;')) for k in rng.sample(attrs, rng.randint(0, 3)))
        kids = ''.join(gen(depth + 1) for _ in range(rng.randint(0, 3 if depth < 3 else 0)))
        return '<%s%s>%s</%s>' % (t, a, kids, t)
    n = 300 if c.tier == 'quick' else 5000
    docs = []
    # half of the stream: valid charts of the reference fragment with one or two XML-level mutations
    # (nearly valid documents reach the interpreter much more often than random vocabulary trees)
    import re as _re
    def mutate(xml):
        k = rng.randint(0, 9)
        ids = _re.findall(r'id="(s\d+)"', xml)
        if k == 0 and ids:      # dangling transition target
            return _re.sub(r'target="s\d+', 'target="nosuch', xml, count=1)
        if k == 1 and ids:      # duplicate id
            return xml.replace('id="%s"' % rng.choice(ids), 'id="%s"' % rng.choice(ids), 1)
        if k == 2:              # initial attribute naming a non-descendant / unknown state
            return xml.replace('<state id=', '<state initial="%s" id=' % rng.choice(ids + ['nosuch']), 1)
        if k == 3:              # history without default transition
            return _re.sub(r'(<history[^>]*>)<transition[^>]*></transition>', r'\1', xml, count=1)
        if k == 4:              # executable content directly below a state
            return xml.replace('</state>', '<raise event="x"/></state>', 1)
        if k == 5:              # empty event / cond attributes
            return _re.sub(r'event="[^"]*"', 'event=""', xml, count=1)
        if k == 6:              # a state below <final>
            return xml.replace('</final>', '<state id="sX"/></final>', 1)
        if k == 7:              # target-less initial transition
            return _re.sub(r'(<initial><transition) target="[^"]*"', r'\1', xml, count=1)
        if k == 8:              # unknown element and attribute
            return xml.replace('<onentry>', '<onentry><frobnicate x="1"/>', 1).replace('<state id=', '<state bogus="1" id=', 1)
        return xml.replace('<transition', '<transition type="bogus"', 1)
    for _ in range(n // 2):
        dm = rng.choice(['null', 'lua', 'promela'])
        t = G.rand_chart(rng, content=0.5, faults=0.1, only_in=(dm == 'null'))
        x = G.to_scxml(t, dm)
        for _k in range(rng.randint(1, 2)):
            x = mutate(x)
        docs.append(x.replace('<?xml version="1.0"?>', ''))
    for _ in range(n - n // 2):
        dm = rng.choice(['null', 'lua', 'promela'])
        body = ''.join(gen(0) for _ in range(rng.randint(1, 4)))
        docs.append('<scxml xmlns="http://www.w3.org/2005/07/scxml" version="1.0" datamodel="%s" name="m"%s>%s</scxml>' % (
            dm, rng.choice(['', ' initial="s1"', ' initial="nosuch"']), body))
    def shards(lines, shard=10, timeout=120):
        """small shards in child processes so that a crash is an outcome and loses few cases.
        returns list of (first index, answer lines, rc, stderr tail)"""
        import subprocess
        outs, procs = [], []

        def drain():
            for k0, p in procs:
                try:
                    o, e = p.communicate(('\n'.join(lines[k0:k0 + shard]) + '\n').encode(), timeout=timeout)
                except subprocess.TimeoutExpired:
                    p.kill()
                    o, e = p.communicate()
                ans = [l for l in o.decode('utf-8', 'replace').split('\n') if l.startswith('@@')]
                outs.append((k0, ans, p.returncode, e.decode('utf-8', 'replace')[-400:]))
            del procs[:]
        for k in range(0, len(lines), shard):
            procs.append((k, subprocess.Popen([vd], stdin=subprocess.PIPE, stdout=subprocess.PIPE, stderr=subprocess.PIPE)))
            if len(procs) >= NCPU:
                drain()
        drain()
        return sorted(outs)
    shard = 10
    # phase 1: validation only.  A crash of validate() itself belongs to C19; such documents are not interpreted here.
    vlines = ['validate %s' % d.encode().hex() for d in docs]
    verdict = [None] * len(docs)      # 'ok' | 'rejected' | 'validate-crash'
    for k0, ans, rc, err in shards(vlines):
        for j, a in enumerate(ans):
            verdict[k0 + j] = 'rejected' if 'fatal=0' not in a else 'ok'
        n_here = min(shard, len(vlines) - k0)
        if len(ans) < n_here:
            verdict[k0 + len(ans)] = 'validate-crash'
            # the documents after the crashing one in this shard were not looked at: validate them one by one
            for j in range(k0 + len(ans) + 1, k0 + n_here):
                r1 = shards([vlines[j]], 1)
                verdict[j] = ('rejected' if (r1[0][1] and 'fatal=0' not in r1[0][1][0]) else 'ok') if r1[0][1] else 'validate-crash'
    accepted = [i for i, v in enumerate(verdict) if v == 'ok']
    lines = ['run large %s 12 - %s' % (docs[i].encode().hex(), '65') for i in accepted]
    outs = shards(lines)
    crashed = 0
    samples = []
    outcomes = {'ran': 0, 'exception': 0, 'crash': 0, 'rejected_by_validation': sum(1 for v in verdict if v == 'rejected'),
                'validate_crashed': sum(1 for v in verdict if v == 'validate-crash')}
    for k0, ans, rc, err in outs:
        outcomes['ran'] += sum(1 for a in ans if not a.startswith('@@EXC'))
        outcomes['exception'] += sum(1 for a in ans if a.startswith('@@EXC'))
        if len(ans) < min(shard, len(lines) - k0):
            crashed += 1
            outcomes['crash'] += 1
            doc = docs[accepted[k0 + len(ans)]]
            samples.append({'kind': 'crash', 'document': doc, 'rc': rc, 'stderr': err, 'signature': 'rc%s' % rc,
                            'replay_cmd': "echo 'run large %s 12 - 65' | /verif/.build/vdriver-hooks/vdriver" % doc.encode().hex()})
    return {'documents': len(docs), 'crashed': crashed, 'outcomes': outcomes, 'crash_samples': samples}
