"""C05 -- the transpilers compute the chart's structural relations correctly.

Every document is run through ChartTo{C,Promela,VHDL}::transform (in process, vdriver `tables`) and through the
extracted model (Impl_tables, Spec_tables of coq/theories/Tables.v):
  * correspondence : every annotation prepare() left on the DOM == Impl_tables (attribute by attribute)
  * oracle         : every annotation is judged by Spec_tables (the Recommendation's definitions)
  * three-way      : the tables parsed back out of the emitted C (initialisers and bit-string comments), the
                     Promela init block and the VHDL equations == the annotations
"""
import copy, hashlib, itertools, json, os, random, sys
from vlib import *
import chartgen as G

N, T = G.node, G.trans
PROPER = ('state', 'parallel', 'final')
HIST = ('hs', 'hd')


# ------------------------------------------------------------------ trees

def tree_to_json(n):
    d = {'kind': n['kind'], 'sid': n['sid']}
    if n.get('init') is not None:
        d['init'] = n['init']
    if n.get('trans'):
        d['trans'] = [{'vid': t['vid'], 'ev': (t['ev'].decode('latin-1') if t['ev'] is not None else None),
                       'targets': t['targets'], 'internal': t['internal']} for t in n['trans']]
    if n.get('kids'):
        d['kids'] = [tree_to_json(k) for k in n['kids']]
    return d


def tree_from_json(d):
    return N(d['kind'], d['sid'], kids=[tree_from_json(k) for k in d.get('kids', [])],
             trans=[T(t['vid'], t['ev'].encode('latin-1') if t.get('ev') is not None else None, None, t.get('targets'), t.get('internal', False))
                    for t in d.get('trans', [])], init=d.get('init'))


def parent_map(tree):
    pm = {}
    for n in G.walk(tree):
        for k in n['kids']:
            pm[k['sid']] = n
    return pm


def descendants(n):
    return [d for k in n['kids'] for d in G.walk(k)]


def proper_desc(n):
    return [d for d in descendants(n) if d['kind'] in PROPER]


def anc_chain(pm, n):
    out = []
    while n['sid'] in pm:
        n = pm[n['sid']]
        out.append(n)
    return out


def legal_pair(tree, pm, x, y):
    """two targets can be active together: one is an ancestor of the other, or their nearest common ancestor is a <parallel>"""
    ax = [x] + anc_chain(pm, x)
    ay = [y] + anc_chain(pm, y)
    if any(a is y for a in ax) or any(a is x for a in ay):
        return True
    for a in ax:
        if any(a is b for b in ay):
            return a['kind'] == 'parallel'
    return False


def well_formed(tree):
    """the quantifier of the property: well-formed state trees (nesting rules, initial attributes/elements name
    descendants, history default transitions into the right scope, legal target lists)"""
    pm = parent_map(tree)
    byid = {n['sid']: n for n in G.walk(tree)}
    if tree['kind'] != 'scxml' or not any(k['kind'] in PROPER for k in tree['kids']):
        return False
    for n in G.walk(tree):
        k = n['kind']
        kids = n['kids']
        if k in ('final', 'hs', 'hd', 'initial') and kids:
            return False
        if k == 'scxml' and (n is not tree or any(c['kind'] not in PROPER for c in kids)):
            return False
        if k == 'parallel' and (any(c['kind'] in ('final', 'initial') for c in kids) or not any(c['kind'] in PROPER for c in kids)):
            return False
        props = [c for c in kids if c['kind'] in PROPER]
        if k in HIST + ('initial',):
            par = pm[n['sid']]
            if not [c for c in par['kids'] if c['kind'] in PROPER]:
                return False
            if k == 'initial' and par['kind'] != 'state':
                return False
            if len(n['trans']) != 1 or not n['trans'][0]['targets'] or n['trans'][0]['ev'] is not None:
                return False
            tg = [byid.get(x) for x in n['trans'][0]['targets']]
            if any(t is None for t in tg):
                return False
            scope = ([c for c in par['kids'] if c['kind'] in PROPER] if k == 'hs' else proper_desc(par))
            if any(not any(t is s for s in scope) for t in tg):
                return False
        if k == 'initial' and sum(1 for c in pm[n['sid']]['kids'] if c['kind'] == 'initial') > 1:
            return False
        if n.get('init') is not None:
            if k not in ('scxml', 'state') or not props or not n['init'] or any(c['kind'] == 'initial' for c in kids):
                return False
            tg = [byid.get(x) for x in n['init']]
            pd = proper_desc(n)
            if any(t is None or not any(t is s for s in pd) for t in tg):
                return False
        for t in n['trans']:
            if k in ('scxml', 'final'):
                return False
            if t['targets'] is not None:
                tg = [byid.get(x) for x in t['targets']]
                if not tg or any(x is None or x['kind'] in ('scxml', 'initial') for x in tg):
                    return False
                if len(set(t['targets'])) != len(t['targets']):
                    return False
        for lst in [t['targets'] for t in n['trans'] if t['targets']] + ([n['init']] if n.get('init') else []):
            for a, b in itertools.combinations(lst, 2):
                if not legal_pair(tree, pm, byid[a], byid[b]):
                    return False
    return True


# ------------------------------------------------------------------ generators

def decorations(tree, n, next_sid):
    """menu of pseudo-state / initial-attribute decorations of one node: list of functions mutating a copy"""
    props = [c for c in n['kids'] if c['kind'] in PROPER]
    if not props:
        return [None]
    pd = proper_desc(n)
    deep = [d for d in pd if not any(d is c for c in props)]
    opts = [None]
    cands = [props[0], props[-1]] + deep[:1] + deep[-1:]
    seen = []
    for c in cands:
        if not any(c is s for s in seen):
            seen.append(c)
    if n['kind'] in ('scxml', 'state'):
        for c in seen:
            opts.append(('attr', [c['sid']]))
        # a legal pair (two regions of a parallel descendant)
        for p in [n] + pd:
            if p['kind'] == 'parallel':
                regs = [c for c in p['kids'] if c['kind'] in PROPER]
                if len(regs) >= 2 and p is not n:
                    opts.append(('attr', [regs[0]['sid'], regs[1]['sid']]))
                    break
    if n['kind'] == 'state':
        for c in seen[:3]:
            for pos in ('front', 'back'):
                opts.append(('elem', pos, [c['sid']]))
    if n['kind'] in ('state', 'parallel'):
        hs_t = [props[-1]['sid']]
        hd_t = [(deep[-1] if deep else props[0])['sid']]
        for combo in (['hs'], ['hd'], ['hs', 'hd'], ['hd', 'hs'], ['hs', 'hs'], ['hd', 'hd', 'hs']):
            for pos in ('front', 'back', 'split'):
                if pos == 'split' and len(combo) < 2:
                    continue
                opts.append(('hist', pos, combo, hs_t, hd_t))
        if n['kind'] == 'state':
            opts.append(('hist+elem', ['hs', 'hd'], hs_t, hd_t, [props[0]['sid']]))
            opts.append(('hist+elem', ['hd'], hs_t, hd_t, [props[-1]['sid']]))
    return opts


def apply_decoration(n, opt, sidc, vidc):
    if opt is None:
        return
    if opt[0] == 'attr':
        n['init'] = list(opt[1])
    elif opt[0] == 'elem':
        ini = N('initial', sidc(), trans=[T(vidc(), None, None, list(opt[2]))])
        if opt[1] == 'front':
            n['kids'].insert(0, ini)
        else:
            n['kids'].append(ini)
    elif opt[0] == 'hist':
        hs = [N(k, sidc(), trans=[T(vidc(), None, None, list(opt[3] if k == 'hs' else opt[4]))]) for k in opt[2]]
        if opt[1] == 'front':
            n['kids'][0:0] = hs
        elif opt[1] == 'back':
            n['kids'].extend(hs)
        else:
            n['kids'].insert(0, hs[0])
            n['kids'].extend(hs[1:])
    elif opt[0] == 'hist+elem':
        hs = [N(k, sidc(), trans=[T(vidc(), None, None, list(opt[2] if k == 'hs' else opt[3]))]) for k in opt[1]]
        ini = N('initial', sidc(), trans=[T(vidc(), None, None, list(opt[4]))])
        n['kids'].append(hs[0])
        n['kids'].append(ini)
        n['kids'][1:1] = hs[1:]


def decorated_variants(shape, rng, cap):
    """trees over one shape of proper states, decorated with pseudo-states and initial attributes: every
    single-node decoration, and combinations (all if few, else a deterministic sample)"""
    base = G.build(shape)
    nodes = [n for n in G.walk(base)]
    menus = [decorations(base, n, None) for n in nodes]
    total = 1
    for m in menus:
        total *= len(m)
    combos = []
    if total <= cap:
        combos = list(itertools.product(*[range(len(m)) for m in menus]))
    else:
        singles = []
        for i, m in enumerate(menus):
            for j in range(1, len(m)):
                singles.append(tuple(j if k == i else 0 for k in range(len(menus))))
        rng.shuffle(singles)
        combos = [tuple(0 for _ in menus)] + singles[:max(1, (2 * cap) // 3)]
        seen = set(combos)
        tries = 0
        while len(combos) < cap and tries < cap * 4:
            tries += 1
            cmb = tuple(rng.randrange(len(m)) for m in menus)
            if cmb not in seen:
                seen.add(cmb)
                combos.append(cmb)
    out = []
    for cmb in combos:
        t = G.build(shape)
        ns = [n for n in G.walk(t)]
        ctr = [len(ns) - 1, 900]

        def sidc():
            ctr[0] += 1
            return ctr[0]

        def vidc():
            ctr[1] += 1
            return ctr[1]
        # decorate from the last node to the first, so that positions in `ns` stay valid
        for n, m, j in reversed(list(zip(ns, menus, cmb))):
            apply_decoration(n, m[j], sidc, vidc)
        out.append(t)
    return out, total


def transition_menu(tree, pairs):
    """(source sid, targets, internal): every proper non-final source x {none, each state with an id, pairs} x type"""
    pm = parent_map(tree)
    withid = [n for n in G.walk(tree) if n['kind'] in PROPER + HIST]
    srcs = [n for n in G.walk(tree) if n['kind'] in ('state', 'parallel')]
    menu = []
    for s in srcs:
        menu.append((s['sid'], None, False))
        for x in withid:
            for internal in (False, True):
                menu.append((s['sid'], [x['sid']], internal))
        if pairs:
            for x, y in itertools.combinations(withid, 2):
                if pairs == 'legal' and not legal_pair(tree, pm, x, y):
                    continue
                menu.append((s['sid'], [x['sid'], y['sid']], False))
                if x['kind'] in PROPER and y['kind'] in PROPER:
                    menu.append((s['sid'], [y['sid'], x['sid']], True))
    return menu


def with_transitions(tree, items, events=(b'e', b'f', None)):
    t = copy.deepcopy(tree)
    byid = {n['sid']: n for n in G.walk(t)}
    vid = 100
    for i, (s, tg, internal) in enumerate(items):
        vid += 1
        byid[s]['trans'].append(T(vid, events[i % len(events)], None, list(tg) if tg is not None else None, internal))
    return t


def chunks(l, k):
    return [l[i:i + k] for i in range(0, len(l), k)]


def rand_tree(rng, nprop, maxdepth):
    """random larger document: nesting up to maxdepth, several histories per state, histories below deep histories,
    <initial> elements and (deep, multiple) initial attributes, transitions with history / multi targets"""
    ctr = [0, 900]

    def sidc():
        ctr[0] += 1
        return ctr[0]

    def vidc():
        ctr[1] += 1
        return ctr[1]

    def forest(k, depth, in_par):
        f = []
        while k > 0:
            sz = rng.randint(1, k)
            if sz == 1 or depth >= maxdepth:
                sz = 1
                f.append(N(rng.choice(['state'] if in_par else ['state', 'state', 'state', 'final']), sidc()))
            else:
                kind = rng.choice(['state', 'state', 'parallel'])
                n = N(kind, sidc())
                n['kids'] = forest(sz - 1, depth + 1, kind == 'parallel')
                f.append(n)
            k -= sz
        return f
    root = N('scxml', 0)
    # a deep spine first, so that the depth bound is reached
    spine = min(maxdepth, max(1, nprop // 3))
    cur = root
    used = 0
    for d in range(spine):
        n = N('state', sidc())
        cur['kids'].append(n)
        cur = n
        used += 1
    # hang forests along the spine
    rest = nprop - used
    spine_nodes = [n for n in G.walk(root)]
    while rest > 0:
        host = rng.choice(spine_nodes)
        depth = len([1 for _ in anc_chain(parent_map(root), host)])
        k = rng.randint(1, rest)
        host['kids'].extend(forest(k, depth + 1, False))
        rest -= k
    for n in list(G.walk(root)):
        props = [c for c in n['kids'] if c['kind'] in PROPER]
        if not props:
            continue
        pd = proper_desc(n)
        if n['kind'] in ('state', 'parallel'):
            nh = rng.choice([0, 0, 0, 1, 1, 2, 3])
            for _ in range(nh):
                deep = rng.random() < 0.5
                tg = rng.choice(pd if deep else props)
                n['kids'].insert(rng.randint(0, len(n['kids'])), N('hd' if deep else 'hs', sidc(), trans=[T(vidc(), None, None, [tg['sid']])]))
        r = rng.random()
        if n['kind'] == 'state' and r < 0.25:
            n['kids'].insert(rng.randint(0, len(n['kids'])), N('initial', sidc(), trans=[T(vidc(), None, None, [rng.choice(pd)['sid']])]))
        elif n['kind'] in ('state', 'scxml') and r < 0.5:
            n['init'] = [rng.choice(pd)['sid']]
            pars = [p for p in pd if p['kind'] == 'parallel' and len([c for c in p['kids'] if c['kind'] in PROPER]) >= 2]
            if pars and rng.random() < 0.4:
                p = rng.choice(pars)
                regs = rng.sample([c for c in p['kids'] if c['kind'] in PROPER], 2)
                n['init'] = [rng.choice([regs[0]] + proper_desc(regs[0]))['sid'], rng.choice([regs[1]] + proper_desc(regs[1]))['sid']]
    pm = parent_map(root)
    withid = [n for n in G.walk(root) if n['kind'] in PROPER + HIST]
    srcs = [n for n in G.walk(root) if n['kind'] in ('state', 'parallel')]
    pars = [p for p in G.walk(root) if p['kind'] == 'parallel' and len([c for c in p['kids'] if c['kind'] in PROPER]) >= 2]
    for _ in range(rng.randint(1, max(3, nprop // 2))):
        s = rng.choice(srcs)
        r = rng.random()
        if r < 0.2:
            tg = None
        elif r < 0.8 or not pars:
            tg = [rng.choice(withid)['sid']]
        else:
            p = rng.choice(pars)
            regs = rng.sample([c for c in p['kids'] if c['kind'] in PROPER], 2)
            tg = [rng.choice([regs[0]] + proper_desc(regs[0]))['sid'], rng.choice([regs[1]] + proper_desc(regs[1]))['sid']]
        s['trans'].append(T(vidc(), rng.choice([b'e', b'f', None]), None, tg, tg is not None and rng.random() < 0.3))
    return root


def gen_cases(c, stats):
    """generator of cases {tree, origin}; `stats` is filled while generating"""
    rng = random.Random(c.seed * 104729 + 5)
    quick = c.tier == 'quick'
    n = 0
    for name, tj in json.load(open(os.path.join(ROOT, 'corpus', 'c05.json'))):
        n += 1
        yield {'tree': tree_from_json(tj), 'origin': 'corpus:' + name}
    stats['corpus'] = n
    # (proper states, decorated trees per shape, target pairs in the menu, menu documents per tree, small documents per tree)
    CH = 24 if quick else 40
    if quick:
        plan = ((1, 400, 'all', 9, 2), (2, 400, 'all', 9, 2), (3, 40, 'legal', 2, 2), (4, 8, 'legal', 1, 1))
    else:
        plan = ((1, 400, 'all', 9, 2), (2, 400, 'all', 9, 2), (3, 400, 'legal', 9, 3), (4, 60, 'legal', 3, 2), (5, 8, None, 1, 1))
    for nprop, cap, pairs, maxchunks, nsmall in plan:
        st = stats.setdefault('nprop%d' % nprop, {'shapes': 0, 'decorated_trees': 0, 'documents': 0})
        for shape in G.shapes(nprop):
            st['shapes'] += 1
            trees, total = decorated_variants(shape, rng, cap)
            for t in trees:
                st['decorated_trees'] += 1
                menu = transition_menu(t, pairs)
                # (a) the menu transitions together, in documents of at most CH transitions
                rng.shuffle(menu)
                for ch in chunks(menu, CH)[:maxchunks]:
                    st['documents'] += 1
                    yield {'tree': with_transitions(t, ch), 'origin': 'exhaustive%d-menu' % nprop}
                # (b) documents with <= 3 transitions of the menu: all single ones for the smallest trees, and sampled triples
                if nprop <= 2:
                    for m in menu:
                        st['documents'] += 1
                        yield {'tree': with_transitions(t, [m]), 'origin': 'exhaustive%d-1' % nprop}
                for _ in range(nsmall):
                    k = rng.randint(1, 3)
                    if len(menu) >= k:
                        st['documents'] += 1
                        yield {'tree': with_transitions(t, rng.sample(menu, k)), 'origin': 'exhaustive%d-3' % nprop}
    nrand = 1500 if quick else 15000
    stats['random'] = nrand
    for i in range(nrand):
        nprop = rng.choice([6, 8, 10, 12, 16, 20, 30, 40])
        yield {'tree': rand_tree(rng, nprop, rng.randint(2, 8)), 'origin': 'random'}


# ------------------------------------------------------------------ parsing of driver output

def parse_tables(txt, ann):
    """'S:..' / 'T:..' tokens -> (states, trans)"""
    states, trans = [], []
    for tok in txt.split():
        f = tok.split(':')
        if f[0] == 'S':
            d = {'kind': f[1], 'sid': f[2], 'parent': f[3], 'child': f[4], 'anc': f[5], 'compl': f[6], 'hh': f[7]}
            if ann:
                d['docattr'] = f[8]
            states.append(d)
        elif f[0] == 'T':
            if ann:
                trans.append({'vid': f[1], 'doc': f[2], 'source': f[3], 'postfix': f[4], 'target': f[5], 'exit': f[6], 'confl': f[7]})
            else:
                trans.append({'vid': f[1], 'doc': f[2], 'source': f[3], 'srcstate': f[4], 'target': f[5], 'domain': f[6], 'exit': f[7], 'confl': f[8]})
    return states, trans


def diff_tables(a, b):
    """field-wise differences between two (states, trans): list of (what, index, field, a, b)"""
    out = []
    (sa, ta), (sb, tb) = a, b
    if len(sa) != len(sb):
        out.append(('S', -1, 'count', len(sa), len(sb)))
    if len(ta) != len(tb):
        out.append(('T', -1, 'count', len(ta), len(tb)))
    for i, (x, y) in enumerate(zip(sa, sb)):
        for f in ('kind', 'sid', 'parent', 'child', 'anc', 'compl', 'hh'):
            if f == 'sid' and x['kind'] == 'initial':
                continue
            if x[f] != y[f]:
                out.append(('S', i, f, x[f], y[f]))
    for i, (x, y) in enumerate(zip(ta, tb)):
        for f in ('vid', 'doc', 'source', 'target', 'exit', 'confl'):
            if x[f] != y[f]:
                out.append(('T', i, f, x[f], y[f]))
    return out


def classify_oracle(diffs, ann, spec):
    """classes of deviations of the implementation's tables from Spec_tables"""
    (sa, ta), (ss, ts) = ann, spec
    classes = {}
    benign = {}
    kinds = [s['kind'] for s in ss]
    for what, i, f, x, y in diffs:
        if what == 'S' and f == 'hh' and kinds[i] in HIST:
            benign['hasHistoryChild-on-history'] = benign.get('hasHistoryChild-on-history', 0) + 1
            continue
        if what == 'S' and f == 'compl' and kinds[i] in HIST and len(x) == len(y):
            mx = ''.join(b if kinds[j] in PROPER else '0' for j, b in enumerate(x))
            if mx == y:
                benign['history-completion-lists-initial-element'] = benign.get('history-completion-lists-initial-element', 0) + 1
                continue
            classes.setdefault('history-completion', []).append((what, i, f, x, y))
            continue
        if what == 'T' and f == 'confl' and len(x) == len(y):
            # the transpilers' relation = exit sets intersect OR the source states are equal / in ancestor relation.
            # The second disjunct encodes "first enabled transition per atomic state" (3.13) and is unobservable unless a
            # <parallel> lies between the two sources (or is the upper one): then the Recommendation selects both.
            cls = None
            for j, (bx, by) in enumerate(zip(x, y)):
                if bx == by:
                    continue
                si, sj = int(ts[i]['srcstate']), int(ts[j]['srcstate'])
                related = si == sj or ss[si]['anc'][sj] == '1' or ss[sj]['anc'][si] == '1'
                if not (bx == '1' and by == '0' and related):
                    cls = 'conflict-other'
                    break
                pseudo = kinds[int(ts[i]['source'])] not in PROPER or kinds[int(ts[j]['source'])] not in PROPER
                up, down = (si, sj) if ss[sj]['anc'][si] == '1' else (sj, si)
                # a <parallel> p with up <= p < down that has another region beside the one leading to `down`
                par_between = si != sj and any(
                    kinds[p] == 'parallel' and ss[down]['anc'][p] == '1' and (p == up or ss[p]['anc'][up] == '1') and
                    any(ss[p]['child'][c] == '1' and kinds[c] in PROPER and c != down and ss[down]['anc'][c] != '1' for c in range(len(kinds)))
                    for p in range(len(kinds)))
                if par_between and not pseudo:
                    cls = cls or 'conflict-source-ancestry-across-parallel'
                else:
                    benign['conflict-bit-encodes-preemption-by-source-ancestry'] = benign.get('conflict-bit-encodes-preemption-by-source-ancestry', 0) + 1
            if cls:
                classes.setdefault(cls, []).append((what, i, f, x, y))
            continue
        classes.setdefault('table-%s' % f, []).append((what, i, f, x, y))
    return classes, benign


def unhexbits(h, n):
    """bytes of writeCharArrayInitList -> bit string of length n (least significant bit first); None if padding bits are set"""
    bits = ''
    for i in range(0, len(h), 2):
        v = int(h[i:i + 2], 16)
        bits += ''.join('1' if (v >> k) & 1 else '0' for k in range(8))
    if len(bits) < n:
        bits += '0' * (n - len(bits))
    if '1' in bits[n:]:
        return None
    return bits[:n]


STYPE = {'initial': 'USCXML_STATE_INITIAL', 'final': 'USCXML_STATE_FINAL', 'hd': 'USCXML_STATE_HISTORY_DEEP', 'hs': 'USCXML_STATE_HISTORY_SHALLOW',
         'parallel': 'USCXML_STATE_PARALLEL'}


def expected_stype(states, i):
    k = states[i]['kind']
    if k in STYPE:
        return STYPE[k]
    has_proper_child = any(b == '1' and states[j]['kind'] in ('state', 'parallel', 'final') for j, b in enumerate(states[i]['child']))
    return 'USCXML_STATE_COMPOUND' if (has_proper_child or k == 'scxml') else 'USCXML_STATE_ATOMIC'


def expected_ttype(tr, srckind):
    fl = []
    if tr['targets'] is None:
        fl.append('USCXML_TRANS_TARGETLESS')
    if tr['internal']:
        fl.append('USCXML_TRANS_INTERNAL')
    if tr['ev'] is None:
        fl.append('USCXML_TRANS_SPONTANEOUS')
    if srckind in HIST:
        fl.append('USCXML_TRANS_HISTORY')
    if srckind == 'initial':
        fl.append('USCXML_TRANS_INITIAL')
    return fl


def check_emitted_c(out, ann, byvid):
    (sa, ta) = ann
    n, m = len(sa), len(ta)
    errs = []
    cs = [t.split(':') for t in out.split() if t.startswith('CS:')]
    ct = [t.split(':') for t in out.split() if t.startswith('CT:')]
    if len(cs) != n or len(ct) != m:
        return [('count', '%d/%d' % (n, m), '%d/%d' % (len(cs), len(ct)))]
    for i, f in enumerate(cs):
        s = sa[i]
        if f[1] != str(i):
            errs.append(('state-number', i, f[1]))
        if f[2] != ('0' if s['parent'] == '-' else s['parent']):
            errs.append(('parent', s['parent'], f[2]))
        for name, fld in (('child', f[3]), ('compl', f[4]), ('anc', f[5])):
            hx, cm = fld.split('/')
            want = s[name] if s[name] != '-' else '0' * n
            if cm != want:
                errs.append((name + '-comment', want, cm))
            if unhexbits(hx, n) != want:
                errs.append((name + '-initialiser', want, hx))
        ty = set(f[6].split('|'))
        want = {expected_stype(sa, i)} | ({'USCXML_STATE_HAS_HISTORY'} if s['hh'] == '1' else set())
        if ty != want:
            errs.append(('state-type', sorted(want), sorted(ty)))
    for i, f in enumerate(ct):
        t = ta[i]
        if f[1] != str(i) or f[2] != t['doc']:
            errs.append(('trans-number', '%d/%s' % (i, t['doc']), f[1] + '/' + f[2]))
        if f[3] != t['source']:
            errs.append(('source', t['source'], f[3]))
        for name, fld, ln in (('target', f[4], n), ('confl', f[5], m), ('exit', f[6], n)):
            hx, cm = fld.split('/')
            want = t[name]
            if want == '-':
                if cm != '-' or unhexbits(hx, ln) != '0' * ln:
                    errs.append((name, want, fld))
                continue
            if cm != want:
                errs.append((name + '-comment', want, cm))
            if unhexbits(hx, ln) != want:
                errs.append((name + '-initialiser', want, hx))
        tr = byvid.get(t['vid'])
        if tr is not None:
            want = set(expected_ttype(tr[0], tr[1])) or {'0'}
            if set(f[7].split('|')) != want:
                errs.append(('trans-type', sorted(want), f[7]))
    return errs


def check_emitted_pml(out, ann, byvid):
    (sa, ta) = ann
    n, m = len(sa), len(ta)
    errs = []
    st = [dict(parent=None, children=set(), completion=set(), ancestors=set(), type=set()) for _ in range(n)]
    tt = [dict(source=None, target=set(), conflicts=set(), exit_set=set(), type=set()) for _ in range(m)]
    for tok in out.split():
        f = tok.split(':', 2)
        if f[0] not in ('PS', 'PT'):
            continue
        i = int(f[1])
        key, val = f[2].split('=')
        arr = st if f[0] == 'PS' else tt
        if i >= len(arr):
            errs.append(('index', f[0], i))
            continue
        if '[' in key:
            name, ix = key[:-1].split('[')
            if name not in arr[i] or val != '1':
                errs.append(('field', tok, ''))
                continue
            arr[i][name].add(ix)
        else:
            if key not in arr[i]:
                errs.append(('field', tok, ''))
                continue
            arr[i][key] = val

    def bits(s, ln):
        return ''.join('1' if str(j) in s else '0' for j in range(ln))
    for i, s in enumerate(sa):
        if st[i]['parent'] != ('0' if s['parent'] == '-' else s['parent']):
            errs.append(('parent', s['parent'], st[i]['parent']))
        for name, fld in (('child', 'children'), ('compl', 'completion'), ('anc', 'ancestors')):
            want = s[name] if s[name] != '-' else '0' * n
            if bits(st[i][fld], n) != want:
                errs.append((name, want, bits(st[i][fld], n)))
        want = {expected_stype(sa, i)} | ({'USCXML_STATE_HAS_HISTORY'} if s['hh'] == '1' else set())
        if st[i]['type'] != want:
            errs.append(('state-type', sorted(want), sorted(st[i]['type'])))
    for i, t in enumerate(ta):
        if tt[i]['source'] != t['source']:
            errs.append(('source', t['source'], tt[i]['source']))
        for name, fld, ln in (('target', 'target', n), ('confl', 'conflicts', m), ('exit', 'exit_set', n)):
            want = t[name] if t[name] != '-' else '0' * ln
            if bits(tt[i][fld], ln) != want:
                errs.append((name, want, bits(tt[i][fld], ln)))
        tr = byvid.get(t['vid'])
        if tr is not None:
            want = set(expected_ttype(tr[0], tr[1]))
            if tt[i]['type'] != want:
                errs.append(('trans-type', sorted(want), sorted(tt[i]['type'])))
    return errs


def check_emitted_vhdl(out, ann, byvid):
    (sa, ta) = ann
    n, m = len(sa), len(ta)
    errs = []
    vt, vx, ve = {}, {}, {}
    for tok in out.split():
        f = tok.split(':')
        ids = lambda s: [] if s == '-' else s.split(',')
        if f[0] == 'VT':
            vt[int(f[1])] = (ids(f[2]), ids(f[3]))
        elif f[0] == 'VX':
            vx[int(f[1])] = ids(f[2])
        elif f[0] == 'VE':
            ve[int(f[1])] = ids(f[2])
    if sorted(vt) != list(range(m)) or sorted(vx) != list(range(n)) or sorted(ve) != list(range(1, n)):
        return [('count', '%d/%d' % (n, m), '%d/%d/%d' % (len(vt), len(vx), len(ve)))]
    for i, t in enumerate(ta):
        src, conf = vt[i]
        if src != [t['source']]:
            errs.append(('source', t['source'], ','.join(src)))
        want = [str(j) for j in range(i) if t['confl'][j] == '1']
        if sorted(conf, key=int) != want:
            errs.append(('confl', ','.join(want), ','.join(conf)))
    for j in range(n):
        want = [str(i) for i in range(m) if ta[i]['exit'][j] == '1']
        if sorted(vx[j], key=int) != want:
            errs.append(('exit', ','.join(want), ','.join(vx[j])))
        if j >= 1:
            want = [str(i) for i in range(m) if ta[i]['target'] != '-' and ta[i]['target'][j] == '1']
            if sorted(ve[j], key=int) != want:
                tl = [i for i in ve[j] if ta[int(i)]['target'] == '-']
                errs.append(('target-of-targetless' if tl and sorted(set(ve[j]) - set(tl), key=int) == want else 'target', ','.join(want), ','.join(ve[j])))
    return errs


CHECK_EMITTED = {'c': check_emitted_c, 'pml': check_emitted_pml, 'vhdl': check_emitted_vhdl}


# ------------------------------------------------------------------ evaluation of one batch

def evaluate(vd, vm, trees, covered='1', keep_raw=False):
    """returns per tree a dict: ann, impl, spec (parsed), emitted errors per back-end, crash info"""
    xmls = [G.to_scxml(t, 'null').encode('latin-1').hex() for t in trees]
    res = [{} for _ in trees]
    outs = {}
    # documents of very different cost follow each other in blocks: deal them out over the shards
    N_ = len(trees)
    perm = sorted(range(N_), key=lambda i: (i % NCPU, i)) if N_ >= 64 else list(range(N_))

    def spread(lines):
        o, cr = run_lines_sharded(vd if lines[0].split()[1] in ('c', 'pml', 'vhdl') else vm, [lines[i] for i in perm], timeout=2400)
        back = [None] * N_
        for k, i in enumerate(perm):
            back[i] = o[k]
        return back
    if N_ == 0:
        return res
    for be in ('c', 'pml', 'vhdl'):
        outs[be] = spread(['tables %s %s' % (be, x) for x in xmls])
    mo = spread(['tables %s %s' % (covered, G.sx_tree(t)) for t in trees])
    for i, t in enumerate(trees):
        r = res[i]
        if keep_raw:
            r['raw'] = {be: outs[be][i] for be in outs}
            r['model_raw'] = mo[i]
        r['problems'] = []
        if ' ## spec ' not in mo[i] or 'OUTOFFUEL' in mo[i]:
            r['problems'].append(('model', mo[i][:200]))
            continue
        a, b = mo[i].split(' ## spec ')
        b, wfd = b.split(' ## wf ')
        r['impl'] = parse_tables(a[len('impl '):], False)
        r['spec'] = parse_tables(b, False)
        r['wf_doc'] = wfd.strip() == '1'
        byvid = {}
        for n in G.walk(t):
            for tr in n['trans']:
                byvid[str(tr['vid'])] = (tr, n['kind'])
        r['emitted'] = {}
        for be in ('c', 'pml', 'vhdl'):
            line = outs[be][i]
            if not line.startswith('ann') or ' ## out' not in line:
                r['problems'].append(('impl-' + be, line[:200]))
                continue
            at, ot = line.split(' ## out')
            ann = parse_tables(at[len('ann'):], True)
            if be == 'c':
                r['ann'] = ann
            elif 'ann' in r and ann != r['ann']:
                r['problems'].append(('annotations differ between -tc and -t' + be, ''))
            r['emitted'][be] = CHECK_EMITTED[be](ot, ann, byvid)
    return res


def judge(r):
    """-> (correspondence diffs, oracle classes, benign counters, emission classes)"""
    if 'ann' not in r or 'impl' not in r:
        return None
    ann = r['ann']
    corr = diff_tables(ann, r['impl'])
    # documentOrder / postFixOrder attributes are the positions
    for i, s in enumerate(ann[0]):
        if s['docattr'] != str(i):
            corr.append(('S', i, 'documentOrder', s['docattr'], str(i)))
    for i, t in enumerate(ann[1]):
        if t['postfix'] != str(i):
            corr.append(('T', i, 'postFixOrder', t['postfix'], str(i)))
    od = diff_tables(ann, r['spec'])
    classes, benign = classify_oracle(od, ann, r['spec'])
    em = {}
    for be, errs in r.get('emitted', {}).items():
        for e in errs:
            em.setdefault('emit-%s-%s' % (be, e[0]), []).append(e)
    return corr, classes, benign, em


# ------------------------------------------------------------------ shrinking

def remove_node(tree, sid):
    t = copy.deepcopy(tree)
    gone = set()
    for n in G.walk(t):
        for k in list(n['kids']):
            if k['sid'] == sid:
                gone |= {d['sid'] for d in G.walk(k)}
                n['kids'].remove(k)
    if not gone:
        return None
    for n in G.walk(t):
        if n.get('init') is not None:
            n['init'] = [x for x in n['init'] if x not in gone] or None
        keep = []
        for tr in n['trans']:
            if tr['targets'] is not None:
                tg = [x for x in tr['targets'] if x not in gone]
                if not tg:
                    if n['kind'] in HIST + ('initial',):
                        return None
                    continue
                tr['targets'] = tg
            keep.append(tr)
        n['trans'] = keep
    return t


def shrink(vd, vm, tree, cls, need_wf, covered='1', budget=400):
    """greedy: drop transitions, then nodes, then initial attributes, as long as class `cls` is still reported"""
    def has(t):
        if need_wf and not well_formed(t):
            return False
        r = evaluate(vd, vm, [t], covered)[0]
        j = judge(r)
        if j is None:
            return cls == 'crash' and bool(r['problems'])
        corr, classes, benign, em = j
        return cls in classes or cls in em or (cls == 'correspondence' and bool(corr))
    cur = tree
    changed = True
    while changed and budget > 0:
        changed = False
        cands = []
        for n in G.walk(cur):
            if n['kind'] in PROPER + ('scxml',):
                for k in range(len(n['trans'])):
                    cands.append(('t', n['sid'], k))
        for n in list(G.walk(cur))[1:]:
            cands.append(('n', n['sid'], 0))
        for n in G.walk(cur):
            if n.get('init') is not None:
                cands.append(('i', n['sid'], 0))
            for k, tr in enumerate(n['trans']):
                if tr['internal']:
                    cands.append(('x', n['sid'], k))
                if tr['targets'] and len(tr['targets']) > 1:
                    cands.append(('m', n['sid'], k))
        for kind, sid, k in cands:
            if budget <= 0:
                break
            if kind == 'n':
                t2 = remove_node(cur, sid)
            else:
                t2 = copy.deepcopy(cur)
                n2 = [x for x in G.walk(t2) if x['sid'] == sid]
                if not n2:
                    continue
                n2 = n2[0]
                if kind == 't':
                    if k >= len(n2['trans']):
                        continue
                    del n2['trans'][k]
                elif kind == 'i':
                    n2['init'] = None
                elif kind == 'x':
                    n2['trans'][k]['internal'] = False
                elif kind == 'm':
                    n2['trans'][k]['targets'] = n2['trans'][k]['targets'][:1]
            if t2 is None:
                continue
            budget -= 1
            if has(t2):
                cur = t2
                changed = True
                break
    return cur


# ------------------------------------------------------------------ the check

def size_key(tree):
    ns = list(G.walk(tree))
    return (len(ns), sum(len(n['trans']) for n in ns), len(G.to_scxml(tree, 'null')))


def replay_payload(tree, extra):
    xml = G.to_scxml(tree, 'null')
    d = {'scxml': xml, 'tree': tree_to_json(tree), 'model_input': 'tables 1 ' + G.sx_tree(tree),
         'replay_cmd': "echo 'tables c %s' | /verif/.build/vdriver-hooks/vdriver   # (pml, vhdl likewise); model: echo '<model_input>' | /verif/.build/vmodel/tables/vmodel; "
                       "or: uscxml-transform -tc -a ann.xml -i doc.scxml" % xml.encode('latin-1').hex()}
    d.update(extra)
    return d


def run(c):
    broken = c.prove()
    vd = ensure_vdriver('hooks', units=['vd_tables'])
    vm = ensure_vmodel('tables')
    c.assumptions += [
        'a tree is rendered as XML by tools/chartgen.py to_scxml: the <transition> children of a state precede its child states; ids are unique; only <scxml> and <initial> have no id',
        'Spec_tables is a faithful reading of the Recommendation (document order = pre-order; LCCA = deepest compound common proper ancestor; transition domain of 3.13 with the target list as written; '
        'exit set = proper states below the domain; conflict = exit sets intersect); the completion of a compound state with an <initial> child is that element (the encoding all back-ends share)',
        'the completion of a <history> is compared on proper states only (an <initial> sibling listed there can never be active); hasHistoryChild is compared on non-history elements only',
        'for transitions inside <history>/<initial> the Recommendation defines no exit set or conflicts; Spec_tables applies the same definitions to them',
        'the parsers of the emitted C / Promela / VHDL text in harness/vd_tables.cpp and the comparison code in this file',
    ]
    # defect switch of the implementation (tv_history_covered), from the corpus witness that distinguishes it
    wit = [tree_from_json(tj) for name, tj in json.load(open(os.path.join(ROOT, 'corpus', 'c05.json'))) if name == 'nested-history-below-deep-history'][0]
    covered = '1'
    r1, r0 = evaluate(vd, vm, [wit], '1')[0], evaluate(vd, vm, [wit], '0')[0]
    if 'ann' in r1 and 'impl' in r0:
        d1, d0 = diff_tables(r1['ann'], r1['impl']), diff_tables(r0['ann'], r0['impl'])
        covered = '0' if (not d0 and d1) else '1'
        c.notes['defect_switches'] = {'tv_history_covered': 'present' if covered == '1' and not d1 else ('absent' if covered == '0' else 'undetermined')}
    gstats = {}
    hist = {'documents': 0, 'well_formed': 0, 'wf_doc_model': 0, 'well_formed_but_not_wf_doc': 0, 'states_max': 0, 'with_history': 0, 'with_initial_element': 0,
            'with_initial_attr': 0, 'with_parallel': 0, 'transitions_total': 0, 'targetless': 0, 'internal': 0, 'multi_target': 0, 'history_target': 0,
            'generator': gstats, 'by_origin': {}}
    nontriv = set()
    # per class: [count, count on well-formed documents, smallest well-formed case, smallest other case]; a case = (size key, tree, origin, detail)
    oracle, emit = {}, {}
    corr_bad = [0, None]
    crashes = {}
    benign_tot = {}
    samples = []

    def note(tab, cls, case, detail):
        e = tab.setdefault(cls, [0, 0, None, None])
        e[0] += 1
        e[1] += case['wf']
        k = 2 if case['wf'] else 3
        key = size_key(case['tree'])
        if e[k] is None or key < e[k][0]:
            e[k] = (key, case['tree'], case['origin'], detail)

    def process(batch):
        res = evaluate(vd, vm, [x['tree'] for x in batch], covered, keep_raw=not samples)
        for case, r in zip(batch, res):
            t = case['tree']
            wf = well_formed(t)
            case['wf'] = wf
            hist['documents'] += 1
            o = case['origin'].split(':')[0]
            hist['by_origin'][o] = hist['by_origin'].get(o, 0) + 1
            ns = list(G.walk(t))
            kinds = {n['kind'] for n in ns}
            hist['well_formed'] += wf
            hist['wf_doc_model'] += bool(r.get('wf_doc'))
            hist['well_formed_but_not_wf_doc'] += bool(wf and not r.get('wf_doc', True))
            hist['states_max'] = max(hist['states_max'], len(ns))
            hist['with_history'] += bool(kinds & set(HIST))
            hist['with_initial_element'] += 'initial' in kinds
            hist['with_initial_attr'] += any(n.get('init') for n in ns)
            hist['with_parallel'] += 'parallel' in kinds
            byid = {n['sid']: n for n in ns}
            for n in ns:
                for tr in n['trans']:
                    hist['transitions_total'] += 1
                    hist['targetless'] += tr['targets'] is None
                    hist['internal'] += bool(tr['internal'])
                    hist['multi_target'] += bool(tr['targets'] and len(tr['targets']) > 1)
                    hist['history_target'] += bool(tr['targets'] and any(byid[x]['kind'] in HIST for x in tr['targets'] if x in byid))
            if any(n['kind'] == 'state' and any(k['kind'] in PROPER for k in n['kids']) for n in ns) and \
                    any(tr['targets'] for n in ns if n['kind'] in PROPER for tr in n['trans']):
                nontriv.add(hashlib.sha1(G.sx_tree(t).encode()).digest()[:10])
            if r['problems']:
                crashes.setdefault(r['problems'][0][0], (t, case['origin'], r['problems']))
                continue
            if len(samples) < 3 and 'raw' in r and hist['documents'] in (stats_corpus[0] + 1, 200, 1500):
                samples.append({'origin': case['origin'], 'scxml': G.to_scxml(t, 'null')[:700], 'annotations': r['raw']['c'][:500]})
            corr, classes, benign, em = judge(r)
            for k, v in benign.items():
                benign_tot[k] = benign_tot.get(k, 0) + v
            if corr:
                corr_bad[0] += 1
                key = size_key(t)
                if corr_bad[1] is None or key < corr_bad[1][0]:
                    corr_bad[1] = (key, t, case['origin'], corr[:3])
            for k, v in classes.items():
                note(oracle, k, case, v[0])
            for k, v in em.items():
                note(emit, k, case, v[0])

    stats_corpus = [len(json.load(open(os.path.join(ROOT, 'corpus', 'c05.json'))))]
    batch = []
    for case in gen_cases(c, gstats):
        batch.append(case)
        if len(batch) >= 4000:
            process(batch)
            batch = []
    if batch:
        process(batch)
    ncorpus = gstats.get('corpus', 0)
    c.cov['evaluations'] = 4 * hist['documents']
    c.cov['distinct_nontrivial'] = len(nontriv)
    c.cov['rule'] = ('corpus (%d) + every state tree with <= %d proper states over state/parallel/final, decorated with <history> (shallow/deep, several, front/back), '
                     '<initial> elements and initial attributes (single-node decorations exhaustively, combinations up to a cap), each with the whole menu '
                     '{source} x {no target, every state or history, pairs of targets} x {external, internal} in documents of <= %d transitions and in documents of <= 3 '
                     'transitions + %d seeded random documents (6..40 proper states, nesting <= 8); each transformed by ChartToC, ChartToPromela, ChartToVHDL and evaluated by '
                     'the extracted Impl_tables / Spec_tables; non-trivial = distinct document with a compound <state> and a transition with a target'
                     % (ncorpus, 4 if c.tier == 'quick' else 5, 24 if c.tier == 'quick' else 40, gstats['random']))
    c.cov['exhaustive'] = True
    c.cov['input_distribution'] = hist
    c.cov['model_disagreements'] = corr_bad[0]
    c.cov['oracle_deviations'] = {k: {'documents': v[0], 'well_formed': v[1]} for k, v in oracle.items()}
    c.cov['emission_deviations'] = {k: {'documents': v[0], 'well_formed': v[1]} for k, v in emit.items()}
    c.cov['benign_deviations'] = benign_tot
    c.cov['samples'] = samples

    # crashes / unusable output
    for key, (t, origin, probs) in sorted(crashes.items()):
        c.violation(replay_payload(t, {'kind': 'crash', 'what': probs, 'origin': origin}))
    # oracle: the implementation's tables against Spec_tables
    for cls, (cnt, cnt_wf, best_wf, best_other) in sorted(oracle.items()):
        f = c.match_known({'class': cls})
        if f:
            c.known(f['id'], f['what'] + ' (%d documents this run)' % cnt)
            continue
        if best_wf is None:
            c.notes.setdefault('deviations_outside_quantifier', {})[cls] = cnt
            continue
        key, tree, origin, v = best_wf
        small = shrink(vd, vm, tree, cls, True, covered)
        j = judge(evaluate(vd, vm, [small], covered)[0])
        d = j[1].get(cls, [v])[0] if j else v
        c.violation(replay_payload(small, {'kind': 'oracle', 'class': cls, 'count': cnt_wf, 'origin': origin,
                                           'what': '%s %d field %s' % ('state' if d[0] == 'S' else 'transition (postFixOrder)', d[1], d[2]),
                                           'observed': d[3], 'expected_by_Spec_tables': d[4]}))
    # three-way agreement: the emitted text against the annotations
    for cls, (cnt, cnt_wf, best_wf, best_other) in sorted(emit.items()):
        f = c.match_known({'class': cls})
        if f:
            c.known(f['id'], f['what'] + ' (%d documents this run)' % cnt)
            continue
        key, tree, origin, v = best_wf or best_other
        small = shrink(vd, vm, tree, cls, best_wf is not None, covered)
        j = judge(evaluate(vd, vm, [small], covered)[0])
        e = (j[3].get(cls) or [v])[0] if j else v
        c.violation(replay_payload(small, {'kind': 'oracle', 'class': cls, 'count': cnt, 'origin': origin,
                                           'what': 'the emitted %s text does not embed the table the annotated document carries (%s)' % (cls.split('-')[1], e[0]),
                                           'expected_from_annotation': e[1], 'observed_in_output': e[2]}))
    any_oracle = any(not c.match_known({'class': k}) and (k in emit or oracle[k][2] is not None) for k in list(oracle) + list(emit)) or bool(crashes)
    if corr_bad[0] and not any_oracle:
        key, tree, origin, corr = corr_bad[1]
        small = shrink(vd, vm, tree, 'correspondence', False, covered)
        j = judge(evaluate(vd, vm, [small], covered)[0])
        corr = (j[0] if j and j[0] else corr)
        c.violation(replay_payload(small, {'kind': 'correspondence', 'count': corr_bad[0], 'origin': origin,
                                           'what': 'Tables.Impl_tables (tv_history_covered=%s) and the annotations of ChartToC::prepare differ (%s %d field %s); no document on which the code contradicts Spec_tables was found'
                                                   % ((covered,) + tuple(corr[0][:3])), 'observed': corr[0][3], 'model': corr[0][4]}), no_input=True)
    elif corr_bad[0]:
        key, tree, origin, corr = corr_bad[1]
        c.notes['model_disagreement_example'] = {'scxml': G.to_scxml(tree, 'null'), 'diff': [list(map(str, x)) for x in corr[:3]]}
    if broken:
        if not any_oracle:
            for b in broken:
                c.violation({'kind': 'obligation', 'theorem': b['name'], 'why': b.get('why', '')}, no_input=True)
        else:
            for b in broken:
                log('broken obligation %s (failing inputs reported above)' % b['name'])
    return c.finish()
