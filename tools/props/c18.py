"""C18 -- the next-state logic of the generated VHDL computes the specified next configuration.

For every generated chart (no history, no <initial>, no datamodel):
  impl   : ChartToVHDL's text (vdriver `vhdltext`, in process; the uscxml-transform binary on a sample), parsed by
           harness/vhdl_eq.py into boolean equations
  model  : extract/vhdl `eqs <variant>`  = Vhdl.gen_eqs, `sweep` = Vhdl.next_config for EVERY legal running
           configuration x (spontaneous step + every event of the document) x every valuation of the condition inputs
  (1) generator correspondence: parsed equations == gen_eqs of the implementation's variant (normal form)
  (2) oracle: the PARSED equations, evaluated (ternary, bit-parallel) in every situation, give next_config
  (3) the reference is tied to the code: next_config / init_config against runs of the real interpreter (fast engine)
"""
import copy, itertools, json, os, random, re, sys, collections, hashlib
from concurrent.futures import ProcessPoolExecutor
from vlib import *
import chartgen as G
from chart_common import impl_line
sys.path.insert(0, HARNESS)
import vhdl_eq as V

SWITCHES = ['anc_outer_index', 'default_ignores_targeted', 'desc_unstripped']
CLASS_OF_SWITCH = {0: 'ancestor-completion', 1: 'default-child-beside-target', 2: 'dotstar-descriptor'}


# ------------------------------------------------------------------ charts

def tree_to_json(n):
    d = {'kind': n['kind'], 'sid': n['sid'], 'init': n.get('init'), 'kids': [tree_to_json(k) for k in n.get('kids', [])], 'trans': []}
    for t in n.get('trans', []):
        d['trans'].append({'vid': t['vid'], 'ev': t['ev'].decode('latin-1') if t['ev'] is not None else None,
                           'cond': list(t['cond']) if t['cond'] is not None else None, 'targets': t['targets'],
                           'internal': t['internal'], 'raise': [i[2].decode('latin-1') for i in t.get('body', [])]})
    return d


def tree_from_json(d):
    n = G.node(d['kind'], d['sid'], init=d.get('init'))
    n['kids'] = [tree_from_json(k) for k in d.get('kids', [])]
    for t in d.get('trans', []):
        body = [('raise', t['vid'] + 500 + j, e.encode('latin-1')) for j, e in enumerate(t.get('raise', []))]
        n['trans'].append(G.trans(t['vid'], t['ev'].encode('latin-1') if t['ev'] is not None else None,
                                  tuple(t['cond']) if t['cond'] is not None else None, t['targets'], t['internal'], body))
    return n


def menu_of(base):
    props = G.proper_states(base)
    sids = [n['sid'] for n in props]
    srcs = [n['sid'] for n in props if n['kind'] != 'final']
    menu = []
    for s in srcs:
        for ev in (b'e', b'f', None):
            for tg in [None] + [[x] for x in sids]:
                for internal in ((False, True) if tg else (False,)):
                    menu.append((s, ev, tg, internal))
    return menu


def with_trans(shape, ts, k):
    tree = G.build(shape)
    byid = {n['sid']: n for n in G.walk(tree)}
    vid = 100
    for j, (s, ev, tg, internal) in enumerate(ts):
        vid += 1
        cond = ('in', 1) if (k + j) % 3 == 0 else None
        byid[s]['trans'].append(G.trans(vid, ev, cond, tg, internal, []))
    return tree


def small_exhaustive(nprop, cap):
    """every tree shape with nprop proper states x every ordered pair of transitions of the menu; stride sample of cap"""
    out = []
    for shape in G.shapes(nprop):
        menu = menu_of(G.build(shape))
        for t1 in menu:
            for t2 in menu:
                out.append((shape, (t1, t2)))
    total = len(out)
    if total > cap:
        step = total / float(cap)
        out = [out[int(i * step)] for i in range(cap)]
    return [with_trans(shape, ts, k) for k, (shape, ts) in enumerate(out)], total


def every_shape(nprop, per_shape, rng):
    """every tree shape with nprop proper states, per_shape random transition sets (1-3 transitions) each"""
    charts = []
    nshapes = 0
    for shape in G.shapes(nprop):
        nshapes += 1
        menu = menu_of(G.build(shape))
        if not menu:
            charts.append(G.build(shape))
            continue
        for k in range(per_shape):
            ts = [rng.choice(menu) for _ in range(rng.randint(1, 3))]
            charts.append(with_trans(shape, ts, rng.randint(0, 2)))
    return charts, nshapes


DESCS18 = [b'e', b'f', b'g', b'e f', b'*', b'e.*', b'e.', b'f.* g', b'e e']
EVENTS18 = [b'e', b'f', b'g']


def rand_chart18(rng, nprop=None):
    nprop = nprop or rng.randint(3, 10)

    def rshape(k, in_parallel=False):
        f = []
        while k > 0:
            sz = rng.randint(1, k)
            if sz == 1:
                f.append((rng.choice(['state'] if in_parallel else ['state', 'state', 'state', 'final']), []))
            else:
                kind = rng.choice(['state', 'state', 'parallel'])
                f.append((kind, rshape(sz - 1, kind == 'parallel')))
            k -= sz
        return f
    tree = G.build(('scxml', rshape(nprop)))
    props = G.proper_states(tree)
    sids = [n['sid'] for n in props]
    pars = [n for n in props if n['kind'] == 'parallel']
    # initial attribute naming a child that is not the first one
    for n in G.walk(tree):
        if n['kind'] in ('state', 'scxml') and len(n['kids']) >= 2 and rng.random() < 0.3:
            n['init'] = [rng.choice(n['kids'])['sid']]
    vid = [100]
    nconds = 0
    for _ in range(rng.randint(1, min(7, nprop + 2))):
        src = rng.choice(props)
        if src['kind'] == 'final':
            continue
        r = rng.random()
        if r < 0.12:
            targets = None
        elif r < 0.85 or not pars:
            targets = [rng.choice(sids)]
        else:
            p = rng.choice(pars)
            regs = [k for k in p['kids'] if k['kind'] in ('state', 'parallel')]
            if len(regs) >= 2:
                r1, r2 = rng.sample(regs, 2)
                pick = lambda r: rng.choice([d['sid'] for d in G.walk(r) if d['kind'] in ('state', 'parallel', 'final')])
                targets = [pick(r1), pick(r2)]
            else:
                targets = [rng.choice(sids)]
        ev = None if rng.random() < 0.25 else rng.choice(DESCS18)
        cond = None
        if rng.random() < 0.35 and nconds < 4:
            cond = ('in', rng.choice(sids))
            nconds += 1
        vid[0] += 1
        body = [('raise', vid[0] + 500, rng.choice(EVENTS18))] if rng.random() < 0.15 else []
        src['trans'].append(G.trans(vid[0], ev, cond, targets, rng.random() < 0.2 and targets is not None, body))
    return tree


def has_targetless(tree):
    return any(t['targets'] is None for n in G.walk(tree) for t in n['trans'])


def load_corpus():
    return json.load(open(os.path.join(ROOT, 'corpus', 'c18.json')))


def gen_charts(c):
    rng = random.Random(c.seed * 104729 + 18)
    quick = c.tier == 'quick'
    charts = []
    for w in load_corpus()['charts']:
        charts.append({'tree': tree_from_json(w['tree']), 'origin': 'corpus:' + w['name']})
    dist = collections.Counter()
    for nprop, cap in ((1, 81), (2, 3375), (3, 12000 if quick else 69237)) + (() if quick else ((4, 100000),)):
        cs, total = small_exhaustive(nprop, cap)
        for t in cs:
            charts.append({'tree': t, 'origin': 'pairs%d(%d of %d)' % (nprop, len(cs), total)})
    for nprop, per in ((4, 12 if quick else 40), (5, 3 if quick else 20)):
        cs, nshapes = every_shape(nprop, per, rng)
        for t in cs:
            charts.append({'tree': t, 'origin': 'shapes%d(all %d shapes x %d)' % (nprop, nshapes, per)})
    for _ in range(3000 if quick else 30000):
        charts.append({'tree': rand_chart18(rng), 'origin': 'random'})
    return charts


# ------------------------------------------------------------------ per-chart work (runs in worker processes)

def parse_model_eqs(line):
    head, body = line.split(' | ', 1)
    h = dict(kv.split('=', 1) for kv in head.split())
    eqs, order = {}, []
    for item in body.split(' ; '):
        name, term = item.split(' = ', 1)
        eqs[name] = V.parse_show(term)
        order.append(name)
    return h, eqs, order


def parse_sweep(line):
    head, body = line.split('|', 1)
    h = dict(kv.split('=', 1) for kv in head.split())
    conds = [int(x) for x in h['conds'].split(',') if x]
    events = [x for x in h['events'].split(',') if x]
    sits = []
    for rec in body.split():
        f = rec.split(':')
        sits.append((int(f[0], 16), int(f[1]), int(f[2], 16), int(f[3], 16), int(f[4], 16)))
    return h, conds, events, sits


def inputs_for(n, conds, events, sits, merged=False):
    """bit k of each input signal = its value in situation k"""
    inp = {'state_active_%d_sig' % i: 0 for i in range(n)}
    for e in events:
        inp['event_%s_sig' % e] = 0
    for t in conds:
        inp['transition_condition_fulfilled_%d_i' % t] = 0
    inp['spontaneous_en'] = 0
    inp['in_complete_entry_set_0_sig'] = 0
    for k, (cfg, ei, vm, nx, sel) in enumerate(sits):
        b = 1 << k
        for i in range(n):
            if cfg >> i & 1:
                inp['state_active_%d_sig' % i] |= b
        if ei == 0 or merged:
            inp['spontaneous_en'] |= b
        if ei != 0:
            inp['event_%s_sig' % events[ei - 1]] |= b
        for j, t in enumerate(conds):
            if vm >> j & 1:
                inp['transition_condition_fulfilled_%d_i' % t] |= b
    return inp


def next_of(eqs, order, inp, n, nsits):
    order = [x for x in order if x not in inp]
    env = V.solve(eqs, order, inp, nsits)
    res = []
    full = (1 << nsits) - 1
    one = [env.get('state_next_%d_sig' % i, (0, 0))[0] for i in range(n)]
    known = full
    for i in range(n):
        a, b = env.get('state_next_%d_sig' % i, (0, 0))
        known &= (a | b)
    for k in range(nsits):
        if not (known >> k & 1):
            res.append(None)
        else:
            res.append(sum(1 << i for i in range(n) if one[i] >> k & 1))
    return res


def work_one(args):
    """returns a dict of findings for one chart"""
    idx, text_line, eq_lines, sweep_line, vec = args
    r = {'idx': idx, 'syn': [], 'fails': [], 'nsits': 0, 'nontrivial': 0, 'cyclic': False, 'err': None, 'wf': None,
         'init_vhdl': None, 'merged_unresolved': 0, 'nconds': 0, 'ncfgs': 0}
    try:
        if not text_line.startswith('OK '):
            r['err'] = 'transform: ' + text_line[:200]
            return r
        eqs, order, info = V.parse_architecture(text_line[3:].replace('\x1f', '\n'))
        h, meqs, morder = parse_model_eqs(eq_lines[vec])
        r['wf'] = h['wf']
        n = int(h['n'])
        # (1) generator correspondence
        for name in morder:
            if name not in eqs:
                r['syn'].append((name, None, V.show(V.norm(meqs[name]))))
            elif V.norm(eqs[name]) != V.norm(meqs[name]):
                r['syn'].append((name, V.show(V.norm(eqs[name])), V.show(V.norm(meqs[name]))))
        for name in order:
            if name not in meqs and (name.startswith('in_') or name.startswith('state_next') or name in ('spontaneous_active', 'completed_sig')):
                r['syn'].append((name, V.show(V.norm(eqs[name])), None))
        r['cyclic'] = V.dependency_cycle(eqs) is not None
        # (2) the oracle on the parsed equations
        hs, conds, events, sits = parse_sweep(sweep_line)
        r['nsits'] = len(sits)
        r['nconds'] = len(conds)
        r['ncfgs'] = len(set(s[0] for s in sits))
        if sits:
            inp = inputs_for(n, conds, events, sits)
            for need in list(inp):
                if need.startswith('event_') and need not in info['registers']:
                    r['syn'].append((need, None, 'event signal of the model missing in the text'))
            res = next_of(eqs, order, inp, n, len(sits))
            cache = {}

            def passes(var, k, want):
                if var not in cache:
                    _, ve, vo = parse_model_eqs(eq_lines[var])
                    cache[var] = next_of(ve, vo, inp, n, len(sits))
                return cache[var][k] == want
            for k, (s, got) in enumerate(zip(sits, res)):
                if s[4]:
                    r['nontrivial'] += 1
                if got != s[3]:
                    # smallest set of switches whose repair (alone, in the implementation's vector) cures this situation
                    on = [j for j in range(3) if vec[j] == '1']
                    expl = None
                    if passes(vec, k, got):      # the model of the implementation's variant predicts the failure
                        for size in range(1, len(on) + 1):
                            for sub in itertools.combinations(on, size):
                                var = ''.join('0' if j in sub else vec[j] for j in range(3))
                                if passes(var, k, s[3]):
                                    expl = list(sub)
                                    break
                            if expl is not None:
                                break
                    r['fails'].append((s, got, expl))
            # the initial step: nothing active, reset pulse on in_complete_entry_set_0_sig
            inp0 = {x: 0 for x in inp}
            inp0['in_complete_entry_set_0_sig'] = 1
            inp0['spontaneous_en'] = 1
            r['init_vhdl'] = next_of(eqs, order, inp0, n, 1)[0]
            # observation outside the property: spontaneous_en = '1' while an event signal is still set
            ev_sits = [s for s in sits if s[1] != 0]
            if ev_sits and r['cyclic']:
                resm = next_of(eqs, order, inputs_for(n, conds, events, ev_sits, merged=True), n, len(ev_sits))
                r['merged_unresolved'] = sum(1 for x in resm if x is None)
    except Exception as ex:  # parse errors are findings about the text, not crashes of the check
        r['err'] = '%s: %s' % (type(ex).__name__, ex)
    return r


# ------------------------------------------------------------------ interpreter tie

def parse_trace(line):
    """-> (initial configuration (sids) or None, [(prev cfg sids, event bytes|None, new cfg sids, [vid])])"""
    toks = line.split('|')[0].split()
    steps = []
    cur = []
    prev = None
    init = None
    i = 0
    first = True
    while i < len(toks):
        t = toks[i]
        if t.startswith('RET:'):
            cfg = None
            if i + 1 < len(toks) and toks[i + 1].startswith('CFG:'):
                cfg = sorted(int(x) for x in toks[i + 1][4:].split(',') if x != '')
                i += 1
            if t == 'RET:MICROSTEPPED':
                if first:
                    init = cfg
                    first = False
                else:
                    ev = None
                    for x in cur:
                        if x.startswith('EV:'):
                            ev = bytes.fromhex(x[3:]) if x[3:] != '-' else b''
                    taken = [int(x[3:]) for x in cur if x.startswith('T{:')]
                    steps.append((prev, ev, cfg, taken))
            prev = cfg if cfg is not None else prev
            cur = []
        else:
            cur.append(t)
        i += 1
    return init, steps


def interpreter_tie(c, vd, vm, charts, nsample):
    rng = random.Random(c.seed * 31 + 5)
    pick = charts[:len(load_corpus()['charts'])] + rng.sample(charts, min(nsample, len(charts)))
    lines, metas = [], []
    for ch in pick:
        tree = ch['tree']
        evs = sorted(set(e for n in G.walk(tree) for t in n['trans'] if t['ev'] is not None
                         for e in [d.rstrip(b'*').rstrip(b'.') for d in t['ev'].split()] if e)) or [b'e']
        word = [rng.choice(evs + [b'zz']) for _ in range(rng.randint(1, 5))]
        lines.append(impl_line('fast', tree, 'null', False, word))
        metas.append((ch, word))
    outs, crashes = run_lines_sharded(vd, lines)
    qlines, qmeta = [], []
    for (ch, word), o in zip(metas, outs):
        if o.startswith('CRASH'):
            continue
        tree = ch['tree']
        nodes = list(G.walk(tree))
        idx = {n['sid']: i for i, n in enumerate(nodes)}
        post = []

        def walk_post(n):
            for k in n['kids']:
                walk_post(k)
            for t in n['trans']:
                post.append(t)
        walk_post(tree)
        conds = [t for t in post if t['cond'] is not None]
        init, steps = parse_trace(o)
        q = []
        for (prev, ev, cfg, taken) in steps:
            cm = sum(1 << idx[s] for s in prev)
            vmask = sum(1 << j for j, t in enumerate(conds) if t['cond'][1] in prev)
            q.append('%x %s %x' % (cm, ev.hex() if ev else '-', vmask))
        qlines.append('next %s %s' % (G.sx_tree(tree), ' '.join(q)))
        qmeta.append((ch, word, init, steps, idx, post, o))
    mouts, _ = run_lines_sharded(vm, qlines)
    nsteps = 0
    ntaken = 0
    bad = []
    inits = {}
    for (ch, word, init, steps, idx, post, o), mo in zip(qmeta, mouts):
        f = mo.split()
        if not f or f[0].startswith('E'):
            bad.append((ch, word, 'model: ' + mo[:200], o))
            continue
        if init is not None:
            im = sum(1 << idx[s] for s in init)
            inits[id(ch)] = im
            if int(f[0], 16) != im:
                bad.append((ch, word, 'initial configuration: interpreter %x, init_config %x' % (im, int(f[0], 16)), o))
        for (prev, ev, cfg, taken), rec in zip(steps, f[1:]):
            nx, sel = rec.split(':')
            nsteps += 1
            if taken:
                ntaken += 1
            want = sum(1 << idx[s] for s in cfg)
            selv = sorted(post[i]['vid'] for i in range(len(post)) if int(sel, 16) >> i & 1)
            if int(nx, 16) != want or selv != sorted(taken):
                bad.append((ch, word, 'step from %s on %s: interpreter -> %s taking %s; next_config -> %x selecting %s'
                            % (prev, ev, cfg, sorted(taken), int(nx, 16), selv), o))
    return {'runs': len(qmeta), 'steps': nsteps, 'steps_with_transitions': ntaken, 'crashes': len(crashes)}, bad, inits


# ------------------------------------------------------------------ the check

def detect_vector(vd, vm):
    """the implementation's switch vector: the variant (of the 8) whose gen_eqs equal the emitted equations on every
    witness chart of the corpus (witness i distinguishes switch i; the regression charts have no target-less transition)"""
    wit = [w for w in load_corpus()['charts'] if w.get('witness')]
    trees = [tree_from_json(w['tree']) for w in wit]
    _, outs, _ = run_lines(vd, ['vhdltext ' + G.to_scxml(t, 'null').encode('latin-1').hex() for t in trees])
    parsed = []
    for o in outs:
        parsed.append(V.parse_architecture(o[3:].replace('\x1f', '\n'))[0] if o.startswith('OK ') else None)
    match = {}
    for var in (''.join(x) for x in itertools.product('01', repeat=3)):
        _, mo, _ = run_lines(vm, ['eqs %s %s' % (var, G.sx_tree(t)) for t in trees])
        ok = []
        for eqs, m in zip(parsed, mo):
            if eqs is None:
                ok.append(False)
                continue
            _, meqs, morder = parse_model_eqs(m)
            ok.append(all(nm in eqs and V.norm(eqs[nm]) == V.norm(meqs[nm]) for nm in morder))
        match[var] = ok
    full = [var for var, ok in match.items() if all(ok)]
    notes = {}
    if len(full) == 1:
        vec = full[0]
    else:
        # no variant explains every witness: take the one explaining most (the generator correspondence will report)
        vec = max(sorted(match), key=lambda var: sum(match[var]))
        notes['ambiguous_or_none'] = {var: sum(ok) for var, ok in match.items()}
    for j, name in enumerate(SWITCHES):
        notes[name] = 'present' if vec[j] == '1' else 'absent'
    return vec, notes


def describe(tree, n, s, events, conds):
    cfg = [i for i in range(n) if s[0] >> i & 1]
    return {'configuration_state_indices': cfg, 'event': (events[s[1] - 1] if s[1] else None) or 'spontaneous step',
            'condition_inputs': {('transition_condition_fulfilled_%d_i' % t): (s[2] >> j & 1) for j, t in enumerate(conds)}}


def run(c):
    broken = c.prove()
    vd = ensure_vdriver('hooks', units=['vd_vhdl', 'vd_run'])
    vm = ensure_vmodel('vhdl')
    c.assumptions += [
        'situation -> inputs (Vhdl.vh_inputs): spontaneous step = spontaneous_en \'1\' and no event signal; pending event e = spontaneous_en \'0\' and exactly event_e_sig \'1\'; in_complete_entry_set_0_sig \'0\' (reset pulse over). The clocked wrapper (which input combinations occur, event decoding, stall) is outside the property',
        'hypotheses of vhdl_next_correct, all evaluated on every generated chart/situation: vh_wfb (the flat tables are those of a tree without <history>/<initial>, initial attribute naming one child or absent, <scxml> not parallel, transition sources/targets proper states, event names single tokens, descriptors name / name. / name.* / *), legal_configb, vh_running (no <final> child of <scxml> active: the interpreter has left its loop there and the design stalls), vh_event_ok (the event is one of the document)',
        'the emitted concurrent assignments are read as a system of boolean equations; its ternary (Kleene) least fixed point is their value -- the net has a syntactic loop through spontaneous_active; a signal left unknown is a failure. vhdl_solution_unique: every consistent two-valued valuation agrees with it',
        'a transition without target attribute has no targetBools attribute; the model reads "no target bit" where the C++ indexes an empty std::string (undefined behaviour, not modelled as a switch)',
        'next_config (Vhdl.v) is Fast.v\'s selection/exit/entry/enter specialised to the fragment with ChartToC::prepare\'s conflict relation (proved equal to Fast.v\'s conflict matrix, selection without conditions, exit set, entry set); it is compared with runs of the real interpreter (fast engine) on a sample',
        'dotted event names, <history>, <initial> elements, initial attributes naming several or deeper states, and executable content other than the event names of <raise>/<send> are outside the generated fragment']
    vec, vnotes = detect_vector(vd, vm)
    c.notes['defect_switches'] = {'vector(anc_outer_index,default_ignores_targeted,desc_unstripped)': vec, 'witnesses': vnotes}

    charts = gen_charts(c)
    sx = [G.sx_tree(ch['tree']) for ch in charts]
    texts, crashes = run_lines_sharded(vd, ['vhdltext ' + G.to_scxml(ch['tree'], 'null').encode('latin-1').hex() for ch in charts])
    need = sorted(set(''.join('0' if j in sub else vec[j] for j in range(3))
                      for size in range(0, 4) for sub in itertools.combinations([j for j in range(3) if vec[j] == '1'], size)))
    eq_out = {}
    for var in need:
        o, _ = run_lines_sharded(vm, ['eqs %s %s' % (var, s) for s in sx])
        eq_out[var] = o
    sweeps, _ = run_lines_sharded(vm, ['sweep - ' + s for s in sx], timeout=2400)
    jobs = [(i, texts[i], {var: eq_out[var][i] for var in need}, sweeps[i], vec) for i in range(len(charts))]
    with ProcessPoolExecutor(max_workers=NCPU) as ex:
        results = list(ex.map(work_one, jobs, chunksize=max(1, len(jobs) // (NCPU * 8))))

    # extraction sanity: the extracted eval_eqs (the function of the theorem) against this file's evaluation of the
    # extracted gen_eqs, on a sample
    msample = list(range(min(len(charts), 40))) + list(range(0, len(charts), max(1, len(charts) // 400)))
    mo, _ = run_lines_sharded(vm, ['sweep %s %s' % (vec, sx[i]) for i in msample], timeout=2400)
    mdiff = 0
    mcount = 0
    for i, line in zip(msample, mo):
        head, body = line.split('|', 1)
        recs = [x.split(':') for x in body.split()]
        if not recs:
            continue
        h, conds, events, sits = parse_sweep(line)
        hh, meqs, morder = parse_model_eqs(eq_out[vec][i])
        got = next_of(meqs, morder, inputs_for(int(hh['n']), conds, events, sits), int(hh['n']), len(sits))
        for f, g in zip(recs, got):
            mcount += 1
            if (None if f[5] == '?' else int(f[5], 16)) != g:
                mdiff += 1
    c.notes['extracted_eval_eqs_vs_python_evaluator'] = {'situations': mcount, 'different': mdiff}

    # the same text from the command line tool, on a sample
    import tempfile, subprocess
    tool = os.path.join(HOOKS, 'bin', 'uscxml-transform')
    tooldiff = []
    tsample = list(range(7)) + [len(charts) // 3, len(charts) // 2, len(charts) - 2, len(charts) - 1]
    with tempfile.TemporaryDirectory() as td:
        procs = []
        for i in tsample:
            open(os.path.join(td, '%d.scxml' % i), 'w').write(G.to_scxml(charts[i]['tree'], 'null'))
            procs.append((i, subprocess.Popen([tool, '-tvhdl', '-i', os.path.join(td, '%d.scxml' % i), '-o', os.path.join(td, '%d.vhdl' % i)],
                                              stdout=subprocess.DEVNULL, stderr=subprocess.DEVNULL)))
        for i, p in procs:
            try:
                p.wait(timeout=120)
                full = open(os.path.join(td, '%d.vhdl' % i), encoding='latin-1').read()
                e1, o1, _ = V.parse_architecture(full)
                e2, o2, _ = V.parse_architecture(texts[i][3:].replace('\x1f', '\n'))
                # (the order of the event names, hence the text of the event decoder, differs from process to process;
                #  the concurrent equations must not)
                if sorted(o1) != sorted(o2) or any(V.norm(e1[x]) != V.norm(e2[x]) for x in o1):
                    tooldiff.append(i)
            except Exception as ex2:
                tooldiff.append(i)
    c.notes['uscxml-transform_vs_in_process'] = {'sampled': len(tsample), 'different': len(tooldiff)}

    # (3) reference vs. interpreter
    tie, tiebad, inits = interpreter_tie(c, vd, vm, charts, 300 if c.tier == 'quick' else 3000)
    c.notes['reference_vs_interpreter'] = dict(tie, disagreements=len(tiebad))

    # the target-less transition: its targetBools attribute does not exist, the generator indexes the empty string.
    # With more than 16 states the read leaves the std::string object; the sanitizer build shows it (thorough tier).
    asan_hit = None
    if c.tier == 'thorough' and os.environ.get('VERIF_NO_ASAN') is None:
        try:
            vda = ensure_vdriver('asan', units=['vd_vhdl'])
            kids = [G.node('state', i) for i in range(1, 21)]
            kids[0]['trans'].append(G.trans(101, b'e', None, None))
            kids[1]['trans'].append(G.trans(102, b'e', None, [5]))
            big = G.node('scxml', 0, kids=kids)
            rc_a, out_a, err_a = run_lines(vda, ['vhdltext ' + G.to_scxml(big, 'null').encode('latin-1').hex()], timeout=600)
            m = re.search(r'ERROR: AddressSanitizer: (\S+).*?\n.*?\n\s*#0 \S+ in (\S+) (\S+)', err_a, flags=re.S)
            asan_hit = {'report': m.group(1), 'function': m.group(2), 'where': m.group(3)} if m else None
            c.notes['asan_targetless_probe'] = asan_hit or {'report': None, 'rc': rc_a}
            if asan_hit:
                asan_hit['chart'] = G.to_scxml(big, 'null')
        except BuildError as ex_a:
            c.notes['asan_targetless_probe'] = {'skipped': str(ex_a)[-300:]}

    # ---- classify
    nsits = sum(r['nsits'] for r in results)
    c.cov['evaluations'] = nsits
    c.cov['distinct_nontrivial'] = sum(r['nontrivial'] for r in results)
    origins = collections.Counter(ch['origin'].split('(')[0] for ch in charts)
    c.cov['rule'] = ('%d charts (corpus; every tree shape with <= 3 proper states x ordered pairs of transitions from the menu '
                     '{source} x {e, f, eventless} x {no target, each state} x {external, internal}, every third with a condition input; '
                     'every tree shape with 4 and 5 proper states x random transition sets; seeded random charts with 3..10 proper states, '
                     'initial attributes, multi-targets, descriptor lists / * / e.* / e., <raise>); per chart EVERY legal running configuration x '
                     '(spontaneous step + every event of the document) x every valuation of the condition inputs; evaluation = one situation '
                     'of one chart on the parsed equations against next_config; non-trivial = situations in which the reference selects a transition '
                     '(distinct by construction)') % len(charts)
    c.cov['exhaustive_per_document'] = True
    c.cov['input_distribution'] = {
        'charts_by_origin': dict(origins), 'charts': len(charts),
        'states_incl_root_histogram': dict(collections.Counter(len(list(G.walk(ch['tree']))) for ch in charts)),
        'charts_with_targetless_transition': sum(1 for ch in charts if has_targetless(ch['tree'])),
        'charts_with_condition_inputs': sum(1 for r in results if r['nconds'] > 0),
        'max_condition_inputs': max([r['nconds'] for r in results] + [0]),
        'max_configurations_per_chart': max([r['ncfgs'] for r in results] + [0]),
        'charts_whose_equations_have_a_syntactic_cycle': sum(1 for r in results if r['cyclic']),
        'fragment_wf_true': sum(1 for r in results if r['wf'] == '1')}
    merged = sum(r['merged_unresolved'] for r in results)
    c.notes['combinational_loop'] = {
        'charts_with_syntactic_cycle': sum(1 for r in results if r['cyclic']),
        'situations_unresolved_under_the_property_s_input_mapping': sum(1 for r in results for f in r['fails'] if f[1] is None),
        'observation_outside_the_property': 'with spontaneous_en = \'1\' while an event signal is still \'1\' (the clocked wrapper can produce this) %d of the explored (configuration, event, valuation) triples leave state_next_* undetermined: the loop in_optimal_transition_set(eventful) -> spontaneous_active -> in_optimal_transition_set(spontaneous, conflicting, later in post-fix order) is live' % merged}
    mid = len(charts) // 2
    c.cov['samples'] = [{'chart': G.to_scxml(charts[i]['tree'], 'null')[99:], 'origin': charts[i]['origin'], 'situations': results[i]['nsits'],
                         'failing_situations': len(results[i]['fails']), 'generator_mismatches': len(results[i]['syn'])}
                        for i in (0, mid, len(charts) - 1)]

    for cr in crashes:
        c.violation({'kind': 'crash', 'what': 'ChartToVHDL crashed', 'chart': G.to_scxml(charts[min(cr[0], len(charts) - 1)]['tree'], 'null'),
                     'rc': cr[1], 'stderr': cr[2]})
    errs = [r for r in results if r['err']]
    notwf = [r for r in results if r['wf'] == '0']
    c.cov['charts_outside_fragment_wf'] = len(notwf)
    for r in errs[:1]:
        c.violation({'kind': 'emitted-text', 'what': r['err'], 'chart': G.to_scxml(charts[r['idx']]['tree'], 'null'), 'count': len(errs)})
    for r in notwf[:1]:
        c.violation({'kind': 'generator-of-the-check', 'what': 'vh_wfb is false on a generated chart (the theorem\'s hypothesis is not met)',
                     'chart': G.to_scxml(charts[r['idx']]['tree'], 'null')}, no_input=True)

    def size_key(i):
        return (len(list(G.walk(charts[i]['tree']))), len(G.to_scxml(charts[i]['tree'], 'null')))

    # oracle failures by class
    byclass = collections.defaultdict(list)
    for r in results:
        ch = charts[r['idx']]
        tl = has_targetless(ch['tree'])
        for (s, got, expl) in r['fails']:
            if got is None:
                cls = 'unresolved-loop'
            elif expl:
                cls = '+'.join(CLASS_OF_SWITCH[j] for j in expl)
            elif tl and any(name.startswith('in_complete_entry_set_up') for name, _, _ in r['syn']):
                cls = 'targetless-out-of-bounds'
            else:
                cls = 'other'
            byclass[cls].append((r['idx'], s, got))
    c.cov['oracle_failures'] = {k: len(vv) for k, vv in byclass.items()}
    c.cov['charts_with_oracle_failure'] = len(set(i for vv in byclass.values() for i, _, _ in vv))
    any_oracle = False
    for cls, vv in sorted(byclass.items()):
        any_oracle = True
        f = c.match_known({'class': cls})
        if f:
            c.known(f['id'], f['what'])
            continue
        i, s, got = min(vv, key=lambda x: (size_key(x[0]), bin(x[1][0]).count('1')))
        r = results[i]
        h, conds, events, _ = parse_sweep(sweeps[i])
        n = int(h['n'])
        d = describe(charts[i]['tree'], n, s, events, conds)
        xml = G.to_scxml(charts[i]['tree'], 'null')
        c.violation(dict(d, kind='oracle', **{'class': cls, 'chart': xml, 'origin': charts[i]['origin'],
                         'expected_next_configuration(next_config)': [j for j in range(n) if s[3] >> j & 1],
                         'reference_selected_transitions(post-fix)': [j for j in range(32) if s[4] >> j & 1],
                         'observed_next_configuration(emitted equations)': ('undetermined' if got is None else [j for j in range(n) if got >> j & 1]),
                         'failing_situations_in_class': len(vv), 'charts_in_class': len(set(x[0] for x in vv)),
                         'replay_cmd': "echo 'vhdltext %s' | /verif/.build/vdriver-hooks/vdriver | tr '\\037' '\\n'   # then: state_next_* under the inputs above; model: echo 'sweep %s %s' | /verif/.build/vmodel/vhdl/vmodel" % (xml.encode('latin-1').hex(), vec, sx[i])}))

    # initial step: emitted equations vs. the interpreter's initial configuration
    initbad = []
    for r in results:
        ch = charts[r['idx']]
        if id(ch) in inits and r['init_vhdl'] is not None and r['init_vhdl'] != inits[id(ch)]:
            initbad.append(r['idx'])
    c.notes['initial_step'] = {'compared_with_interpreter': sum(1 for r in results if id(charts[r['idx']]) in inits), 'different': len(initbad)}
    if initbad:
        i = min(initbad, key=size_key)
        cls = 'initial-step'
        f = c.match_known({'class': cls})
        if f:
            c.known(f['id'], f['what'])
        else:
            n = len(list(G.walk(charts[i]['tree'])))
            c.violation({'kind': 'oracle', 'class': cls, 'chart': G.to_scxml(charts[i]['tree'], 'null'),
                         'situation': 'reset: no state active, in_complete_entry_set_0_sig = 1',
                         'expected(initial configuration of the interpreter)': [j for j in range(n) if inits[id(charts[i])] >> j & 1],
                         'observed(emitted equations)': [j for j in range(n) if results[i]['init_vhdl'] >> j & 1], 'count': len(initbad)})
        any_oracle = True

    # generator correspondence
    synbad = [r for r in results if r['syn']]
    c.cov['generator_mismatch_charts'] = len(synbad)
    syn_tl = [r for r in synbad if has_targetless(charts[r['idx']]['tree']) and all(nm.startswith('in_complete_entry_set_up') for nm, _, _ in r['syn'])]
    syn_other = [r for r in synbad if r not in syn_tl]
    c.cov['generator_mismatch_targetless_only'] = len(syn_tl)
    if syn_tl:
        f = c.match_known({'class': 'targetless-out-of-bounds'})
        if f:
            c.known(f['id'], f['what'])
        elif 'targetless-out-of-bounds' not in byclass:
            r = min(syn_tl, key=lambda r: size_key(r['idx']))
            c.violation({'kind': 'generator', 'class': 'targetless-out-of-bounds', 'chart': G.to_scxml(charts[r['idx']]['tree'], 'null'),
                         'equations(name, emitted, model)': r['syn'][:4], 'count': len(syn_tl)})
    if asan_hit and 'targetless-out-of-bounds' not in byclass and not syn_tl:
        f = c.match_known({'class': 'targetless-out-of-bounds'})
        if f:
            c.known(f['id'], f['what'])
        else:
            c.violation({'kind': 'sanitizer', 'class': 'targetless-out-of-bounds', 'chart': asan_hit['chart'], 'report': asan_hit['report'],
                         'function': asan_hit['function'], 'where': asan_hit['where'],
                         'replay_cmd': "echo 'vhdltext %s' | /verif/.build/vdriver-asan/vdriver" % asan_hit['chart'].encode('latin-1').hex()})
    if syn_other:
        r = min(syn_other, key=lambda r: size_key(r['idx']))
        c.violation({'kind': 'correspondence', 'what': 'emitted equations differ from Vhdl.gen_eqs of variant %s' % vec,
                     'chart': G.to_scxml(charts[r['idx']]['tree'], 'null'), 'equations(name, emitted, model)': r['syn'][:4],
                     'count': len(syn_other)}, no_input=not any_oracle)
    if tiebad:
        ch, word, what, o = min(tiebad, key=lambda b: len(G.to_scxml(b[0]['tree'], 'null')))
        c.violation({'kind': 'reference', 'what': 'the reference next_config and the interpreter (fast engine) disagree: ' + what,
                     'chart': G.to_scxml(ch['tree'], 'null'), 'events': [w.decode() for w in word], 'trace': o[:1500], 'count': len(tiebad),
                     'replay_cmd': "echo '%s' | /verif/.build/vdriver-hooks/vdriver" % impl_line('fast', ch['tree'], 'null', False, word)}, no_input=True)
    if mdiff:
        c.violation({'kind': 'harness', 'what': 'extracted Vhdl.eval_eqs and the evaluator of harness/vhdl_eq.py disagree on the model\'s own equations',
                     'count': mdiff}, no_input=True)
    if tooldiff:
        c.violation({'kind': 'harness', 'what': 'uscxml-transform -tvhdl and the in-process transformation emit different equations',
                     'chart': G.to_scxml(charts[tooldiff[0]]['tree'], 'null')}, no_input=True)
    # switches that are on but not listed
    for j, chv in enumerate(vec):
        if chv == '1' and not any(CLASS_OF_SWITCH[j] in k.split('+') for k in byclass):
            f = c.match_known({'class': CLASS_OF_SWITCH[j]})
            if f:
                c.known(f['id'], f['what'])
            else:
                w = [x for x in load_corpus()['charts'] if x.get('switch') == j][0]
                c.violation({'kind': 'defect-switch', 'switch': SWITCHES[j], 'class': CLASS_OF_SWITCH[j],
                             'chart': G.to_scxml(tree_from_json(w['tree']), 'null'), 'what': w.get('what', '')})
    if broken:
        if any_oracle:
            for b in broken:
                log('broken obligation %s (failing inputs reported above)' % b['name'])
        else:
            for b in broken:
                c.violation({'kind': 'obligation', 'theorem': b['name'], 'why': b.get('why', '')}, no_input=True)
    return c.finish()
