"""chartgen.py -- charts of the reference fragment: representation, rendering to the model's
s-expression and to SCXML for three datamodels, exhaustive small enumeration, seeded random charts.

A node is a dict: kind, sid, init (None | [sid]), trans [t], onentry [[instr]], onexit [[instr]],
data [(var, iexpr)], kids [node].  A transition: vid, ev (None|bytes), cond (None|bexpr),
targets (None|[sid]), internal (bool), body [instr].
iexpr: ('n', z) ('v', var) ('+', a, b) ('-', a, b) 'bad'
bexpr: 'true' 'false' ('in', sid) ('<', a, b) ('!', a) ('&', a, b) ('|', a, b) 'bad'
instr: ('raise', vid, ev) ('send', vid, ev) ('sendbt', vid, ev) ('sendbg', vid, ev) ('log', vid, iexpr)
       ('assign', vid, var, iexpr) ('if', vid, bexpr, [item]) ; item: ('elseif', bexpr) ('else',) instr
"""
import itertools, random


def hx(b):
    return b.hex() if b else '-'


# ------------------------------------------------------------------ s-expression for the model

def sx_i(e):
    if e == 'bad':
        return 'bad'
    if e[0] in ('n', 'v'):
        return '(%s %d)' % (e[0], e[1])
    return '(%s %s %s)' % (e[0], sx_i(e[1]), sx_i(e[2]))


def sx_b(e):
    if isinstance(e, str):
        return e
    if e[0] == 'in':
        return '(in %d)' % e[1]
    if e[0] == '<':
        return '(< %s %s)' % (sx_i(e[1]), sx_i(e[2]))
    if e[0] == '!':
        return '(! %s)' % sx_b(e[1])
    return '(%s %s %s)' % (e[0], sx_b(e[1]), sx_b(e[2]))


def sx_instr(i):
    k = i[0]
    if k in ('raise', 'send', 'sendbt', 'sendbg'):
        return '(%s %d %s)' % (k, i[1], hx(i[2]))
    if k == 'log':
        return '(log %d %s)' % (i[1], sx_i(i[2]))
    if k == 'assign':
        return '(assign %d %d %s)' % (i[1], i[2], sx_i(i[3]))
    if k == 'if':
        return '(if %d %s %s)' % (i[1], sx_b(i[2]), ' '.join(sx_item(x) for x in i[3]))
    raise ValueError(i)


def sx_item(x):
    if x[0] == 'elseif':
        return '(elseif %s)' % sx_b(x[1])
    if x[0] == 'else':
        return '(else)'
    return sx_instr(x)


def sx_block(b):
    return '(' + ' '.join(sx_instr(i) for i in b) + ')'


def sx_trans(t):
    return '(t %d %s %s %s %d %s)' % (
        t['vid'], hx(t['ev']) if t['ev'] is not None else '-',
        sx_b(t['cond']) if t['cond'] is not None else '-',
        '(' + ' '.join(str(x) for x in t['targets']) + ')' if t['targets'] is not None else '-',
        1 if t['internal'] else 0, sx_block(t['body']))


def sx_tree(n):
    return '(N %s %d %s (T %s) (EN %s) (EX %s) (D %s) (K %s))' % (
        n['kind'], n['sid'],
        '(' + ' '.join(str(x) for x in n['init']) + ')' if n.get('init') is not None else '-',
        ' '.join(sx_trans(t) for t in n.get('trans', [])),
        ' '.join(sx_block(b) for b in n.get('onentry', [])),
        ' '.join(sx_block(b) for b in n.get('onexit', [])),
        ' '.join('(%d %s)' % (v, sx_i(e)) for v, e in n.get('data', [])),
        ' '.join(sx_tree(k) for k in n.get('kids', [])))


# ------------------------------------------------------------------ SCXML rendering

# expressions that fail: a syntax error and, per datamodel, run-time faults (all must end as error.execution; which one
# is used rotates with the position of the faulty expression in the document, so a chart is rendered the same way each time)
BAD_I = {'lua': [')(', '(1 // 0)', '(nil + 1)', '(1 % 0)', 'error(&quot;x&quot;)', '({} .. 1)', 'error()', 'error({})'],
         'promela': [')(', '(1 / 0)', '(1 % 0)', '((0 - 2147483647 - 1) / (0 - 1))', '((0 - 2147483647 - 1) % (0 - 1))'],
         'null': [')(']}
BAD_B = {'lua': [')(', '(nil &lt; 1)', 'error(&quot;x&quot;)', '((1 // 0) &lt; 1)', 'error()', 'error({})'],
         'promela': [')(', '((1 / 0) &lt; 1)', '((1 % 0) &lt; 1)', '(((0 - 2147483647 - 1) % (0 - 1)) &lt; 1)'],
         'null': [')(']}
_bad_ctr = [0]


def _bad(tab, dm):
    l = tab.get(dm, [')('])
    _bad_ctr[0] += 1
    return l[(_bad_ctr[0] - 1) % len(l)]


def r_i(e, dm, syntax_only=False):
    if e == 'bad':
        # inside a condition only a syntax error fails for sure (a run-time fault may sit behind a short-circuit)
        return ')(' if syntax_only else _bad(BAD_I, dm)
    if e[0] == 'n':
        return str(e[1]) if e[1] >= 0 else '(0 - %d)' % (-e[1])
    if e[0] == 'v':
        return 'Var%d' % e[1]
    return '(%s %s %s)' % (r_i(e[1], dm, syntax_only), e[0], r_i(e[2], dm, syntax_only))


def r_b(e, dm):
    if e == 'bad':
        return ')('
    if e == 'true':
        return 'true'
    if e == 'false':
        return 'false'
    if e[0] == 'in':
        return ("config[s%d]" % e[1]) if dm == 'promela' else ("In('s%d')" % e[1])
    if e[0] == '<':
        return '(%s &lt; %s)' % (r_i(e[1], dm, True), r_i(e[2], dm, True))
    if e[0] == '!':
        return ('!(%s)' if dm == 'promela' else 'not (%s)') % r_b(e[1], dm)
    op = {'&': ('&amp;&amp;', 'and'), '|': ('||', 'or')}[e[0]][0 if dm == 'promela' else 1]
    return '(%s %s %s)' % (r_b(e[1], dm), op, r_b(e[2], dm))


def evs(b):
    return b.decode('latin-1')


def r_instr(i, dm):
    k = i[0]
    if k == 'raise':
        return '<raise event="%s" vid="%d"/>' % (evs(i[2]), i[1])
    if k == 'send':
        return '<send event="%s" vid="%d"/>' % (evs(i[2]), i[1])
    if k == 'sendbt':
        return '<send event="%s" type="nosuchtype" vid="%d"/>' % (evs(i[2]), i[1])
    if k == 'sendbg':
        return '<send event="%s" target="#_nosuch" vid="%d"/>' % (evs(i[2]), i[1])
    if k == 'log':
        return '<log expr="%s" vid="%d"/>' % (r_i(i[2], dm), i[1])
    if k == 'assign':
        return '<assign location="Var%d" expr="%s" vid="%d"/>' % (i[2], r_i(i[3], dm), i[1])
    if k == 'if':
        s = '<if cond="%s" vid="%d">' % (r_b(i[2], dm), i[1])
        for x in i[3]:
            if x[0] == 'elseif':
                s += '<elseif cond="%s"/>' % r_b(x[1], dm)
            elif x[0] == 'else':
                s += '<else/>'
            else:
                s += r_instr(x, dm)
        return s + '</if>'
    raise ValueError(i)


def r_trans(t, dm):
    a = ''
    if t['ev'] is not None:
        a += ' event="%s"' % evs(t['ev'])
    if t['cond'] is not None:
        a += ' cond="%s"' % r_b(t['cond'], dm)
    if t['targets'] is not None:
        a += ' target="%s"' % ' '.join('s%d' % x for x in t['targets'])
    if t['internal']:
        a += ' type="internal"'
    return '<transition%s vid="%d">%s</transition>' % (a, t['vid'], ''.join(r_instr(i, dm) for i in t['body']))


TAG = {'scxml': 'scxml', 'state': 'state', 'parallel': 'parallel', 'final': 'final', 'hs': 'history', 'hd': 'history', 'initial': 'initial'}


def r_node(n, dm, late, top=False):
    k = n['kind']
    attrs = ''
    if k == 'scxml':
        attrs = ' xmlns="http://www.w3.org/2005/07/scxml" version="1.0" datamodel="%s" name="m"' % dm
        if late:
            attrs += ' binding="late"'
    elif k != 'initial':
        attrs = ' id="s%d"' % n['sid']
    if k in ('hs', 'hd'):
        attrs += ' type="%s"' % ('deep' if k == 'hd' else 'shallow')
    if n.get('init') is not None:
        attrs += ' initial="%s"' % ' '.join('s%d' % x for x in n['init'])
    s = '<%s%s>' % (TAG[k], attrs)
    if n.get('data'):
        s += '<datamodel>' + ''.join(
            '<data id="Var%d"%s expr="%s"/>' % (v, ' type="int"' if dm == 'promela' else '', r_i(e, dm)) for v, e in n['data']) + '</datamodel>'
    for b in n.get('onentry', []):
        s += '<onentry>' + ''.join(r_instr(i, dm) for i in b) + '</onentry>'
    for b in n.get('onexit', []):
        s += '<onexit>' + ''.join(r_instr(i, dm) for i in b) + '</onexit>'
    for t in n.get('trans', []):
        s += r_trans(t, dm)
    for c in n.get('kids', []):
        s += r_node(c, dm, late)
    return s + '</%s>' % TAG[k]


def to_scxml(tree, dm, late=False):
    _bad_ctr[0] = 0
    return '<?xml version="1.0"?>' + r_node(tree, dm, late, True)


# ------------------------------------------------------------------ helpers

def walk(n):
    yield n
    for c in n.get('kids', []):
        yield from walk(c)


def all_vars(tree):
    vs = []
    for n in walk(tree):
        for v, e in n.get('data', []):
            if v not in vs:
                vs.append(v)
    return vs


def node(kind, sid, kids=(), trans=(), init=None, onentry=(), onexit=(), data=()):
    return {'kind': kind, 'sid': sid, 'init': init, 'trans': list(trans), 'onentry': [list(b) for b in onentry],
            'onexit': [list(b) for b in onexit], 'data': list(data), 'kids': list(kids)}


def trans(vid, ev=None, cond=None, targets=None, internal=False, body=()):
    return {'vid': vid, 'ev': ev, 'cond': cond, 'targets': targets, 'internal': internal, 'body': list(body)}


def uses_only_in(tree):
    """null-datamodel compatible: no data, conditions are In() atoms, no log/assign/if with non-In conds"""
    def okb(e):
        return e is None or (isinstance(e, tuple) and e[0] == 'in')

    def oki(i):
        if i[0] in ('log', 'assign'):
            return False
        if i[0] == 'if':
            return okb(i[2]) and all((x[0] == 'else') or (x[0] == 'elseif' and okb(x[1])) or (x[0] not in ('else', 'elseif') and oki(x)) for x in i[3])
        return True
    for n in walk(tree):
        if n.get('data'):
            return False
        for b in n.get('onentry', []) + n.get('onexit', []):
            if not all(oki(i) for i in b):
                return False
        for t in n.get('trans', []):
            if not okb(t['cond']) or not all(oki(i) for i in t['body']):
                return False
    return True


# ------------------------------------------------------------------ structural shapes

def shapes(nprop, allow_pseudo=True):
    """all state trees with exactly nprop proper states below <scxml>, as nested tuples (kind, [kids]);
    kinds: state, parallel, final (leaf), + optional history/initial children of compound states"""
    def forests(k):
        # forests of total size k (ordered)
        if k == 0:
            yield []
            return
        for first in range(1, k + 1):
            for t in trees(first):
                for rest in forests(k - first):
                    yield [t] + rest

    def trees(k):
        if k == 1:
            yield ('state', [])
            yield ('final', [])
            return
        for f in forests(k - 1):
            yield ('state', f)
            if len(f) >= 1 and all(x[0] != 'final' for x in f):
                yield ('parallel', f)
    for f in forests(nprop):
        yield ('scxml', f)


def build(shape, rng=None, pseudo_prob=0.0):
    """assign sids in pre-order; optionally add history / initial pseudo-states to compound states"""
    counter = [0]

    def mk(s, top):
        kind, kids = s
        sid = counter[0]
        counter[0] += 1
        n = node(kind, sid)
        n['kids'] = [mk(k, False) for k in kids]
        return n
    return mk(shape, True)


def proper_states(tree):
    return [n for n in walk(tree) if n['kind'] in ('state', 'parallel', 'final')]


def add_pseudo(tree, rng, vidc):
    """randomly decorate compound states with <history> (with default transition) and <initial>"""
    maxsid = max(n['sid'] for n in walk(tree))
    for n in list(walk(tree)):
        if n['kind'] == 'parallel' and n['kids'] and rng.random() < 0.15:
            # a history directly below a <parallel>: its completion are the regions (shallow) / everything below (deep)
            props = [k for k in n['kids'] if k['kind'] in ('state', 'parallel')]
            if props:
                deep = rng.random() < 0.5
                maxsid += 1
                cands = [d for k in props for d in walk(k) if d['kind'] in ('state', 'parallel', 'final')] if deep else props
                tgt = rng.choice(cands)
                body = [('raise', vidc(), rng.choice(EVENTS))] if rng.random() < 0.3 else []
                n['kids'].insert(rng.randint(0, len(n['kids'])), node('hd' if deep else 'hs', maxsid, trans=[trans(vidc(), targets=[tgt['sid']], body=body)]))
        if n['kind'] in ('state', 'scxml') and any(k['kind'] in ('state', 'parallel', 'final') for k in n['kids']):
            props = [k for k in n['kids'] if k['kind'] in ('state', 'parallel', 'final')]
            if n['kind'] == 'state' and rng.random() < 0.35:
                deep = rng.random() < 0.5
                maxsid += 1
                if deep:
                    cands = [d for k in props for d in walk(k) if d['kind'] in ('state', 'parallel', 'final')]
                else:
                    cands = props
                tgt = rng.choice(cands)
                # the default transition may carry executable content (executed after the onentry of the history's parent)
                body = [('raise', vidc(), rng.choice(EVENTS))] if rng.random() < 0.4 else []
                h = node('hd' if deep else 'hs', maxsid, trans=[trans(vidc(), targets=[tgt['sid']], body=body)])
                n['kids'].insert(rng.randint(0, len(n['kids'])), h)
            r = rng.random()
            if n['kind'] == 'state' and r < 0.25:
                maxsid += 1
                tgt = rng.choice([d for k in props for d in walk(k) if d['kind'] in ('state', 'parallel', 'final')])
                body = [('raise', vidc(), rng.choice(EVENTS))] if rng.random() < 0.4 else []
                ini = node('initial', maxsid, trans=[trans(vidc(), targets=[tgt['sid']], body=body)])
                n['kids'].insert(rng.randint(0, len(n['kids'])), ini)
            elif r < 0.45:
                # initial attribute: a child, or a deeper descendant
                tgt = rng.choice([d for k in props for d in walk(k) if d['kind'] in ('state', 'parallel', 'final')])
                n['init'] = [tgt['sid']]
    return tree


EVENTS = [b'e', b'f', b'e.x']
DESCS = [b'e', b'f', b'e f', b'*', b'e.x', b'e.*']


def rand_iexpr(rng, vars_, depth=0, bad=0.0):
    r = rng.random()
    if r < bad:
        return 'bad'
    if depth >= 2 or r < 0.45:
        if vars_ and rng.random() < 0.5:
            return ('v', rng.choice(vars_))
        return ('n', rng.randint(0, 3))
    # at most one operand of a binary operator mentions variables: values then grow linearly with the
    # number of steps and stay far from the 32/53-bit limits of the real datamodels
    a = rand_iexpr(rng, vars_, depth + 1, bad)
    b = rand_iexpr(rng, [], depth + 1, bad)
    if rng.random() < 0.5:
        a, b = b, a
    return (rng.choice(['+', '-']), a, b)


def rand_bexpr(rng, vars_, sids, depth=0, bad=0.0, only_in=False):
    if only_in:
        return ('in', rng.choice(sids))
    r = rng.random()
    if r < bad:
        return 'bad'
    if depth >= 2 or r < 0.6:
        k = rng.random()
        if k < 0.35:
            return ('in', rng.choice(sids))
        if k < 0.75 and vars_:
            return ('<', rand_iexpr(rng, vars_, 1, bad), rand_iexpr(rng, vars_, 1, bad))
        return rng.choice(['true', 'false'])
    k = rng.random()
    if k < 0.3:
        return ('!', rand_bexpr(rng, vars_, sids, depth + 1, bad))
    return (rng.choice(['&', '|']), rand_bexpr(rng, vars_, sids, depth + 1, bad), rand_bexpr(rng, vars_, sids, depth + 1, bad))


def rand_block(rng, vars_, sids, vidc, depth=0, faults=0.0, only_in=False, maxlen=3):
    b = []
    for _ in range(rng.randint(1, maxlen)):
        r = rng.random()
        if r < faults:
            b.append(rng.choice([('sendbt', vidc(), b'q'), ('sendbg', vidc(), b'q')] +
                                ([] if only_in else [('log', vidc(), 'bad'), ('assign', vidc(), (vars_ or [9])[0], 'bad')])))
        elif r < 0.35:
            b.append(('raise', vidc(), rng.choice(EVENTS)))
        elif r < 0.45:
            b.append(('send', vidc(), rng.choice(EVENTS)))
        elif r < 0.6 and vars_ and not only_in:
            b.append(('log', vidc(), rand_iexpr(rng, vars_)))
        elif r < 0.8 and vars_ and not only_in:
            b.append(('assign', vidc(), rng.choice(vars_), rand_iexpr(rng, vars_)))
        elif depth < 2:
            items = []
            items += rand_block(rng, vars_, sids, vidc, depth + 1, faults, only_in, 2)
            if rng.random() < 0.4:
                items.append(('elseif', rand_bexpr(rng, vars_, sids, 1, faults * 0.5, only_in)))
                items += rand_block(rng, vars_, sids, vidc, depth + 1, faults, only_in, 2)
            if rng.random() < 0.5:
                items.append(('else',))
                items += rand_block(rng, vars_, sids, vidc, depth + 1, faults, only_in, 2)
            b.append(('if', vidc(), rand_bexpr(rng, vars_, sids, 1, faults * 0.5, only_in), items))
        else:
            b.append(('raise', vidc(), rng.choice(EVENTS)))
    return b


def rand_chart(rng, nprop=None, content=0.5, faults=0.0, only_in=False, pseudo=True, nvars=2):
    nprop = nprop or rng.randint(2, 8)
    # random shape
    def rshape(k, in_parallel=False):
        # returns forest of total size k; <final> is no child of <parallel> (schema)
        f = []
        while k > 0:
            sz = rng.randint(1, k)
            if sz == 1:
                f.append((rng.choice(['state'] if in_parallel else ['state', 'state', 'state', 'final']), []))
            else:
                kind = rng.choice(['state', 'state', 'parallel'])
                f.append((kind, rshape(sz - 1, kind == 'parallel')))
            k -= sz
        return f
    tree = build(('scxml', rshape(nprop)))
    vid = [100]

    def vidc():
        vid[0] += 1
        return vid[0]
    if pseudo:
        add_pseudo(tree, rng, vidc)
    sids = [n['sid'] for n in proper_states(tree)]
    vars_ = [] if only_in else list(range(1, nvars + 1))
    if vars_:
        tree['data'] = [(v, ('n', rng.randint(0, 2))) for v in vars_]
    props = proper_states(tree)
    pars = [n for n in props if n['kind'] == 'parallel']
    ntr = rng.randint(1, max(2, nprop + 2))
    for _ in range(ntr):
        src = rng.choice(props)
        if src['kind'] == 'final':
            continue
        r = rng.random()
        if r < 0.15:
            targets = None
        elif r < 0.9 or not pars:
            targets = [rng.choice(sids)]
        else:
            # a legal multi-target: states in two different regions of one <parallel>
            p = rng.choice(pars)
            regs = [k for k in p['kids'] if k['kind'] in ('state', 'parallel')]
            if len(regs) >= 2:
                r1, r2 = rng.sample(regs, 2)
                pick = lambda r: rng.choice([d['sid'] for d in walk(r) if d['kind'] in ('state', 'parallel', 'final')])
                targets = [pick(r1), pick(r2)]
            else:
                targets = [rng.choice(sids)]
        ev = None if rng.random() < 0.2 else rng.choice(DESCS)
        cond = None if rng.random() < 0.6 else rand_bexpr(rng, vars_, sids, 0, faults * 0.5, only_in)
        body = rand_block(rng, vars_, sids, vidc, 0, faults, only_in) if rng.random() < content else []
        src['trans'].append(trans(vidc(), ev, cond, targets, rng.random() < 0.2 and targets is not None, body))
    for n in props:
        if rng.random() < content * 0.5:
            n['onentry'] = [rand_block(rng, vars_, sids, vidc, 0, faults, only_in)]
        if rng.random() < content * 0.4 and n['kind'] != 'final':
            n['onexit'] = [rand_block(rng, vars_, sids, vidc, 0, faults, only_in)]
    return tree


def rand_events(rng, n=None):
    return [rng.choice(EVENTS) for _ in range(n if n is not None else rng.randint(0, 5))]


# ------------------------------------------------------------------ data declared below the root (early vs late binding)
def _ren_i(e, old, new):
    if e == 'bad' or e[0] == 'n':
        return e
    if e[0] == 'v':
        return ('v', new) if e[1] == old else e
    return (e[0], _ren_i(e[1], old, new), _ren_i(e[2], old, new))


def _ren_b(e, old, new):
    if isinstance(e, str) or e[0] == 'in':
        return e
    if e[0] == '<':
        return ('<', _ren_i(e[1], old, new), _ren_i(e[2], old, new))
    if e[0] == '!':
        return ('!', _ren_b(e[1], old, new))
    return (e[0], _ren_b(e[1], old, new), _ren_b(e[2], old, new))


def _ren_item(x, old, new):
    k = x[0]
    if k == 'elseif':
        return ('elseif', _ren_b(x[1], old, new))
    if k == 'log':
        return ('log', x[1], _ren_i(x[2], old, new))
    if k == 'assign':
        return ('assign', x[1], new if x[2] == old else x[2], _ren_i(x[3], old, new))
    if k == 'if':
        return ('if', x[1], _ren_b(x[2], old, new), [_ren_item(y, old, new) for y in x[3]])
    return x


def nest_data(tree, rng):
    """moves the uses of one variable inside the sub-tree of a non-root state h to a NEW variable declared in h, whose
    initial value is computed from the root's variable: with early binding it is evaluated when the document is loaded,
    with late binding when h is entered for the first time -- the two bindings become observably different.
    The new variable is only used inside h's sub-tree, i.e. after it has been initialised under either binding."""
    vs = all_vars(tree)
    homes = [n for n in walk(tree) if n is not tree and n['kind'] in ('state', 'parallel')]
    if not vs or not homes:
        return False
    v = rng.choice(vs)
    h = rng.choice(homes)
    new = max(vs) + 1
    for n in walk(h):
        n['onentry'] = [[_ren_item(i, v, new) for i in b] for b in n.get('onentry', [])]
        n['onexit'] = [[_ren_item(i, v, new) for i in b] for b in n.get('onexit', [])]
        for t in n.get('trans', []):
            if t['cond'] is not None:
                t['cond'] = _ren_b(t['cond'], v, new)
            t['body'] = [_ren_item(i, v, new) for i in t['body']]
    h['data'] = list(h.get('data', [])) + [(new, ('+', ('v', v), ('n', 1)))]
    return True
