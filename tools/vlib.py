"""vlib.py -- shared machinery of the checks: build /repo's working tree with hooks on, regenerate
the translated model parts, build and check the Coq development, extract and build the model
driver, run both drivers, classify and report."""
import fcntl, hashlib, json, os, random, re, subprocess, sys, time, glob, shutil

ROOT = os.path.dirname(os.path.dirname(os.path.abspath(__file__)))
REPO = os.environ.get('VERIF_REPO', '/repo')
# checks of /repo use .build/; a scratch worktree (VERIF_REPO=/tmp/wt) gets its own build tree
BUILD = os.path.join(ROOT, '.build') if REPO == '/repo' else os.path.join(ROOT, '.build', 'alt-' + hashlib.sha1(REPO.encode()).hexdigest()[:8])
HOOKS = os.path.join(BUILD, 'hooks')
COQ_SRC = os.path.join(ROOT, 'coq')
COQ = COQ_SRC
ALT = REPO != '/repo'
if ALT:
    # private copy of the Coq development (its gen/*.v are regenerated from the scratch worktree)
    COQ = os.path.join(BUILD, 'coq')
    os.makedirs(COQ, exist_ok=True)
    subprocess.run(['rsync', '-a', '--delete', '--exclude', 'gen/*.v', '--exclude', 'Makefile*', '--exclude', '.Makefile.d',
                    '--exclude', '_CoqProject', COQ_SRC + '/', COQ + '/'], check=True)
EXTRACT = os.path.join(ROOT, 'extract')
HARNESS = os.path.join(ROOT, 'harness')
GENINC = os.path.join(BUILD, 'geninc')
EVID = os.path.join(ROOT, 'evidence') if REPO == '/repo' else os.path.join(BUILD, 'evidence')
REPLAY = os.path.join(EVID, 'replay')
NCPU = 16

ALLOWED_AXIOMS = {
    # standard-library axioms that may appear (DESIGN.md section 9); none is expected
    'functional_extensionality_dep', 'proof_irrelevance', 'JMeq_eq', 'eq_rect_eq',
    'Eqdep.Eq_rect_eq.eq_rect_eq', 'classic',
}

KERNEL_TB = [
    'Coq 8.16.1 kernel via coqc (full .vo build, vm_compute used for finite sweeps and witnesses, no native_compute)',
    'extraction with ExtrOcamlBasic only (no Extract Constant), OCaml 4.13.1, extract/driver.ml',
    'harness/vdriver*.cpp, the generators and canonicalisers in tools/, g++/cmake/ninja',
]


class BuildError(Exception):
    pass


def log(*a):
    print(*a, file=sys.stderr, flush=True)


def sh(cmd, cwd=None, timeout=None, env=None, check=False, input=None):
    p = subprocess.run(cmd, cwd=cwd, shell=isinstance(cmd, str), stdout=subprocess.PIPE,
                       stderr=subprocess.STDOUT, timeout=timeout, env=env, input=input)
    out = p.stdout.decode('utf-8', 'replace') if isinstance(p.stdout, bytes) else p.stdout
    if check and p.returncode != 0:
        raise BuildError('command failed (%s): %s\n%s' % (p.returncode, cmd, out[-4000:]))
    return p.returncode, out


class Lock:
    def __init__(self, name):
        os.makedirs(BUILD, exist_ok=True)
        self.path = os.path.join(BUILD, name + '.lock')

    def __enter__(self):
        self.f = open(self.path, 'w')
        fcntl.flock(self.f, fcntl.LOCK_EX)
        return self

    def __exit__(self, *a):
        fcntl.flock(self.f, fcntl.LOCK_UN)
        self.f.close()


def write_if_changed(path, content):
    os.makedirs(os.path.dirname(path), exist_ok=True)
    try:
        if open(path).read() == content:
            return False
    except FileNotFoundError:
        pass
    with open(path, 'w') as f:
        f.write(content)
    # make sure the file is newer than anything compiled from an earlier version within the same clock tick
    t = time.time() + 1.0
    os.utime(path, (t, t))
    return True


# ------------------------------------------------------------------ implementation build

CMAKE_ARGS = ['-DCMAKE_BUILD_TYPE=RelWithDebInfo', '-DBUILD_TESTS=OFF', '-DBUILD_TESTING=OFF',
              '-DBUILD_DOCS=OFF', '-DBUILD_BINDING_CSHARP=OFF', '-DBUILD_BINDING_JAVA=OFF',
              '-DBUILD_BINDING_LUA=OFF', '-DBUILD_BINDING_PYTHON=OFF']

FLAVORS = {
    'hooks': {'cxx': '-Wno-error -DUSCXML_VERIF', 'c': '-DUSCXML_VERIF'},
    'asan': {'cxx': '-Wno-error -DUSCXML_VERIF -fsanitize=address,undefined -fno-sanitize-recover=undefined -fno-omit-frame-pointer',
             'c': '-DUSCXML_VERIF -fsanitize=address,undefined -fno-omit-frame-pointer'},
    'tsan': {'cxx': '-Wno-error -DUSCXML_VERIF -fsanitize=thread', 'c': '-DUSCXML_VERIF -fsanitize=thread'},
}


def ensure_impl(flavor='hooks', targets=('uscxml', 'uscxml_transform', 'uscxml-transform')):
    """cmake+ninja build of /repo's current working tree into .build/<flavor> (incremental)."""
    d = os.path.join(BUILD, flavor)
    with Lock('impl-' + flavor):
        os.makedirs(d, exist_ok=True)
        if not os.path.exists(os.path.join(d, 'build.ninja')):
            fl = FLAVORS[flavor]
            rc, out = sh(['cmake', '-G', 'Ninja', '-S', REPO, '-B', d,
                          '-DCMAKE_CXX_FLAGS=' + fl['cxx'], '-DCMAKE_C_FLAGS=' + fl['c']] + CMAKE_ARGS,
                         timeout=600)
            if rc != 0:
                raise BuildError('cmake configure failed:\n' + out[-3000:])
        hashes = _source_hashes()
        _touch_changed(d, hashes)
        rc, out = sh(['ninja', '-C', d] + list(targets), timeout=3000)
        if rc != 0:
            raise BuildError('the working tree of %s does not build (%s):\n%s' % (REPO, flavor, out[-6000:]))
        with open(os.path.join(d, '.srchash.json'), 'w') as f:
            json.dump(hashes, f)
    return d


def _source_hashes():
    """content hashes of the sources the build reads (ninja goes by mtime only; an edit within the
    clock tick of a running compile would otherwise leave a stale object behind)"""
    import hashlib
    res = {}
    for top in ('src', 'contrib/src', 'contrib/cmake', 'CMakeLists.txt', 'config.h.in'):
        p = os.path.join(REPO, top)
        files = [p] if os.path.isfile(p) else [os.path.join(r, f) for r, _, fs in os.walk(p) for f in fs]
        for f in files:
            try:
                with open(f, 'rb') as fh:
                    res[os.path.relpath(f, REPO)] = hashlib.sha1(fh.read()).hexdigest()
            except OSError:
                pass
    return res


def _touch_changed(d, hashes):
    try:
        with open(os.path.join(d, '.srchash.json')) as f:
            old = json.load(f)
    except (OSError, ValueError):
        return
    now = time.time()
    for rel, h in hashes.items():
        if old.get(rel) != h:
            try:
                os.utime(os.path.join(REPO, rel), (now, now))
            except OSError:
                pass


def impl_compile_flags(flavor='hooks'):
    d = os.path.join(BUILD, flavor)
    inc = ['-I' + REPO + '/src', '-I' + REPO + '/contrib/src', '-I' + d, '-I' + REPO + '/contrib/src/jsmn',
           '-I' + REPO + '/contrib/src/evws', '-I' + REPO + '/contrib/src/uriparser/include',
           '-I/usr/include/lua5.3', '-I' + REPO + '/contrib/src/LuaBridge', '-I' + GENINC, '-I' + HARNESS]
    defs = ['-DUSCXML_EXPORT', '-DXERCESC_NS=xercesc_3_2', '-DUSCXML_VERIF', '-DNDEBUG', '-std=c++11', '-Wno-deprecated-declarations']
    san = []
    if flavor == 'asan':
        san = ['-fsanitize=address,undefined', '-fno-sanitize-recover=undefined', '-fno-omit-frame-pointer']
    if flavor == 'tsan':
        san = ['-fsanitize=thread']
    libs = ['-Wl,-rpath,' + d + '/lib', '-L' + d + '/lib', '-luscxml_transform', '-luscxml', '-llua5.3', '-lm', '-lcurl',
            '-lxerces-c', '-levent', '-levent_pthreads', '-levent_core', '-lpthread']
    return inc, defs + san, libs


def ensure_vdriver(flavor='hooks', units=None):
    """(re)build harness/vdriver against .build/<flavor>; one object per vd*.cpp.  `units` names the
    translation units (basenames without .cpp) this check needs; other units that fail to compile are
    left out (so one property's driver code cannot break another property's check)."""
    required = set(units or []) | {'vdriver'}
    d = ensure_impl(flavor)
    run_cpp_translators()
    inc, defs, libs = impl_compile_flags(flavor)
    odir = os.path.join(BUILD, 'vdriver-' + flavor)
    os.makedirs(odir, exist_ok=True)
    exe = os.path.join(odir, 'vdriver')
    with Lock('vdriver-' + flavor):
        srcs = sorted(glob.glob(os.path.join(HARNESS, 'vd*.cpp')))
        libm = max(os.path.getmtime(os.path.join(d, 'lib', l)) for l in ('libuscxml.so', 'libuscxml_transform.so'))
        hdrm = max([os.path.getmtime(p) for p in glob.glob(os.path.join(HARNESS, '*.h')) +
                    glob.glob(os.path.join(GENINC, '*'))] + [0])
        jobs = []
        objs = []
        for s in srcs:
            o = os.path.join(odir, os.path.basename(s)[:-4] + '.o')
            objs.append(o)
            if (not os.path.exists(o)) or os.path.getmtime(o) < max(os.path.getmtime(s), libm, hdrm):
                jobs.append((s, o))
        procs = []
        for s, o in jobs:
            cmd = ['g++', '-O1', '-g0', '-c', s, '-o', o] + inc + defs
            procs.append((s, subprocess.Popen(cmd, stdout=subprocess.PIPE, stderr=subprocess.STDOUT)))
        skipped = []
        for s, p in procs:
            out, _ = p.communicate()
            if p.returncode != 0:
                unit = os.path.basename(s)[:-4]
                if unit in required or units is None and False:
                    raise BuildError('vdriver does not compile against the working tree (%s):\n%s' % (s, out.decode()[-6000:]))
                log('vdriver: unit %s does not compile, left out' % unit)
                skipped.append(os.path.join(odir, unit + '.o'))
        for o in list(objs):
            if o in skipped or not os.path.exists(o):
                if os.path.basename(o)[:-2] in required:
                    raise BuildError('vdriver unit %s missing' % o)
                objs.remove(o)
                if os.path.exists(o):
                    os.remove(o)
        stamp = os.path.join(odir, 'units.txt')
        ulist = ' '.join(sorted(objs))
        relink = (not os.path.exists(stamp)) or open(stamp).read() != ulist
        if jobs or relink or not os.path.exists(exe):
            open(stamp, 'w').write(ulist)
            _, defs2, _ = impl_compile_flags(flavor)
            san = [x for x in defs2 if x.startswith('-fsanitize')]
            rc, out = sh(['g++', '-o', exe] + objs + san + libs, timeout=600)
            if rc != 0:
                raise BuildError('vdriver does not link:\n' + out[-4000:])
    return exe


# ------------------------------------------------------------------ translators

def run_cpp_translators():
    """textual extractions that feed the C++ harness"""
    os.makedirs(GENINC, exist_ok=True)
    sys.path.insert(0, os.path.join(ROOT, 'tools', 'translate'))
    import gen_c_namematch
    write_if_changed(os.path.join(GENINC, 'gen_c_namematch.inc'), gen_c_namematch.extract(REPO))


def run_coq_translators():
    """regenerate coq/gen/*.v from /repo's current source; returns dict name -> info"""
    sys.path.insert(0, os.path.join(ROOT, 'tools', 'translate'))
    info = {}
    with Lock('translate'):
        return _run_coq_translators_locked(info)


def _run_coq_translators_locked(info):
    for mod in sorted(glob.glob(os.path.join(ROOT, 'tools', 'translate', 'tr_*.py'))):
        name = os.path.basename(mod)[:-3]
        m = __import__(name)
        try:
            text, meta = m.translate(REPO)
            info[name] = meta
        except Exception as e:  # translator cannot read the source any more
            text, meta = m.fallback(str(e))
            info[name] = {'error': str(e)}
        write_if_changed(os.path.join(COQ, 'gen', m.OUTPUT), text)
    return info


# ------------------------------------------------------------------ Coq

def gen_coqproject():
    fs = []
    for d in ('theories', 'gen', 'props'):
        fs += sorted('%s/%s' % (d, os.path.basename(p)) for p in glob.glob(os.path.join(COQ, d, '*.v'))
                     if not os.path.basename(p).startswith('Dbg_'))
    write_if_changed(os.path.join(COQ, '_CoqProject'), '-R . V\n' + '\n'.join(fs) + '\n')
    return fs


def coq_files():
    return gen_coqproject()


def hygiene_scan():
    """no Admitted/admit/Axiom/... anywhere in the development"""
    bad = []
    pat = re.compile(r'\b(Admitted|admit|Axiom|Axioms|Parameter|Parameters|Conjecture|Admit Obligations|bypass_check|native_compute)\b|Unset Guard|Unset Positivity|Unset Universe|type-in-type|impredicative-set')
    for f in coq_files() + [os.path.relpath(p, COQ) for p in glob.glob(os.path.join(EXTRACT, '*', 'Extract.v'))]:
        p = os.path.join(COQ, f)
        txt = open(p).read()
        txt = re.sub(r'\(\*.*?\*\)', '', txt, flags=re.S)
        for i, line in enumerate(txt.split('\n')):
            if pat.search(line):
                bad.append('%s:%d: %s' % (f, i + 1, line.strip()))
    # top-level Variable/Hypothesis outside a section
    for f in coq_files():
        depth = 0
        txt = re.sub(r'\(\*.*?\*\)', '', open(os.path.join(COQ, f)).read(), flags=re.S)
        for i, line in enumerate(txt.split('\n')):
            s = line.strip()
            if re.match(r'Section\s+\w+', s):
                depth += 1
            elif re.match(r'End\s+\w+', s) and depth > 0:
                depth -= 1
            elif depth == 0 and re.match(r'(Variable|Variables|Hypothesis|Hypotheses|Context)\b', s):
                bad.append('%s:%d: %s' % (f, i + 1, s))
    return bad


def ensure_coq(clean=False):
    """full .vo build with make -k; returns (set of built .vo basenames, log)"""
    with Lock('coq'):
        mk = os.path.join(COQ, 'Makefile')
        cp = os.path.join(COQ, '_CoqProject')
        gen_coqproject()
        if clean:
            sh('make clean >/dev/null 2>&1; rm -f Makefile Makefile.conf .Makefile.d', cwd=COQ)
        if (not os.path.exists(mk)) or os.path.getmtime(mk) < os.path.getmtime(cp):
            sh(['coq_makefile', '-f', '_CoqProject', '-o', 'Makefile'], cwd=COQ, check=True)
        rc, out = sh('timeout 3000 make -k -j%d 2>&1' % NCPU, cwd=COQ)
        built = set()
        for f in coq_files():
            vo = os.path.join(COQ, f[:-2] + '.vo')
            if os.path.exists(vo) and os.path.getmtime(vo) >= os.path.getmtime(os.path.join(COQ, f)):
                built.add(f)
        return built, out


def check_theorems(prop):
    """compile props/Properties_<prop>.v on its own, capture Print Assumptions.
    Returns list of dicts {name, ok, assumptions, why}."""
    f = 'props/Properties_%s.v' % prop
    src = open(os.path.join(COQ, f)).read()
    src_nc = re.sub(r'\(\*.*?\*\)', '', src, flags=re.S)
    thms = re.findall(r'^\s*Theorem\s+(\w+)', src_nc, flags=re.M)
    pas = re.findall(r'Print Assumptions\s+(\w+)\s*\.', src_nc)
    res = []
    with Lock('coq'):
        rc, out = sh('timeout 1200 coqc -R . V %s 2>&1' % f, cwd=COQ)
    if rc != 0:
        # find failing position
        m = re.search(r'line (\d+), characters', out)
        failing = None
        if m:
            ln = int(m.group(1))
            upto = '\n'.join(src.split('\n')[:ln])
            names = re.findall(r'^\s*Theorem\s+(\w+)', upto, flags=re.M)
            failing = names[-1] if names else None
        for t in thms:
            res.append({'name': t, 'ok': False, 'assumptions': None,
                        'why': ('does not check: ' + out.strip()[-600:]) if (failing is None or t == failing)
                        else 'file does not compile (first failure at %s)' % failing})
        return res, out
    # split the output into one block per Print Assumptions
    blocks = re.split(r'(?=^Closed under the global context|^Axioms:)', out, flags=re.M)
    blocks = [b for b in blocks if b.startswith('Closed') or b.startswith('Axioms:')]
    amap = {}
    for name, b in zip(pas, blocks):
        if b.startswith('Closed'):
            amap[name] = []
        else:
            ax = re.findall(r'^(\S+)\s*:', b[len('Axioms:'):], flags=re.M)
            amap[name] = ax
    for t in thms:
        if t not in amap:
            res.append({'name': t, 'ok': False, 'assumptions': None, 'why': 'no Print Assumptions beneath it'})
            continue
        badax = [a for a in amap[t] if a.split('.')[-1] not in ALLOWED_AXIOMS and a not in ALLOWED_AXIOMS]
        res.append({'name': t, 'ok': not badax, 'assumptions': amap[t],
                    'why': ('depends on non-allowed axioms: ' + ', '.join(badax)) if badax else ''})
    return res, out


def ensure_vmodel(name):
    """extract/<name>/Extract.v + driver.ml (with extract/common.ml spliced in at (*COMMON*)) -> .build/vmodel/<name>/vmodel"""
    src = os.path.join(EXTRACT, name)
    out = os.path.join(BUILD, 'vmodel', name)
    with Lock('coq'):
        os.makedirs(out, exist_ok=True)
        exe = os.path.join(out, 'vmodel')
        deps = [os.path.join(src, 'Extract.v'), os.path.join(src, 'driver.ml'), os.path.join(EXTRACT, 'common.ml')] + \
               glob.glob(os.path.join(COQ, 'theories', '*.vo')) + glob.glob(os.path.join(COQ, 'gen', '*.vo'))
        newest = max(os.path.getmtime(p) for p in deps)
        if os.path.exists(exe) and os.path.getmtime(exe) >= newest:
            return exe
        shutil.copy(os.path.join(src, 'Extract.v'), os.path.join(out, 'Extract.v'))
        rc, o = sh('timeout 900 coqc -R %s V Extract.v 2>&1' % COQ, cwd=out)
        if rc != 0:
            raise BuildError('extraction failed (%s):\n%s' % (name, o[-3000:]))
        drv = open(os.path.join(src, 'driver.ml')).read().replace('(*COMMON*)', open(os.path.join(EXTRACT, 'common.ml')).read())
        open(os.path.join(out, 'driver.ml'), 'w').write(drv)
        rc, o = sh('ocamlfind ocamlopt -w -a -package str -linkpkg vmodel.mli vmodel.ml driver.ml -o vmodel 2>&1', cwd=out)
        if rc != 0:
            raise BuildError('vmodel does not build (%s):\n%s' % (name, o[-3000:]))
        return exe


# ------------------------------------------------------------------ running drivers

def _answers(text):
    """vdriver marks its answer lines with '@@' (the library logs to stdout too); the extracted
    models print answers only"""
    ls = text.split('\n')
    if ls and ls[-1] == '':
        ls.pop()
    if any(l.startswith('@@') for l in ls):
        return [l[2:] for l in ls if l.startswith('@@')]
    return ls


def run_lines(exe, lines, timeout=3000, env=None):
    """feed lines to a driver, return list of output lines (same length) or raise"""
    data = ('\n'.join(lines) + '\n').encode()
    p = subprocess.run([exe], input=data, stdout=subprocess.PIPE, stderr=subprocess.PIPE, timeout=timeout, env=env)
    out = _answers(p.stdout.decode('utf-8', 'replace'))
    return p.returncode, out, p.stderr.decode('utf-8', 'replace')


def run_lines_sharded(exe, lines, shards=NCPU, timeout=3000, env=None):
    """run in parallel shards, preserving order. Returns (list of outputs, crashes) where a crash is
    (index of first line without an answer in that shard, returncode, stderr tail)"""
    if len(lines) < 64:
        shards = 1
    n = len(lines)
    size = (n + shards - 1) // shards if n else 1
    chunks = [lines[i:i + size] for i in range(0, n, size)]
    procs = []
    for ch in chunks:
        p = subprocess.Popen([exe], stdin=subprocess.PIPE, stdout=subprocess.PIPE, stderr=subprocess.PIPE, env=env)
        procs.append(p)
    import threading
    results = [None] * len(chunks)

    def work(i):
        try:
            o, e = procs[i].communicate(('\n'.join(chunks[i]) + '\n').encode(), timeout=timeout)
            results[i] = (procs[i].returncode, o.decode('utf-8', 'replace'), e.decode('utf-8', 'replace'))
        except subprocess.TimeoutExpired:
            procs[i].kill()
            o, e = procs[i].communicate()
            results[i] = (-999, o.decode('utf-8', 'replace'), 'TIMEOUT')
    ths = [threading.Thread(target=work, args=(i,)) for i in range(len(chunks))]
    [t.start() for t in ths]
    [t.join() for t in ths]
    outs = []
    crashes = []
    base = 0
    for i, ch in enumerate(chunks):
        rc, o, e = results[i]
        ol = _answers(o)
        if len(ol) < len(ch) or rc != 0:
            crashes.append((base + len(ol), rc, e[-2000:]))
            ol = ol + ['CRASH rc=%s' % rc] * (len(ch) - len(ol))
        outs.extend(ol[:len(ch)])
        base += len(ch)
    return outs, crashes


def hexs(b):
    if isinstance(b, str):
        b = b.encode('latin-1')
    return b.hex() if b else '-'


# ------------------------------------------------------------------ known findings, reporting

def known_findings():
    p = os.path.join(ROOT, 'known_findings.json')
    try:
        return json.load(open(p))
    except FileNotFoundError:
        return {'findings': [], 'fixed': []}


class Check:
    """one run of one property's check"""

    def __init__(self, prop, tier, seed):
        self.prop = prop
        self.tier = tier
        self.seed = seed
        self.t0 = time.time()
        self.rng = random.Random(seed)
        self.violations = []      # list of (replay path, no_input: bool)
        self.known_seen = {}      # finding id -> count
        self.cov = {'evaluations': 0, 'distinct_nontrivial': 0, 'rule': '', 'samples': [],
                    'obligations': 0, 'discharged': 0, 'checker_cmd': '', 'trusted_base': list(KERNEL_TB)}
        self.assumptions = []
        self.notes = {}
        self.kf = [f for f in known_findings().get('findings', []) if f.get('property') == prop]

    # -- proof obligations
    def prove(self):
        """regenerate translated parts, build the development, check the property's theorems.
        Returns list of broken obligations (dicts)."""
        ensure_impl('hooks')      # translators that probe the compiled code must see the current working tree
        tinfo = run_coq_translators()
        self.notes['translators'] = tinfo
        bad = hygiene_scan()
        built, mlog = ensure_coq(clean=(self.tier == 'thorough' and os.environ.get('VERIF_NO_CLEAN') is None))
        thms, out = check_theorems(self.prop)
        self.cov['obligations'] = len(thms) + 1
        self.cov['discharged'] = sum(1 for t in thms if t['ok']) + (0 if bad else 1)
        self.cov['checker_cmd'] = 'make -C /verif/coq -k -j16 && coqc -R . V props/Properties_%s.v (Print Assumptions parsed); hygiene grep' % self.prop
        self.notes['theorems'] = [{'name': t['name'], 'ok': t['ok'], 'assumptions': t['assumptions']} for t in thms]
        broken = [t for t in thms if not t['ok']]
        if bad:
            broken.append({'name': 'hygiene', 'ok': False, 'why': 'forbidden constructs: ' + '; '.join(bad[:5])})
        if self.tier == 'thorough' and not broken and os.environ.get('VERIF_NO_COQCHK') is None:
            rc, o = sh('timeout 3000 coqchk -o -silent -R . V V.props.Properties_%s 2>&1' % self.prop, cwd=COQ)
            self.notes['coqchk'] = o.strip()[-1500:]
            self.cov['obligations'] += 1
            if rc == 0:
                self.cov['discharged'] += 1
            else:
                broken.append({'name': 'coqchk', 'ok': False, 'why': o[-800:]})
        self.coq_log = mlog
        self._broken = broken
        return broken

    # -- violations
    def replay_path(self, payload):
        os.makedirs(REPLAY, exist_ok=True)
        h = hashlib.sha1(json.dumps(payload, sort_keys=True, default=str).encode()).hexdigest()[:12]
        p = os.path.join(REPLAY, '%s-%s.json' % (self.prop, h))
        with open(p, 'w') as f:
            json.dump(payload, f, indent=1, default=str)
        return p

    def violation(self, payload, no_input=False):
        payload = dict(payload)
        payload['property'] = self.prop
        p = self.replay_path(payload)
        self.violations.append((p, no_input))
        return p

    def known(self, fid, what):
        self.known_seen.setdefault(fid, what)

    def match_known(self, case):
        """case: dict describing a failing input; returns the finding id whose predicate accepts it"""
        for f in self.kf:
            pred = f.get('match', {})
            ok = True
            for k, v in pred.items():
                if case.get(k) != v:
                    ok = False
                    break
            if ok:
                return f
        return None

    def finish(self):
        # safety net: a broken proof obligation is never silent.  The property modules report it themselves (after their
        # search for a failing input); if a module returns without ANY violation although an obligation is broken -- e.g.
        # because every difference it saw on the implementation is a recorded finding -- it is reported here
        if getattr(self, '_broken', None) and not self.violations:
            for b in self._broken:
                self.violation({'kind': 'obligation', 'theorem': b.get('name'), 'why': b.get('why', '')}, no_input=True)
        wall = time.time() - self.t0
        self.cov['known_findings_seen'] = sorted(self.known_seen.keys())
        self.cov['notes'] = self.notes
        ev = {'property_id': self.prop, 'tier': self.tier, 'seed': self.seed, 'level': 'proof',
              'coverage': self.cov, 'assumptions': self.assumptions, 'wall_s': round(wall, 2),
              'violations': len(self.violations)}
        os.makedirs(EVID, exist_ok=True)
        with open(os.path.join(EVID, self.prop + '.json'), 'w') as f:
            json.dump(ev, f, indent=1, default=str)
        for fid, what in sorted(self.known_seen.items()):
            print('KNOWN-FINDING: property=%s %s' % (self.prop, what))
        for p, no_input in self.violations:
            print('VIOLATION property=%s replay=%s%s' % (self.prop, p, ' no-failing-input-found' if no_input else ''))
        sys.stdout.flush()
        return 1 if self.violations else 0
