#!/usr/bin/env python3
"""seed_meta.py <id> <ctest summary> <demo rc with> <demo rc without> <detected 0|1> <detected_by> [history]
writes seeded/<id>/meta.json from seeded/<id>/agent_meta.json and what the coordinator ran"""
import json, sys
dname, ctest, dw, dwo, det, by = sys.argv[1:7]
pid = dname.split('-')[0]
hist = sys.argv[7] if len(sys.argv) > 7 else ''
props = {json.loads(l)['id']: json.loads(l) for l in open('/verif/properties.jsonl')}
a = json.load(open('/verif/seeded/%s/agent_meta.json' % dname))
m = {'property': pid, 'property_title': props[pid]['title'], 'summary': a.get('summary'), 'needs_to_manifest': a.get('needs_to_manifest'),
     'files_changed': a.get('files_changed'),
     'produced_by': 'fresh sub-agent given only the property text and its own scratch worktree of /repo; nothing from /verif',
     'what_i_ran': {'apply': 'scratch git worktree of /repo (outside /repo and /verif) with patch.diff applied',
                    'build': 'ninja in the build tree of that worktree: rc=0',
                    'test_suite': ctest,
                    'demo': 'demo/run.sh with the change: exit %s; against the unchanged tree (SRC=/repo BUILD=/verif/.build/hooks): exit %s' % (dw, dwo),
                    'check': 'VERIF_REPO=<worktree> tools/vcheck %s -> %s' % (pid, 'exit 1 with a VIOLATION line' if det == '1' else 'exit 0 (missed)')},
     'detected': det == '1', 'detected_by': by, 'history': hist,
     'agent_report': {'tests_run': a.get('tests_run'), 'demo_run': a.get('demo_run')}}
json.dump(m, open('/verif/seeded/%s/meta.json' % dname, 'w'), indent=1)
print('wrote', dname)
