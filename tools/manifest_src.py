HOOK_COMMITS = ['b8834da10588edba4f8fa5538bfe8ebf62e843b0']

_PENDING = 'check not built yet in this session (design in DESIGN.md section 7); not claimed until its theorems and correspondence run'

CLAIMED = {
 'C12': {
  'text': 'Unbounded theorem name_match_correct (all byte strings): the model of the repaired uscxml::nameMatch scanner decides exactly the relation of Recommendation 3.12.1 for grammar-conformant descriptor lists and whitespace-free names; _refuted lemmas show the pinned scanner and a case-insensitive one violate it. The model is tied to the code by running model (extracted) and implementation (nameMatch and the copy extracted textually from test-gen-c.cpp) on all descriptor lists over {a,b,.,*,space} up to length 5/6 x names, plus seeded random longer pairs; the spec function judges every implementation output.',
  'note': 'Trusted: Coq kernel (no axioms; Print Assumptions closed), extraction (ExtrOcamlBasic), NameMatch.v as hand model of String.cpp:143-224 (validated by exhaustive-small + random correspondence only), name_match_spec as reading of 3.12.1, C-locale isspace. Trie-based static resolution in the Promela/VHDL back-ends: see evidence notes.',
  'technique': 'Coq proof (induction on the scanner) + exhaustive/random differential correspondence with extracted model',
 },
}

CLAIMED.update({
 'C01': {
  'text': 'Model: Chart.v (document trees, LargeMicroStep::init as flatten), Exec.v (executable content, error protocol), Large.v (LargeMicroStep::step), Spec.v (W3C Appendix D transliteration, the oracle). Theorems (all charts, configurations, events, datamodel states): the transition set selected in a microstep is pairwise free of exit-set overlap; the conflict relation is symmetric; FINISHED is absorbing. The whole-run equivalence Large = Spec is not a theorem: it is false of the faithful model in three deviation classes recorded as known findings, and outside them it is decided per run: every implementation trace (corpus of defect witnesses, exhaustive-small charts, seeded random charts for lua/promela/null) is compared with the extracted Large model (correspondence) and judged by the extracted Spec (oracle).',
  'note': 'Trusted: Coq kernel (theorems closed under the global context), extraction, Spec.v as reading of Appendix D, Large.v/Exec.v/Chart.v as hand models validated by correspondence only, the chart generator/renderer, vd_run.cpp. The equivalence with Appendix D is exploration-backed, not proved.',
  'technique': 'Coq invariants of the selection algorithm + differential correspondence impl/model + executable Appendix-D specification as oracle',
 },
 'C02': {
  'text': 'legal_configb (Legal.v, SCXML 3.11 + root active) is the oracle applied to every configuration the implementation reports after every step, for both engines, on the C01 case set; the <scxml> element must be entered once and never exited. Theorem (all charts/configurations/events): selected transitions are pairwise free of exit-set overlap (the reason two selected transitions never complete the same compound state twice). A proof that the modelled microstep preserves legality for all charts is not finished (see DESIGN.md Changes).',
  'note': 'Trusted: Legal.v as reading of 3.11; Large.v as hand model; generated charts; vd_run.cpp. Legality preservation itself is exploration-backed (every intermediate configuration of ~6000 runs x 2 engines), not proved.',
  'technique': 'Coq-extracted legality oracle on every implementation configuration + selection invariant proved in Coq',
 },
 'C03': {
  'text': 'Both engines are run on the C01 case set and on the W3C IRP documents (lua/promela/null) and their complete traces (monitor notifications, log output, processed events, step() results, configurations, final data) are compared token by token. Differences are classified with the diagnostics of the Spec run; two classes are recorded as known findings. Theorem: symmetry of the large engine conflict relation (the fast engine matrix is symmetric by construction).',
  'note': 'Trusted: vd_run.cpp, chart generator. No Coq model of FastMicroStep yet: this check is engine-vs-engine differential testing plus the Large model; it is the weakest of the chart checks as a proof.',
  'technique': 'differential execution of the two engines (generated charts + IRP corpus) with Coq-extracted diagnostics',
 },
 'C07': {
  'text': 'Exec.v/Large.v are the statement of the error protocol (error event enqueued, rest of that block skipped, next block runs, step returns). Fault-injection charts (failing elements at random positions, three datamodels, both engines) must produce exactly the model trace and never crash; arbitrary well-formed XML from SCXML vocabulary is validated and, if accepted, interpreted in child processes where a crash is an outcome.',
  'note': 'Trusted: Exec.v as hand model; memory safety outside the modelled code is exercised, not proved. Crashes of validate() itself are reported by C19.',
  'technique': 'fault injection + differential correspondence with the Coq model of the content executor; crash detection in child processes',
 },
 'C13': {
  'text': 'wf_traceb (Trace.v) is an executable recogniser of the bracket grammar of DESIGN.md Appendix E; it and a completeness cross-check (configuration deltas, one stable notice per macrostep) judge every trace of the C01 and fault-injection runs for both engines.',
  'note': 'Trusted: Trace.v grammar as reading of the property; vd_run.cpp records every callback. Theorems that the modelled executor only emits well-nested traces are in progress.',
  'technique': 'Coq-extracted trace-grammar recogniser applied to every implementation trace',
 },
})

CLAIMED['C17'] = {
  'text': 'Models: PmlParse.v (precedence-climbing parser over the operator table regenerated by probing the compiled parser), Pml.v (evaluator/store of PromelaDataModel with defect switches; reference semantics c_eval with 32-bit wrapping ints). 18 theorems, unbounded where the property is: parse(print e) = e for every expression under the C table and under any table that passes the finite 324+36 check; eval_correct (every well-typed expression, every store: value = c_eval, faults become error.execution); exec_correct and store_read_after_write for arrays/fields; eval_no_crash; _refuted lemmas with witnesses for the pinned code; verdict theorems over the regenerated table/switch vector. Tied to the code by translators (coq/gen/GenPmlPrec.v, GenPmlEval.v) and by exhaustive correspondence: all 324,813 expressions of depth <= 3 in minimal and full parenthesisation, AST dumps, random deeper ones, statement sequences, through evalAsData/assign and the parser, crashes contained in child processes.',
  'note': 'Trusted: Coq kernel (closed under the global context), extraction, c_eval as reading of Promela/C integer semantics (shift by out-of-range count unspecified), the flex lexer and token rendering, vd_pml.cpp, pml_probe.py. Modelled not verified: int variables only; a[i].f / a.f[i] outside the parser model; ++/-- outside exec_correct.',
  'technique': 'Coq proofs (induction on expressions, table simulation) + translator-regenerated operator table + exhaustive depth-3 differential correspondence',
}

CLAIMED['C15'] = {
  'text': 'Models: Jsmn.v (the jsmn tokenizer as compiled: non-strict, no parent links, explicit NOMEM/INVAL/PART/Oob outcomes), Json.v (jsonEscape/jsonUnescape over tables regenerated from Data.cpp, fromJSON with its token-budget retry loop, sentinel and stack-based builder with every array/stack access explicit, byte-exact toJSON, Event<->Data) with a five-switch defect record. 22 theorems, unbounded: unescape(escape s) = s for every byte string; every escaped string tokenizes; jsmn never writes outside its tokens; from_json total (no loop) and Oob-free for every byte string (repaired variant), refuted with witnesses for the pinned one; from_json(to_json d) = d through trim, retry loop, tokenizer and builder for every canonical NUL-free container value; event round trip. Correspondence: all 256 bytes x 3 probes, systematic and random trees (text compared exactly), exhaustive short malformed texts and token-budget sweeps, events; predicted-Oob inputs in child processes; thorough adds an ASan build and a vm_compute cross-check of the extracted model.',
  'note': 'Trusted: Coq kernel (closed under the global context), extraction, Jsmn.v/Json.v as hand models, the two escape-table translators (cross-checked by the 256-byte probe), vd_json.cpp, classic-locale isspace. Outside the model: Data::node/binary, heap contents after an out-of-bounds access, malloc failure. Two known findings (top-level scalar, NUL byte).',
  'technique': 'Coq proofs (induction on byte strings / Data trees, tokenizer invariants) + regenerated escape tables + differential correspondence incl. malformed stream and sanitizer build',
}

CLAIMED['C10'] = {
  'text': 'Model Lifecycle.v: (a) the API as a sequential machine (INSTANTIATED/INITIALIZED/flags, lazily created queues, step/receive/cancel/reset/destroy with an oracle for the chart), (b) the timer-thread teardown protocol as a two-thread small-step system, (c) the two statements of cancel() against enqueueing threads. 13 theorems, unbounded: the step() results of every chart and call sequence are accepted by the automaton of the documented regular language; FINISHED absorbing; cancel leads to FINISHED with every exit handler once in reverse order and never blocks; for the repaired variant reset = fresh, receive/cancel safe in every state, teardown terminates under every schedule (strict measure + no reachable dead state); the three pinned defects are _refuted with witnesses that the check replays. GenFlags.v (flag values of both engines and InterpreterState) is regenerated every run. Correspondence: all API sequences up to length 4/6 from 4 warm-up prefixes on 6 charts x 2 engines in forked children, forced teardown and cancel-race schedules.',
  'note': 'Trusted: Coq kernel (closed), extraction, Lifecycle.v as hand model, per-chart oracle tables, vd_lifecycle.cpp and the schedule controller. Assumed about libevent: loop entry clears the break flag; only a running loop is woken by loopbreak. Not carried: reset()/destruction concurrent with a running step() (a data race by inspection), wall-clock bounds, invoker threads (C11).',
  'technique': 'Coq proofs (automaton invariant over all call sequences; invariants and measures over all schedules) + regenerated flag table + API-sequence correspondence and forced-schedule replay',
}
CLAIMED['C11'] = {
  'text': 'Model Invoke.v: macrostep-end invoke/uninvoke bookkeeping of both engines, the parent/child small-step system over the plain-bool flags, SCXMLIOProcessor target routing, finalize/autoforward on dequeue. 19 theorems: bookkeeping exact for every sequence of macrostep-end configurations; done.invoke at most once and only for a child that finished alone (the literal iff and the stricter no-event-after-uninvoke-begins are _refuted with benign race schedules, the proved form names the ordering condition); nothing is sent after uninvoke returns; no deadlock; child events reach the parent once, in send order; routing sound and complete; finalize before match. Pinned defects _refuted with witnesses. Correspondence: forced replay of all race signatures of the model schedules (<= 4/6 context switches) on parent/child chart pairs, both engines, inline and file children, routing probes, bookkeeping compared on every run; thorough adds nested pairs and TSan runs.',
  'note': 'Trusted: Coq kernel (closed), extraction, Invoke.v as hand model (flag accesses atomic and sequentially consistent, one invocation at a time), vd_invoke.cpp, vd_sched.h. Data races on the bool flags are reported by TSan as supporting evidence, not carried by the model. Teardown termination inside uninvoke is bounded (64 states).',
  'technique': 'Coq proofs (invariants over all interleavings of the parent/child model, induction over macrostep sequences) + forced-schedule replay on the real invoker',
}

CLAIMED['C08'] = {
  'text': 'Models Fifo.v (the queue as atomic operations and at lock/read/write/unlock granularity, any number of producers, any merge with the consumer) and StepCtl.v (the control flow of step() around the queues, one model for both engines, skeleton regenerated from the source). 16 theorems, unbounded: dequeued ++ queued = enqueue order for every schedule; exactly-once/at-most-once as Permutation, per-producer prefix order; lock-level runs equal their linearisation; refuted without the lock; dequeueExternal only directly after an empty dequeueInternal with no event-less transition enabled, internal and external FIFO; the pinned control flow is _refuted for event-less reselection and unnamed events (both since fixed). Lock discipline inventory and the 36 step() landmarks are regenerated from the source every run. Correspondence: forced schedules of <=3 producers x <=3 events (all interleavings up to a block bound), control-flow scripts on random charts, both engines; thorough adds random schedules, a 16x10^4 stress run and TSan.',
  'note': 'Trusted: Coq kernel (closed), extraction, Fifo.v/StepCtl.v as hand models, the two translators, vd_fifo.cpp, vd_sched.h; std::recursive_mutex / condition_variable_any semantics and the C++ memory model below the mutex are assumed. reset() is covered by theorem and inventory only.',
  'technique': 'Coq proofs (induction over schedules, lock-level refinement, control-flow invariant) + regenerated lock/landmark inventories + forced-schedule replay',
}

NOT_APPLICABLE = {p: _PENDING for p in ['C%02d' % i for i in range(1, 21)] if p not in CLAIMED}
