HOOK_COMMITS = ['b8834da10588edba4f8fa5538bfe8ebf62e843b0']

_PENDING = 'check not built yet in this session (design in DESIGN.md section 7); not claimed until its theorems and correspondence run'

CLAIMED = {
 'C12': {
  'text': 'Unbounded theorem name_match_correct (all byte strings): the model of the repaired uscxml::nameMatch scanner decides exactly the relation of Recommendation 3.12.1 for grammar-conformant descriptor lists and whitespace-free names; _refuted lemmas show the pinned scanner and a case-insensitive one violate it. The model is tied to the code by running model (extracted) and implementation (nameMatch and the copy extracted textually from test-gen-c.cpp) on all descriptor lists over {a,b,.,*,space} up to length 5/6 x names, plus seeded random longer pairs; the spec function judges every implementation output.',
  'note': 'Trusted: Coq kernel (no axioms; Print Assumptions closed), extraction (ExtrOcamlBasic), NameMatch.v as hand model of String.cpp:143-224 (validated by exhaustive-small + random correspondence only), name_match_spec as reading of 3.12.1, C-locale isspace. Trie-based static resolution in the Promela/VHDL back-ends: see evidence notes.',
  'technique': 'Coq proof (induction on the scanner) + exhaustive/random differential correspondence with extracted model',
 },
}

NOT_APPLICABLE = {p: _PENDING for p in ['C%02d' % i for i in range(1, 21)] if p not in CLAIMED}
