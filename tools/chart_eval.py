"""chart_eval.py -- judging the traces of the chart-semantics runs: correspondence with the Large model,
the Appendix-D oracle (Spec) with classification of the known deviation classes, legality of every
configuration, well-nestedness, engine-vs-engine equality."""
from vlib import *
from chart_common import *
import chartgen as G

DONE_HEX = 'EV:' + b'done.state.'.hex()


def strip_diag(toks):
    diags = []
    out = []
    for t in toks:
        if t.startswith('DIAG:'):
            diags.append(int(t[5:]))
        else:
            out.append(t)
    return out, diags


def corr_equal(impl_line, model_line):
    ti, di = canon(impl_line)
    tm, dm_ = canon(model_line)
    ti, di, tm, dm_ = cut_big(ti, di, tm, dm_)
    if ti == tm and di == dm_:
        return True, None
    return False, (first_diff(ti, tm), ti, tm, di, dm_)


def spec_compare(impl_line, spec_line):
    """returns None if the implementation's behaviour is the one Appendix D prescribes, else
    (class, position, impl view, spec view)"""
    ti, di = canon(impl_line)
    ts_raw, ds = canon(spec_line)
    ts, diags = strip_diag(ts_raw)
    trunc = sum(1 for x in ti if x.startswith('RET:')) >= FUEL
    ti, di, ts2, ds = cut_big(ti, di, ts, ds)
    cut = len(ts2) != len(ts)
    va = spec_view(ti, True)
    vb = spec_view(ts2, False)
    if trunc or cut:
        va = complete_prefix(va)
        vb = complete_prefix(vb)
        n = min(len(va), len(vb))
        # compare the common complete prefix only
        va, vb = va[:n], vb[:n]
        di = ds = {}
    if va == vb and di == ds:
        return None
    i = first_diff(va, vb)
    if i is None:
        return ('data', 0, va, vb, di, ds)
    # microstep (1-based) of the spec trace that contains position i, or precedes it
    k = sum(1 for t in vb[:i + 1] if t == 'MS{')
    flag = diags[k - 1] if 0 < k <= len(diags) else 0
    nxt = diags[k] if k < len(diags) else 0
    a = va[i] if i < len(va) else ''
    b = vb[i] if i < len(vb) else ''
    cls = 'other'
    if (a.startswith(DONE_HEX) or b.startswith(DONE_HEX)) and (flag & 4):
        cls = 'nested-parallel-done'
    elif (flag | (nxt if (i < len(vb) and vb[i] == 'MS{') or (i < len(va) and va[i] == 'MS{') else 0)) & 1:
        cls = 'ancestor-pair'
    elif (flag | (nxt if (i < len(vb) and vb[i] == 'MS{') or (i < len(va) and va[i] == 'MS{') else 0)) & 2:
        cls = 'same-source'
    elif nxt & 1 and (a.startswith('EV:') or b.startswith('EV:') or a == 'MS{' or b == 'MS{'):
        cls = 'ancestor-pair'
    elif nxt & 2 and (a.startswith('EV:') or b.startswith('EV:') or a == 'MS{' or b == 'MS{'):
        cls = 'same-source'
    if cls == 'other' and ((flag | nxt) & 16):
        cls = 'history-target-domain'
    if cls == 'other' and diags and (diags[0] & 8):
        cls = 'history-overlap'
    return (cls, i, va, vb, di, ds)


def history_overlap(spec_line):
    """static diagnostic 8 of the Spec run: a deep history's parent has a descendant owning a history"""
    _, diags = strip_diag(canon(spec_line)[0])
    return bool(diags) and bool(diags[0] & 8)


def configs_of(toks):
    return [t[4:] for t in toks if t.startswith('CFG:')]


def delta_check(toks):
    """completeness cross-check of the bracket tokens against configuration deltas and return codes.
    returns None or a description"""
    cfg = set()
    seen_first = False
    i = 0
    n = len(toks)
    while i < n:
        t = toks[i]
        if t == 'MS{':
            xs, es = [], []
            j = i + 1
            while j < n and toks[j] != '}MS':
                if toks[j].startswith('X{:'):
                    xs.append(toks[j][3:])
                if toks[j].startswith('E{:'):
                    es.append(toks[j][3:])
                j += 1
            # configuration after: first CFG after }MS
            k = j
            while k < n and not toks[k].startswith('CFG:'):
                k += 1
            if k >= n:
                return None
            after = set(x for x in toks[k][4:].split(',') if x != '')
            if len(set(xs)) != len(xs):
                return 'state exited twice in one microstep at token %d' % i
            if len(set(es)) != len(es):
                return 'state entered twice in one microstep at token %d' % i
            if not set(xs) <= cfg:
                return 'exit reported for an inactive state at token %d' % i
            mid = cfg - set(xs)
            if mid & set(es):
                return 'entry reported for an active state at token %d' % i
            if after != (mid | set(es)):
                return 'configuration after the microstep is not (before - exited) + entered at token %d' % i
            cfg = after
            i = k
        i += 1
    # a macrostep that took microsteps ends with a stable-configuration notice before the engine idles or
    # goes on to the next external event: between a microstep bracket and the next RET:IDLE there is a STABLE
    seen_ms = False
    for idx, t in enumerate(toks):
        if t == '}MS':
            seen_ms = True
        elif t == 'STABLE':
            seen_ms = False
        elif t == 'RET:IDLE' and seen_ms:
            return 'macrostep completed (engine idle) without a stable-configuration notice at token %d' % idx
    # one STABLE per MACROSTEPPED, directly before it
    for idx, t in enumerate(toks):
        if t == 'RET:MACROSTEPPED' and (idx == 0 or toks[idx - 1] != 'STABLE'):
            return 'MACROSTEPPED without a stable-configuration notice at token %d' % idx
    if sum(1 for t in toks if t == 'STABLE') != sum(1 for t in toks if t == 'RET:MACROSTEPPED'):
        return 'stable-configuration notices and completed macrosteps differ in number'
    return None


def case_replay(c, case, extra):
    r = {'origin': case['origin'], 'datamodel': case['dm'], 'events': [e.decode('latin-1') for e in case['events']],
         'scxml': G.to_scxml(case['tree'], case['dm'], case['late']), 'chart_sexp': G.sx_tree(case['tree'])}
    r.update(extra)
    r['replay_cmd'] = "echo '%s' | /verif/.build/vdriver-hooks/vdriver" % impl_line(extra.get('engine', 'large'), case['tree'], case['dm'], case['late'], case['events'])
    return r


def shrink_order(idxs, cases):
    return sorted(idxs, key=lambda i: (len(G.sx_tree(cases[i]['tree'])), len(cases[i]['events'])))
