#!/usr/bin/env python3
"""Writes MANIFEST.json from tools/manifest_src.py (claimed checks) -- keeps it valid and in one place."""
import json, os, sys
sys.path.insert(0, os.path.dirname(os.path.abspath(__file__)))
from manifest_src import CLAIMED, NOT_APPLICABLE, HOOK_COMMITS
ROOT = os.path.dirname(os.path.dirname(os.path.abspath(__file__)))
checks = []
for pid, c in sorted(CLAIMED.items()):
    checks.append({
        'property_id': pid,
        'quick_cmd': 'tools/vcheck %s --tier quick' % pid,
        'thorough_cmd': 'tools/vcheck %s --tier thorough' % pid,
        'evidence_file': '/verif/evidence/%s.json' % pid,
        'replay_cmd_template': 'tools/vcheck %s --replay {path}' % pid,
        'engine': 'coq-proof+correspondence',
        'level_claimed': {'category': 'proof', 'text': c['text'], 'design_ref': c.get('design_ref', 'DESIGN.md section 7, ' + pid)},
        'level_note': c['note'],
        'technique': c['technique'],
    })
m = {
    'version': 1,
    'setup_cmd': 'tools/vcheck --setup',
    'hooks': {
        'guard': 'USCXML_VERIF',
        'enable': 'checks configure /repo into /verif/.build/<flavor> with -DCMAKE_CXX_FLAGS=-DUSCXML_VERIF (cmake+ninja, incremental) and link harness/vd*.cpp against it',
        'baseline_off_cmd': 'cmake --build /repo/_build && ctest --test-dir /repo/_build -j8 --timeout 900',
        'source_commits': HOOK_COMMITS,
        'add_only': True,
    },
    'engines': [{'name': 'coq-proof+correspondence', 'path': '/verif/tools/vcheck',
                 'serves_properties': sorted(CLAIMED.keys()),
                 'kind_free_text': 'Coq 8.16.1 theorems over hand-written executable models (coq/theories, coq/props), translators regenerating table-like model parts (coq/gen), extracted OCaml models run against the hook-enabled build of /repo on generated inputs (correspondence + property oracle)'}],
    'checks': checks,
    'not_applicable': [{'property_id': p, 'reason': r} for p, r in sorted(NOT_APPLICABLE.items())],
    'notes': 'See DESIGN.md. Exit codes of every check: 0 held, 1 VIOLATION line printed, 2 the working tree of /repo does not build.',
}
json.dump(m, open(os.path.join(ROOT, 'MANIFEST.json'), 'w'), indent=1)
print('MANIFEST.json written: %d checks, %d not_applicable' % (len(checks), len(m['not_applicable'])))
