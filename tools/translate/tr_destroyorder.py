"""tr_destroyorder.py -- C10: what InterpreterImpl::~InterpreterImpl() does about the timer thread, regenerated from
src/uscxml/interpreter/InterpreterImpl.cpp and InterpreterImpl.h.

ResetRaceDestroy.v models the destruction of an interpreter racing the timer thread: the destructor body, then the
members in reverse order of declaration, the join of the timer thread wherever the last reference to the delayed queue
is given up.  Read from the source:

  destroy_locks_targets   the body takes a lock on _delayMutex, executes `_delayedEventTargets.clear()` and then
                          `_delayQueue.cancelAllDelayed()` while that lock's block is still open
  destroy_drops_al        the body gives up the ActionLanguage copy's reference to the queue
                          (`_al.delayQueue = DelayedEventQueue();` or `_al = ActionLanguage();`), outside the lock's block
  destroy_joins_in_body   the body gives up the member's reference (`_delayQueue = DelayedEventQueue();`) after the
                          cancellation, outside the lock's block and after the statement above if there is one
  destroy_members         the members the timer callback uses (and the two holders of the queue), in order of DECLARATION
                          in class InterpreterImpl: they are destroyed in the reverse order

Anything else the destructor does with _delayQueue, _al, _delayMutex or _delayedEventTargets is not recognised and
makes the translation FAIL (fallback: destroy_source_ok = false, all switches false, so that
gen_destroy_ok in props/Properties_C10.v does not compile).

Output: coq/gen/GenDestroyOrder.v (type dmember and definitions; lemmas in theories/ResetRaceDestroyLemmas.v)."""
import re

OUTPUT = 'GenDestroyOrder.v'
SOURCE = 'src/uscxml/interpreter/InterpreterImpl.cpp'
HEADER = 'src/uscxml/interpreter/InterpreterImpl.h'

MEMBERS = [('_al', 'MAl'), ('_delayedEventTargets', 'MTargets'), ('_delayMutex', 'MDelayMutex'),
           ('_internalQueue', 'MInternalQueue'), ('_externalQueue', 'MExternalQueue'),
           ('_delayQueue', 'MDelayQueue'), ('_ioProcs', 'MIoProcs')]


def strip_comments(src):
    def repl(m):
        s = m.group(0)
        if s.startswith('/'):
            return re.sub(r'[^\n]', ' ', s)
        return '""' + ' ' * (len(s) - 2) if s.startswith('"') else s
    return re.sub(r'//[^\n]*|/\*.*?\*/|"(?:\\.|[^"\\])*"|\'(?:\\.|[^\'\\])*\'', repl, src, flags=re.S)


def dtor_body(src):
    ms = list(re.finditer(r'\bInterpreterImpl::~InterpreterImpl\s*\(\s*(?:void)?\s*\)\s*\{', src))
    if len(ms) != 1:
        raise RuntimeError('InterpreterImpl::~InterpreterImpl() found %d times in %s' % (len(ms), SOURCE))
    i = ms[0].end()
    depth = 1
    while i < len(src) and depth:
        if src[i] == '{':
            depth += 1
        elif src[i] == '}':
            depth -= 1
        i += 1
    if depth:
        raise RuntimeError('~InterpreterImpl(): unbalanced braces')
    return src[ms[0].end():i - 1], src.count('\n', 0, ms[0].start()) + 1


def depth_at(body, off):
    d = 0
    for ch in body[:off]:
        if ch == '{':
            d += 1
        elif ch == '}':
            d -= 1
    return d


def scope_open(body, start, end):
    """the block that is open at `start` is not closed before `end`"""
    d = 0
    for ch in body[start:end]:
        if ch == '{':
            d += 1
        elif ch == '}':
            d -= 1
            if d < 0:
                return False
    return True


RX_CANCEL = r'(?<![\w.>])_delayQueue\s*\.\s*cancelAllDelayed\s*\(\s*\)\s*;'
RX_GUARD = r'\bif\s*\(\s*_delayQueue\s*\)'
RX_RELQ = r'(?<![\w.>])_delayQueue\s*=\s*DelayedEventQueue\s*\(\s*\)\s*;'
RX_RELAL = r'(?<![\w.>])_al\s*(?:\.\s*delayQueue\s*=\s*DelayedEventQueue|=\s*ActionLanguage)\s*\(\s*\)\s*;'
RX_LOCK = r'(?:std\s*::\s*)?(?:lock_guard|unique_lock|scoped_lock)\s*<[^;{}]*>\s*\w+\s*[\(\{]\s*_delayMutex\s*[\)\}]\s*;'
RX_CLEAR = r'(?<![\w.>])_delayedEventTargets\s*\.\s*clear\s*\(\s*\)\s*;'


def analyse(body):
    def all_(rx):
        return list(re.finditer(rx, body))
    cancels, guards, relq, relal, locks, clears = all_(RX_CANCEL), all_(RX_GUARD), all_(RX_RELQ), all_(RX_RELAL), all_(RX_LOCK), all_(RX_CLEAR)
    if len(cancels) != 1:
        raise RuntimeError('~InterpreterImpl(): _delayQueue.cancelAllDelayed() found %d times' % len(cancels))
    # every mention of the four names must be one of the recognised forms
    covered = []
    for ms in (cancels, guards, relq, relal, locks, clears):
        covered += [(m.start(), m.end()) for m in ms]
    for name in ('_delayQueue', '_al', '_delayMutex', '_delayedEventTargets'):
        for m in re.finditer(r'(?<![\w])%s\b' % re.escape(name), body):
            if not any(a <= m.start() < b for a, b in covered):
                line = body[body.rfind('\n', 0, m.start()) + 1:].split('\n')[0].strip()
                raise RuntimeError('~InterpreterImpl(): use of %s not recognised: %r' % (name, line))
    for g in guards:
        rest = body[g.end():]
        if not re.match(r'\s*\{?\s*' + RX_CANCEL, rest):
            raise RuntimeError('~InterpreterImpl(): if (_delayQueue) guards something else than cancelAllDelayed()')
    c = cancels[0]
    # the cancellation must not sit behind another condition or in a loop
    stmt_start = max(body.rfind(';', 0, c.start()), body.rfind('}', 0, c.start())) + 1
    lead = re.sub(r'\{', ' ', body[stmt_start:c.start()]).strip()
    if lead and not re.fullmatch(RX_GUARD, lead):
        raise RuntimeError('~InterpreterImpl(): cancelAllDelayed() is guarded by something else: %r' % lead)
    locks_targets = False
    if locks or clears:
        if len(locks) != 1 or len(clears) != 1:
            raise RuntimeError('~InterpreterImpl(): lock on _delayMutex / _delayedEventTargets.clear() not exactly once')
        lk, cl = locks[0], clears[0]
        if not (lk.start() < cl.start() < c.start()):
            raise RuntimeError('~InterpreterImpl(): expected lock, clear(), cancelAllDelayed() in this order')
        if depth_at(body, lk.start()) < 1 or not scope_open(body, lk.end(), c.end()):
            raise RuntimeError('~InterpreterImpl(): the lock on _delayMutex is not held in a block of its own up to cancelAllDelayed()')
        locks_targets = True
    lock_block_end = None
    if locks_targets:
        # offset at which the block of the lock closes
        d = 0
        for i in range(locks[0].end(), len(body)):
            if body[i] == '{':
                d += 1
            elif body[i] == '}':
                d -= 1
                if d < 0:
                    lock_block_end = i
                    break
        if lock_block_end is None:
            raise RuntimeError('~InterpreterImpl(): the lock on _delayMutex is held to the end of the destructor')
    if len(relq) > 1 or len(relal) > 1:
        raise RuntimeError('~InterpreterImpl(): a reference to the queue is given up more than once')
    for m in relq + relal:
        if depth_at(body, m.start()) != 0:
            raise RuntimeError('~InterpreterImpl(): a reference to the queue is given up inside a block (joining the timer thread '
                               'under _delayMutex dead-locks with a callback that waits for it)')
        if m.start() < (lock_block_end if lock_block_end is not None else c.end()):
            raise RuntimeError('~InterpreterImpl(): a reference to the queue is given up before the timers are cancelled')
    if relq and relal and not (relal[0].start() < relq[0].start()):
        raise RuntimeError('~InterpreterImpl(): expected the ActionLanguage reference to be given up before the member')
    return locks_targets, bool(relal), bool(relq)


def member_order(hdr):
    m = re.search(r'\bclass\s+(?:USCXML_API\s+)?InterpreterImpl\b[^;{]*\{', hdr)
    if not m:
        raise RuntimeError('class InterpreterImpl not found in %s' % HEADER)
    i = m.end()
    depth = 1
    chars = []
    while i < len(hdr) and depth:
        ch = hdr[i]
        if ch == '{':
            depth += 1
        elif ch == '}':
            depth -= 1
        # keep class-level text only (inline function bodies blanked)
        chars.append(ch if depth == 1 or (depth == 0 and ch == '}') else (' ' if ch != '\n' else '\n'))
        i += 1
    cls = ''.join(chars)
    found = []
    for name, tag in MEMBERS:
        ds = list(re.finditer(r'(?:^|[;{}:])\s*(?:(?:static|mutable)\s+)?[A-Za-z_][\w:]*(?:\s*<[^;{}]*>)?[\s\*&]+%s\s*(?:=[^;]*)?;' % re.escape(name), cls))
        ds = [d for d in ds if 'static' not in d.group(0)]
        if len(ds) != 1:
            raise RuntimeError('declaration of member %s found %d times in class InterpreterImpl' % (name, len(ds)))
        found.append((ds[0].end(), tag))
    found.sort()
    return [t for _, t in found]


def render(ok, locks, al, joins, members, note, line=0):
    lines = ['(* GenDestroyOrder.v -- GENERATED by tools/translate/tr_destroyorder.py from %s and' % SOURCE,
             '   %s of the working tree; do not edit.  What ~InterpreterImpl()%s does about' % (HEADER, (' (line %d)' % line) if line else ''),
             '   the timer thread, and the order of DECLARATION of the members the timer callback uses.',
             '   %s *)' % note,
             'From Coq Require Import List Bool.',
             'Import ListNotations.',
             '',
             'Inductive dmember := MAl | MTargets | MDelayMutex | MInternalQueue | MExternalQueue | MDelayQueue | MIoProcs.',
             '',
             'Definition destroy_source_ok : bool := %s.' % ('true' if ok else 'false'),
             'Definition destroy_locks_targets : bool := %s.' % ('true' if locks else 'false'),
             'Definition destroy_drops_al : bool := %s.' % ('true' if al else 'false'),
             'Definition destroy_joins_in_body : bool := %s.' % ('true' if joins else 'false'),
             '',
             'Definition destroy_members : list dmember := [%s].' % '; '.join(members),
             '']
    return '\n'.join(lines)


def translate(repo):
    body, line = dtor_body(strip_comments(open(repo + '/' + SOURCE).read()))
    locks, al, joins = analyse(body)
    members = member_order(strip_comments(open(repo + '/' + HEADER).read()))
    meta = {'locks_targets': locks, 'drops_al': al, 'joins_in_body': joins, 'members': members, 'line': line}
    return render(True, locks, al, joins, members, 'source read successfully', line), meta


def fallback(err):
    return render(False, False, False, False, [],
                  'FALLBACK: ~InterpreterImpl() could not be read (%s); gen_destroy_ok fails' % err.replace('*)', '* )')), {'error': err}


def _selftest():
    pre = 'std::list<DOMElement*> invokes = f(_xmlPrefix, _scxml, true);\n for (auto invoke : invokes) { free(invoke); }\n'
    post = 'if (_document)\n delete _document;\n'
    ok = [
        (pre + 'if (_delayQueue)\n _delayQueue.cancelAllDelayed();\n' + post, (False, False, False)),
        (pre + '{ std::lock_guard<std::recursive_mutex> lock(_delayMutex);\n _delayedEventTargets.clear();\n if (_delayQueue)\n _delayQueue.cancelAllDelayed();\n }\n'
               '_al.delayQueue = DelayedEventQueue();\n _delayQueue = DelayedEventQueue();\n' + post, (True, True, True)),
        (pre + '{ std::lock_guard<std::recursive_mutex> lock(_delayMutex); _delayedEventTargets.clear(); if (_delayQueue) { _delayQueue.cancelAllDelayed(); } }\n'
               '_al = ActionLanguage();\n' + post, (True, True, False)),
    ]
    bad = [
        pre + post,                                                                     # no cancellation at all
        pre + '{ std::lock_guard<std::recursive_mutex> lock(_delayMutex); _delayedEventTargets.clear(); }\n if (_delayQueue) _delayQueue.cancelAllDelayed();\n' + post,
        pre + '{ std::lock_guard<std::recursive_mutex> lock(_delayMutex); _delayedEventTargets.clear(); _delayQueue.cancelAllDelayed(); _delayQueue = DelayedEventQueue(); }\n' + post,
        pre + '_delayQueue = DelayedEventQueue();\n if (_delayQueue) _delayQueue.cancelAllDelayed();\n' + post,
        pre + 'if (_delayQueue) _delayQueue.cancelAllDelayed();\n _delayQueue = DelayedEventQueue();\n _al.delayQueue = DelayedEventQueue();\n' + post,
        pre + 'if (x) _delayQueue.cancelAllDelayed();\n' + post,
        pre + 'if (_delayQueue) _delayQueue.cancelAllDelayed();\n _delayQueue.reset();\n' + post,
    ]
    for body, exp in ok:
        assert analyse(body) == exp, (body, analyse(body))
    for body in bad:
        try:
            analyse(body)
        except RuntimeError:
            continue
        raise AssertionError('accepted: %r' % body)


if __name__ == '__main__':
    import sys
    _selftest()
    text, meta = translate(sys.argv[1] if len(sys.argv) > 1 else '/repo')
    print(text)
    print(meta, file=sys.stderr)
    assert meta['members'] == ['MAl', 'MTargets', 'MDelayMutex', 'MInternalQueue', 'MExternalQueue', 'MDelayQueue', 'MIoProcs'] or len(sys.argv) > 1
