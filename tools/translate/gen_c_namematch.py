"""Extract the body of the matcher copy in test/src/test-gen-c.cpp as a free function."""
import re

def extract(repo):
    src = open(repo + '/test/src/test-gen-c.cpp').read()
    m = re.search(r'static bool nameMatch\(const std::string& eventDescs, const std::string& eventName\) \{', src)
    if not m:
        return 'static bool nameMatch(const std::string&, const std::string&) { throw std::runtime_error("copy of nameMatch not found in test-gen-c.cpp"); }\n'
    i = m.end()
    depth = 1
    while depth > 0 and i < len(src):
        if src[i] == '{':
            depth += 1
        elif src[i] == '}':
            depth -= 1
        i += 1
    return '// extracted from test/src/test-gen-c.cpp\n' + src[m.start():i] + '\n'

def token_identical(repo):
    """is the copy token-identical to String.cpp's nameMatch (first #if branch)?"""
    a = extract(repo)
    s = open(repo + '/src/uscxml/util/String.cpp').read()
    m = re.search(r'bool nameMatch\(const std::string &eventDescs, const std::string &eventName\) \{\s*#if 1', s)
    if not m:
        return None
    e = s.index('#else', m.end())
    b = s[m.end():e]
    norm = lambda t: re.sub(r'\s+', '', re.sub(r'//.*', '', t)).replace('boost::iequals', 'iequals')
    body = a[a.index('{') + 1:a.rindex('}')]
    return norm(body) == norm(b)
