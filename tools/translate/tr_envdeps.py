"""tr_envdeps.py -- C20: inventory of process-environment dependencies of the transformers, regenerated from
the C++ source of the working tree (DESIGN.md 5.1, row GenEnvDeps.v).

Scope: src/uscxml/transform/** (and the util functions it calls that use std::hash).  Listed are
  PtrKeyedIter  a std::map/set/multimap/... whose key type is a pointer and which is *iterated* (range-for or
                .begin()): its iteration order is the address order of the keys;
  PtrPrinted    `stream << p` where p is declared with a pointer type (not char*): prints the address
                (PtrLogged when the statement is a LOG(..)/LOGD(..) line: the address goes to the log, not the output);
                the type is that of the closest preceding declaration of the name in the file, members (_x) fall back
                to the declarations of the transform headers; `auto` variables are not resolved (limitation);
  PtrOrdered    `l.merge(m)` / `l.sort()` without comparator on a std::list<T*>: elements are ordered by address
                (Trie::getChildsWithWords merges the word lists of the children);
  StdHashUse    call sites of functions that use std::hash (escapeMacro), and direct uses;
  RandomId      uses of UUID::getUUID, with `guarded` = only reached when the element has no id attribute.
Besides the inventory four facts are read that select the variant of the model (Determinism.v):
  pml_analyze_before_prefix   ChartToPromela::prepare analyses a nested machine before its prefix is set from the invoke id
  fast_cache_compiled         FastMicroStep.cpp is compiled with WITH_CACHE_FILES (no `#undef` in front of its uses)
  cache_md5_guard_present     InterpreterImpl::init discards a cache whose md5 is not the document's
  c_md5_of_serialised_doc     ChartToC hashes `*_document` (the serialised document) rather than the pointer
Regular-expression level on comment-stripped text; there is no finite probe for this table, the multi-process
byte comparison of tools/props/c20.py is its backing (failing-input search)."""
import glob, os, re

OUTPUT = 'GenEnvDeps.v'


def strip_comments(src, blank_strings=True):
    def repl(m):
        s = m.group(0)
        if s.startswith('/'):
            return re.sub(r'[^\n]', ' ', s)
        if blank_strings and len(s) >= 2:
            return s[0] + re.sub(r'[^\n]', ' ', s[1:-1]) + s[-1]      # emitted C/Promela text is not C++ code
        return s
    return re.sub(r'//[^\n]*|/\*.*?\*/|"(?:\\.|[^"\\])*"|\'(?:\\.|[^\'\\])*\'', repl, src, flags=re.S)


def lineno(src, pos):
    return src.count('\n', 0, pos) + 1


def match_angle(src, i):
    """src[i] == '<'; index just after the matching '>'"""
    depth = 0
    while i < len(src):
        if src[i] == '<':
            depth += 1
        elif src[i] == '>':
            depth -= 1
            if depth == 0:
                return i + 1
        elif src[i] in ';{}':
            return None
        i += 1
    return None


CONTAINER = re.compile(r'std::(?:unordered_)?(?:multi)?(?:map|set)\s*<')


def pointer_keyed_decls(src):
    """yield (name, keytype, pos) for declarations `std::map<T*, ...> [*]name`"""
    for m in CONTAINER.finditer(src):
        lt = m.end() - 1
        end = match_angle(src, lt)
        if end is None:
            continue
        inner = src[lt + 1:end - 1]
        # first template argument
        depth = 0
        first = inner
        for k, ch in enumerate(inner):
            if ch == '<':
                depth += 1
            elif ch == '>':
                depth -= 1
            elif ch == ',' and depth == 0:
                first = inner[:k]
                break
        first = first.strip()
        if not first.endswith('*'):
            continue
        # a comparator argument (3rd of map/multimap, 2nd of set/multiset): not the address order
        nargs = 1
        depth = 0
        for ch in inner:
            if ch == '<':
                depth += 1
            elif ch == '>':
                depth -= 1
            elif ch == ',' and depth == 0:
                nargs += 1
        is_map = 'map' in src[m.start():lt]
        if 'unordered' not in src[m.start():lt] and nargs >= (3 if is_map else 2):
            continue
        d = re.match(r'\s*\*?\s*(\w+)\s*(?:;|=|\{|\()', src[end:end + 200])
        if not d:
            continue                      # an expression (new std::map<...>()), a return type, ...
        if d.group(1) in ('const', 'operator'):
            continue
        if re.search(r'\btypedef\s*$', src[max(0, m.start() - 40):m.start()]):
            # a type name: the variables declared with it
            for v in re.finditer(r'\b%s\s*\*?\s*(\w+)\s*(?:;|=|\{)' % re.escape(d.group(1)), src):
                yield v.group(1), re.sub(r'\s+', ' ', first), v.start()
            continue
        yield d.group(1), re.sub(r'\s+', ' ', first), m.start()


def enclosing_class(src, pos):
    cs = [m for m in re.finditer(r'\bclass\s+(?:USCXML_API\s+)?(\w+)\s*(?::[^;{]*)?\{', src) if m.start() < pos]
    return cs[-1].group(1) if cs else ''


def iterations(src, name):
    pats = [r'for\s*\([^;()]*:\s*\*?\s*%s\s*\)' % re.escape(name),
            r'(?<![\w.>])%s\s*(?:\.|->)\s*c?r?begin\s*\(' % re.escape(name)]
    out = []
    for p in pats:
        out += [m.start() for m in re.finditer(p, src)]
    return sorted(out)


POINTER_DECL = re.compile(r'\b((?:const\s+)?[A-Za-z_][\w:]*)\s*\*\s*(?:const\s+)?(\w+)\s*(?=;|=|,|\)|\{)')


def pointer_names(src):
    names = {}
    for m in POINTER_DECL.finditer(src):
        t, n = m.group(1), m.group(2)
        if re.search(r'\bchar\b|\bXMLCh\b|\breturn\b|\bdelete\b|\bnew\b|\bcase\b', t):
            continue
        if n in ('const', 'this'):
            continue
        names[n] = t
    return names


KEYWORDS = {'if', 'for', 'while', 'switch', 'catch', 'return', 'sizeof', 'else', 'do', 'new', 'delete', 'case', 'std', 'endl'}


def local_decl_is_pointer(src, name, pos):
    """the closest declaration of `name` before pos in this file: True (pointer) / False / None (none found)"""
    best = None
    for m in re.finditer(r'(?:^|[;{}(,])\s*((?:const\s+)?[A-Za-z_][\w:]*(?:\s*<[^;{}()]*>)?)\s*([*&]*)\s*(?:const\s+)?%s\s*(?=[;=,):\[({])' % re.escape(name), src[:pos], flags=re.M):
        t = m.group(1).strip()
        if t in KEYWORDS or t.split()[-1] in KEYWORDS or t in ('<<', 'typedef'):
            continue
        best = ('*' in m.group(2)) and not re.search(r'\bchar\b|\bXMLCh\b', t)
    return best


def coq_bytes(s):
    return '[' + '; '.join(str(b) for b in s.encode()) + ']'


def cb(b):
    return 'true' if b else 'false'


def render(entries, facts, source_ok, note):
    L = ['(* GenEnvDeps.v -- GENERATED by tools/translate/tr_envdeps.py from the C++ source of the working tree;',
         '   do not edit.  Inventory of process-environment dependencies of src/uscxml/transform/** and the facts',
         '   that select the variant of the model in Determinism.v.',
         '   %s *)' % note,
         'From Coq Require Import List NArith Bool.',
         'Import ListNotations.',
         'Local Open Scope N_scope.',
         '',
         'Inductive dep_kind := PtrKeyedIter | PtrPrinted | PtrLogged | PtrOrdered | StdHashUse | RandomId | Unreadable.',
         '',
         '(* ed_uses: number of iterations / print sites / call sites; ed_guarded: (RandomId) only reached when the',
         '   element has no id attribute; ed_live: the enclosing class is used outside its own files *)',
         'Record env_dep := mkEnvDep {',
         '  ed_kind : dep_kind; ed_file : list N; ed_class : list N; ed_symbol : list N;',
         '  ed_uses : N; ed_guarded : bool; ed_live : bool }.',
         '',
         'Definition env_source_ok : bool := %s.' % cb(source_ok),
         'Definition pml_analyze_before_prefix : bool := %s.' % cb(facts.get('pml_analyze_before_prefix', True)),
         'Definition fast_cache_compiled : bool := %s.' % cb(facts.get('fast_cache_compiled', True)),
         'Definition cache_md5_guard_present : bool := %s.' % cb(facts.get('cache_md5_guard_present', False)),
         'Definition c_md5_of_serialised_doc : bool := %s.' % cb(facts.get('c_md5_of_serialised_doc', False)),
         '',
         'Definition env_inventory : list env_dep := [']
    items = []
    for e in entries:
        items.append('  (* %s %s:%s %s::%s  uses at lines %s *)\n  mkEnvDep %s %s %s %s %d %s %s' % (
            e['kind'], e['file'], e['line'], e['class'], e['symbol'], e['lines'],
            e['kind'], coq_bytes(e['file']), coq_bytes(e['class']), coq_bytes(e['symbol']), e['uses'], cb(e['guarded']), cb(e['live'])))
    L.append(';\n'.join(items))
    L.append('].')
    return '\n'.join(L) + '\n'


def translate(repo):
    base = os.path.join(repo, 'src', 'uscxml')
    tdir = os.path.join(base, 'transform')
    files = sorted(glob.glob(os.path.join(tdir, '**', '*.cpp'), recursive=True) + glob.glob(os.path.join(tdir, '**', '*.h'), recursive=True))
    if not files:
        raise RuntimeError('no sources under src/uscxml/transform')
    srcs = {os.path.relpath(f, base): strip_comments(open(f, errors='replace').read()) for f in files}
    allsrc = {}
    for f in glob.glob(os.path.join(base, '**', '*.cpp'), recursive=True) + glob.glob(os.path.join(base, '**', '*.h'), recursive=True) + \
            glob.glob(os.path.join(repo, 'src', 'apps', '*.cpp')):
        allsrc[os.path.relpath(f, base)] = strip_comments(open(f, errors='replace').read())
    entries = []

    # 1. pointer-keyed containers that are iterated
    seen = set()
    for f, s in srcs.items():
        for name, key, pos in pointer_keyed_decls(s):
            cls = enclosing_class(s, pos)
            if (cls, name) in seen:
                continue
            its = []
            for g, t in srcs.items():
                its += ['%s:%d' % (os.path.basename(g), lineno(t, p)) for p in iterations(t, name)]
            if not its:
                continue                  # membership tests only: order never observed
            seen.add((cls, name))
            own = {os.path.basename(f).rsplit('.', 1)[0]}
            live = not cls                # a local variable or a global: used where it stands
            if cls:
                for g, t in allsrc.items():
                    if os.path.basename(g).rsplit('.', 1)[0] in own:
                        continue
                    body = re.sub(r'^\s*#\s*include[^\n]*$|\bclass\s+%s\s*;' % re.escape(cls), '', t, flags=re.M)
                    if re.search(r'\b%s\b' % re.escape(cls), body):
                        live = True
                        break
            entries.append({'kind': 'PtrKeyedIter', 'file': f, 'line': lineno(s, pos), 'class': cls, 'symbol': name,
                            'uses': len(its), 'lines': ' '.join(its[:12]), 'guarded': False, 'live': live})

    # 2. `<<` of a pointer-typed name
    ptrs = {}
    for f, s in list(srcs.items()) + [(k, v) for k, v in allsrc.items() if k.startswith('util/DOM.h')]:
        ptrs.update(pointer_names(s))
    for f, s in srcs.items():
        if not f.endswith('.cpp'):
            continue
        byname = {}
        for m in re.finditer(r'<<\s*(\w+)\s*(?=;|<<)', s):
            n = m.group(1)
            if n in KEYWORDS:
                continue
            isptr = local_decl_is_pointer(s, n, m.start())
            if isptr is None:
                isptr = n in ptrs and n.startswith('_')       # a member declared in a header
            if not isptr:
                continue
            st = max(s.rfind(';', 0, m.start()), s.rfind('{', 0, m.start()), s.rfind('}', 0, m.start()))
            kind = 'PtrLogged' if re.match(r'\s*LOGD?\s*\(', s[st + 1:m.start()]) else 'PtrPrinted'
            byname.setdefault((kind, n), []).append(lineno(s, m.start()))
        for (kind, n), ls in sorted(byname.items()):
            entries.append({'kind': kind, 'file': f, 'line': ls[0], 'class': ptrs.get(n, 'auto').replace('const ', ''), 'symbol': n,
                            'uses': len(ls), 'lines': ' '.join(map(str, ls[:12])), 'guarded': False, 'live': True})

    # 2b. merge / sort of a list of pointers without comparator
    for f, s in srcs.items():
        if not f.endswith('.cpp'):
            continue
        found = {}
        for m in re.finditer(r'\b(\w+)\s*\.\s*(merge|sort)\s*\(', s):
            name, what = m.group(1), m.group(2)
            # the argument text up to the matching parenthesis; commas at depth 0 separate arguments
            depth, k, top_commas = 1, m.end(), 0
            while k < len(s) and depth > 0:
                ch = s[k]
                if ch in '([{':
                    depth += 1
                elif ch in ')]}':
                    depth -= 1
                elif ch == ',' and depth == 1:
                    top_commas += 1
                k += 1
            args = s[m.end():k - 1].strip()
            if (what == 'merge' and (top_commas > 0 or not args)) or (what == 'sort' and args):
                continue
            decl = [d for d in re.finditer(r'std::list\s*<\s*((?:const\s+)?[\w:]+)\s*\*\s*>\s*&?\s*%s\b' % re.escape(name), s[:m.start()])]
            if not decl:
                continue
            fn = [x for x in re.finditer(r'\b(\w+)::(\w+)\s*\((?:[^;{}()]|\([^;{}()]*\))*\)\s*(?:const\s*)?\{', s[:m.start()])]
            cls = fn[-1].group(1) if fn else ''
            found.setdefault((cls, name), []).append(lineno(s, m.start()))
        for (cls, name), ls in sorted(found.items()):
            entries.append({'kind': 'PtrOrdered', 'file': f, 'line': ls[0], 'class': cls, 'symbol': name,
                            'uses': len(ls), 'lines': ' '.join(map(str, ls)), 'guarded': False, 'live': True})

    # 3. std::hash: direct uses, and call sites of util functions that use it
    hashfuns = []
    for g, t in allsrc.items():
        if not g.startswith('util/'):
            continue
        for m in re.finditer(r'std::hash\s*<', t):
            # enclosing function name: last `name(` at brace depth 0 before the use
            head = t[:m.start()]
            fm = [x for x in re.finditer(r'\b(\w+)\s*\((?:[^;{}()]|\([^;{}()]*\))*\)\s*(?:const\s*)?\{', head) if x.group(1) not in KEYWORDS]
            if fm:
                hashfuns.append(fm[-1].group(1))
    for f, s in srcs.items():
        direct = [lineno(s, m.start()) for m in re.finditer(r'std::hash\s*<', s)]
        if direct:
            entries.append({'kind': 'StdHashUse', 'file': f, 'line': direct[0], 'class': '', 'symbol': 'std::hash',
                            'uses': len(direct), 'lines': ' '.join(map(str, direct)), 'guarded': False, 'live': True})
        for fn in sorted(set(hashfuns)):
            calls = [lineno(s, m.start()) for m in re.finditer(r'\b%s\s*\(' % re.escape(fn), s)]
            if calls:
                entries.append({'kind': 'StdHashUse', 'file': f, 'line': calls[0], 'class': '', 'symbol': fn,
                                'uses': len(calls), 'lines': ' '.join(map(str, calls[:12])), 'guarded': False, 'live': True})

    # 4. random identifiers
    for f, s in srcs.items():
        for m in re.finditer(r'UUID::getUUID\s*\(', s):
            before = s[max(0, m.start() - 400):m.start()]
            lastif = before.rfind('if')
            guarded = lastif >= 0 and re.search(r'if\s*\(\s*!\s*HAS_ATTR(?:_CAST)?\s*\(\s*\w+\s*,\s*kXMLCharId\s*\)\s*\)', before[lastif:]) is not None
            entries.append({'kind': 'RandomId', 'file': f, 'line': lineno(s, m.start()), 'class': '', 'symbol': 'getUUID',
                            'uses': 1, 'lines': str(lineno(s, m.start())), 'guarded': guarded, 'live': True})

    # 5. the facts selecting the model's variant
    facts = {}
    pml = srcs.get('transform/ChartToPromela.cpp')
    if pml is None:
        raise RuntimeError('ChartToPromela.cpp not found')
    pm = re.search(r'void\s+ChartToPromela::prepare\s*\(\s*\)\s*\{', pml)
    if not pm:
        raise RuntimeError('ChartToPromela::prepare not found')
    body = pml[pm.end():]
    a = re.search(r'->\s*analyze\s*\(\s*_machinesNested\s*\[', body)
    p = re.search(r'_machinesNested\s*\[\s*\w+\s*\]\s*->\s*_prefix\s*=', body)
    if not a:
        raise RuntimeError('analysis of the nested machine not found in ChartToPromela::prepare')
    facts['pml_analyze_before_prefix'] = (p is None) or a.start() < p.start()
    fast = open(os.path.join(base, 'interpreter', 'FastMicroStep.cpp'), errors='replace').read()
    fast = strip_comments(fast)
    first_use = re.search(r'#\s*ifdef\s+WITH_CACHE_FILES', fast)
    undef = re.search(r'#\s*undef\s+WITH_CACHE_FILES', fast)
    facts['fast_cache_compiled'] = bool(first_use) and not (undef and undef.start() < first_use.start())
    impl = strip_comments(open(os.path.join(base, 'interpreter', 'InterpreterImpl.cpp'), errors='replace').read())
    if not re.search(r'\.uscxml\.cache', open(os.path.join(base, 'interpreter', 'InterpreterImpl.cpp'), errors='replace').read()):
        raise RuntimeError('cache file handling not found in InterpreterImpl.cpp')
    facts['cache_md5_guard_present'] = re.search(r'\[\s*\]\s*\.atom\s*!=\s*_md5\s*\)\s*\{[^}]*_cache\s*\.\s*clear\s*\(', impl) is not None or \
        re.search(r'\.atom\s*!=\s*_md5\s*\)\s*\{[^}]*_cache\s*\.\s*clear\s*\(', impl) is not None
    c = srcs.get('transform/ChartToC.cpp')
    ctor = re.search(r'ChartToC::ChartToC\s*\([^)]*\)[^{]*\{', c)
    if not ctor:
        raise RuntimeError('ChartToC constructor not found')
    cbody = c[ctor.end():ctor.end() + 1500]
    if not re.search(r'_md5\s*=\s*md5\s*\(', cbody):
        raise RuntimeError('md5 of the document not found in the ChartToC constructor')
    facts['c_md5_of_serialised_doc'] = re.search(r'<<\s*\*\s*_document\b', cbody) is not None
    entries.sort(key=lambda e: (e['kind'], e['file'], e['symbol']))
    meta = {'entries': ['%s %s %s::%s x%d%s%s' % (e['kind'], e['file'], e['class'], e['symbol'], e['uses'],
                                                    ' guarded' if e['guarded'] else '', '' if e['live'] else ' dead-code') for e in entries],
            'facts': facts}
    return render(entries, facts, True, 'source read successfully'), meta


def fallback(err):
    e = {'kind': 'Unreadable', 'file': '?', 'line': 0, 'class': '', 'symbol': '?', 'uses': 0, 'lines': '', 'guarded': False, 'live': True}
    return render([e], {}, False, 'FALLBACK: the source could not be read (%s); the inventory holds one unaccounted entry, so inventory_accounted fails' % err.replace('*)', '* )')), {'error': err}


if __name__ == '__main__':
    import sys, json
    text, meta = translate(sys.argv[1] if len(sys.argv) > 1 else '/repo')
    print(text)
    print(json.dumps(meta, indent=1), file=sys.stderr)
    # self-test on the pinned tree
    if len(sys.argv) <= 1:
        assert any('_machinesAll' in x for x in meta['entries']) and any('_document' in x for x in meta['entries'])
        assert any('PtrOrdered' in x and 'Trie' in x for x in meta['entries'])
        assert any('escapeMacro' in x for x in meta['entries']) and any('getUUID' in x and 'guarded' in x for x in meta['entries'])
