"""pml_probe.py -- C17: shared by tr_pmlprec.py / tr_pmleval.py / props/c17.py.
Probes of the *compiled* Promela parser and evaluator through vdriver (pml-ast / pml-eval), and the
readings of promela.ypp and PromelaDataModel.cpp they are cross-checked against."""
import os, re, subprocess, sys

BINOPS = ['PML_OR', 'PML_AND', 'PML_BITOR', 'PML_BITXOR', 'PML_BITAND', 'PML_EQ', 'PML_NE', 'PML_GT', 'PML_LT',
          'PML_GE', 'PML_LE', 'PML_LSHIFT', 'PML_RSHIFT', 'PML_PLUS', 'PML_MINUS', 'PML_TIMES', 'PML_DIVIDE',
          'PML_MODULO']
SYM = {'PML_OR': '||', 'PML_AND': '&&', 'PML_BITOR': '|', 'PML_BITXOR': '^', 'PML_BITAND': '&', 'PML_EQ': '==',
       'PML_NE': '!=', 'PML_GT': '>', 'PML_LT': '<', 'PML_GE': '>=', 'PML_LE': '<=', 'PML_LSHIFT': '<<',
       'PML_RSHIFT': '>>', 'PML_PLUS': '+', 'PML_MINUS': '-', 'PML_TIMES': '*', 'PML_DIVIDE': '/', 'PML_MODULO': '%'}
DESC = {o: o[4:] for o in BINOPS}      # PromelaParserNode::typeToDesc
C_LEVEL = {'PML_OR': 1, 'PML_AND': 2, 'PML_BITOR': 3, 'PML_BITXOR': 4, 'PML_BITAND': 5, 'PML_EQ': 6, 'PML_NE': 6,
           'PML_GT': 7, 'PML_LT': 7, 'PML_GE': 7, 'PML_LE': 7, 'PML_LSHIFT': 8, 'PML_RSHIFT': 8, 'PML_PLUS': 9,
           'PML_MINUS': 9, 'PML_TIMES': 10, 'PML_DIVIDE': 10, 'PML_MODULO': 10}
PINNED_LEVEL = {'PML_OR': 1, 'PML_AND': 1, 'PML_BITOR': 2, 'PML_BITXOR': 2, 'PML_BITAND': 2, 'PML_EQ': 3, 'PML_NE': 3,
                'PML_GT': 4, 'PML_LT': 4, 'PML_GE': 4, 'PML_LE': 4, 'PML_LSHIFT': 5, 'PML_RSHIFT': 5, 'PML_PLUS': 6,
                'PML_MINUS': 6, 'PML_TIMES': 7, 'PML_DIVIDE': 7, 'PML_MODULO': 7}
PDM = '/src/uscxml/plugins/datamodel/promela/'

_cache = {}


def hx(s):
    return s.encode('latin-1').hex() if s else '-'


def _vlib():
    sys.path.insert(0, os.path.dirname(os.path.dirname(os.path.abspath(__file__))))
    import vlib
    return vlib


def run(lines):
    vlib = _vlib()
    exe = vlib.ensure_vdriver('hooks', units=['vd_pml'])
    rc, out, err = vlib.run_lines(exe, lines, timeout=600)
    if len(out) < len(lines):
        raise RuntimeError('vdriver died during the Promela probes: rc=%s %s' % (rc, err[-300:]))
    return out[:len(lines)]


def sexp(s):
    """parse `E(PLUS (CONST 1) ...)` -> (kind, tree) with tree = [type, value|None, children]"""
    kind, s = s[0], s[1:]
    pos = [0]

    def node():
        assert s[pos[0]] == '('
        pos[0] += 1
        j = pos[0]
        while s[j] not in ' ()':
            j += 1
        ty = s[pos[0]:j]
        pos[0] = j
        val = None
        kids = []
        while s[pos[0]] != ')':
            if s[pos[0]] == ' ':
                pos[0] += 1
            elif s[pos[0]] == '(':
                kids.append(node())
            else:
                j = pos[0]
                while s[j] not in ' ()':
                    j += 1
                val = s[pos[0]:j]
                pos[0] = j
        pos[0] += 1
        return [ty, val, kids]
    return kind, node()


def probe_parser():
    """returns dict: pair[(o1,o2)] = True iff `1 o1 2 o2 3` groups to the left; neg[o] / umin[o] = True iff
    `! 1 o 2` / `- 1 o 2` is parsed as the unary operator applied to (1 o 2)"""
    if 'parser' in _cache:
        return _cache['parser']
    lines, keys = [], []
    for a in BINOPS:
        for b in BINOPS:
            lines.append('pml-ast ' + hx('1 %s 2 %s 3' % (SYM[a], SYM[b])))
            keys.append(('pair', a, b))
    for o in BINOPS:
        lines.append('pml-ast ' + hx('! 1 %s 2' % SYM[o]))
        keys.append(('neg', o))
        lines.append('pml-ast ' + hx('- 1 %s 2' % SYM[o]))
        keys.append(('umin', o))
    out = run(lines)
    res = {'pair': {}, 'neg': {}, 'umin': {}, 'odd': []}
    for k, l in zip(keys, out):
        try:
            kind, t = sexp(l)
        except Exception:
            res['odd'].append((k, l))
            continue
        if k[0] == 'pair':
            _, a, b = k
            if t[0] == DESC[b] and len(t[2]) == 2 and t[2][0][0] == DESC[a] and t[2][1][0] == 'CONST':
                res['pair'][(a, b)] = True
            elif t[0] == DESC[a] and len(t[2]) == 2 and t[2][1][0] == DESC[b] and t[2][0][0] == 'CONST':
                res['pair'][(a, b)] = False
            else:
                res['odd'].append((k, l))
        else:
            o = k[1]
            un = 'NEG' if k[0] == 'neg' else 'MINUS'
            if t[0] == un and len(t[2]) == 1 and t[2][0][0] == DESC[o]:
                res[k[0]][o] = True
            elif t[0] == DESC[o] and len(t[2]) == 2 and t[2][0][0] == un and len(t[2][0][2]) == 1:
                res[k[0]][o] = False
            else:
                res['odd'].append((k, l))
    _cache['parser'] = res
    return res


def table_from_probe(pr):
    """dense levels (1 = lowest) and associativity from the pair matrix; unary levels from the absorb sets.
    Returns (level, rassoc, neg_level, umin_level, problems)"""
    problems = []
    if pr['odd'] or len(pr['pair']) != len(BINOPS) ** 2:
        problems.append('unreadable AST dumps: %s' % pr['odd'][:3])
        return None, None, None, None, problems
    P = pr['pair']
    # o1 binds tighter than o2 iff both orders group around o1
    tighter = lambda a, b: P[(a, b)] and not P[(b, a)]
    rank = {o: sum(1 for x in BINOPS if tighter(o, x)) for o in BINOPS}
    ranks = sorted(set(rank.values()))
    level = {o: ranks.index(rank[o]) + 1 for o in BINOPS}
    rassoc = {o: (not P[(o, o)]) for o in BINOPS}

    def unary_level(absorbs):
        non = [level[o] for o in BINOPS if not absorbs[o]]
        return max(non) if non else 0
    neg = unary_level(pr['neg']) if len(pr['neg']) == len(BINOPS) else None
    umin = unary_level(pr['umin']) if len(pr['umin']) == len(BINOPS) else None
    # does the table reproduce the probes?
    for a in BINOPS:
        for b in BINOPS:
            left = True if level[b] < level[a] else False if level[a] < level[b] else (not rassoc[b])
            if left != P[(a, b)]:
                problems.append('pair %s %s not table-like' % (a, b))
    for nm, lv in (('neg', neg), ('umin', umin)):
        if lv is None:
            problems.append('unary probes of %s unreadable' % nm)
            continue
        for o in BINOPS:
            if (lv < level[o]) != pr[nm][o]:
                problems.append('unary %s vs %s not table-like' % (nm, o))
    return level, rassoc, neg, umin, problems


def table_from_ypp(repo):
    """levels from the %left/%right lines of promela.ypp and the %prec of the unary minus production"""
    src = open(repo + PDM + 'parser/promela.ypp').read()
    lv = 0
    tok = {}
    for m in re.finditer(r'^%(left|right|nonassoc)\s+(.*)$', src, flags=re.M):
        lv += 1
        for t in m.group(2).split():
            tok[t] = (lv, m.group(1))
    used = sorted(set(tok[o][0] for o in BINOPS if o in tok))
    level = {o: used.index(tok[o][0]) + 1 for o in BINOPS if o in tok}
    rassoc = {o: tok[o][1] == 'right' for o in BINOPS if o in tok}

    def dense(raw):   # number of used binary levels <= raw
        return len([u for u in used if u <= raw])
    m = re.search(r'\|\s*PML_MINUS\s+expr\s*(%prec\s+(\w+))?', src)
    um = tok.get(m.group(2) if m and m.group(2) else 'PML_MINUS', (0, ''))[0]
    neg = tok.get('PML_NEG', (0, ''))[0]
    return level, rassoc, dense(neg), dense(um)


EVAL_WITNESSES = [
    # name, items, how to read the answer
    ('uminus', ['d:int a = 3', 'x:- a']),
    ('div', ['x:7 / 0']),
    ('mod', ['x:7 % 0']),
    ('index', ['d:int a[2]', 'x:a[0 - 1]']),
    ('shortc', ['x:0 && zz[0]']),
    ('shortc_or', ['x:1 || zz[0]']),
    ('meta', ['d:int x', 's:x.type = 3', 's:x.f = 4', 'x:x.type']),
    ('undecl', ['x:zz']),
    ('order', ['x:10 - 3']),
]


def item(s):
    k, t = s.split(':', 1)
    return k + ':' + hx(t)


def probe_eval():
    """one application of every operator and the witnesses of the defect switches"""
    if 'eval' in _cache:
        return _cache['eval']
    lines = ['pml-eval ' + item('x:6 %s 3' % SYM[o]) for o in BINOPS]
    lines += ['pml-eval ' + ' '.join(item(i) for i in its) for _, its in EVAL_WITNESSES]
    out = run(lines)
    handles = {}
    for o, l in zip(BINOPS, out):
        handles[o] = l.startswith('V')
    w = {n: l.split()[-1] if l.split() else '' for (n, _), l in zip(EVAL_WITNESSES, out[len(BINOPS):])}
    bad = lambda t: t.startswith('CRASH') or t in ('EXC', 'TIMEOUT')
    vec = {
        'uminus_crash': bad(w['uminus']),
        'div_unguarded': bad(w['div']) or bad(w['mod']),
        'index_unguarded': bad(w['index']),
        'no_short_circuit': not (w['shortc'] == 'Vi:0' and w['shortc_or'] == 'Vi:1'),
        'field_meta_clobber': w['meta'] != 'Vi:3',
        'undeclared_false': w['undecl'] != 'ERR',
        'ord_rtl': w['order'] == 'Vi:-7',
    }
    res = {'handles': handles, 'witness': w, 'vector': vec, 'ops_raw': dict(zip(BINOPS, out))}
    _cache['eval'] = res
    return res


def read_evaluator_source(repo):
    """the `case PML_*:` labels of PromelaDataModel::evaluateExpr and whether DIVIDE/MODULO look at the divisor"""
    src = open(repo + PDM + 'PromelaDataModel.cpp').read()
    m = re.search(r'Data PromelaDataModel::evaluateExpr\(void\* ast\) \{', src)
    if not m:
        raise RuntimeError('PromelaDataModel::evaluateExpr(void*) not found')
    i, depth = m.end(), 1
    while depth > 0 and i < len(src):
        depth += {'{': 1, '}': -1}.get(src[i], 0)
        i += 1
    body = re.sub(r'//.*', '', src[m.end():i])
    body = re.sub(r'#if 0.*?#endif', '', body, flags=re.S)
    labels = re.findall(r'case\s+(PML_\w+)\s*:', body)

    def case_body(lab):
        # the text up to the next label; an empty one falls through to the next case
        pos = 0
        mm = re.search(r'case\s+' + lab + r'\s*:', body)
        if not mm:
            return ''
        pos = mm.end()
        while True:
            nx = re.compile(r'case\s+PML_\w+\s*:|default\s*:').search(body, pos)
            txt = body[pos:nx.start()] if nx else body[pos:]
            if txt.strip() or not nx:
                return txt
            pos = nx.end()
    guarded = all(re.search(r'==\s*0|!=\s*0|ERROR_EXECUTION_THROW|divisor|zero', case_body(l)) is not None
                  for l in ('PML_DIVIDE', 'PML_MODULO'))
    unary = re.search(r'operands\.size\(\)', case_body('PML_MINUS')) is not None
    return {'labels': labels, 'div_guarded': guarded, 'uminus_handled': unary}
