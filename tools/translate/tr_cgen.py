"""tr_cgen.py -- GenCGen.v: the table-like parts of the ANSI-C generator (src/uscxml/transform/ChartToC.cpp),
regenerated from the working tree on every run:
  * the values of the macros ChartToC::writeMacros writes (USCXML_STATE_*, USCXML_TRANS_*, USCXML_CTX_*,
    USCXML_ERR_*) -- the string literals of the template, not a header;
  * the shape of the sizing code: does prepare() compute the byte-array sizes as ceil((float)n / (float)8),
    does uscxml_step() compute its byte counts as ((n + 7) & ~7) >> 3, the thresholds of the index types;
  * the three places where the template is known to be defective, as read from the text (cg_source): the check
    compares this vector with the one it observes on witness charts.
Lemmas about these definitions are in CGenLemmas.v (kinds fit under the mask, flags pairwise disjoint, same values
as the engines), so a change of the template that breaks one of them breaks the build at that lemma."""
import re

OUTPUT = 'GenCGen.v'

KINDS = ['STATE_ATOMIC', 'STATE_PARALLEL', 'STATE_COMPOUND', 'STATE_FINAL', 'STATE_HISTORY_DEEP', 'STATE_HISTORY_SHALLOW',
         'STATE_INITIAL', 'STATE_HAS_HISTORY']
TRANS = ['TRANS_SPONTANEOUS', 'TRANS_TARGETLESS', 'TRANS_INTERNAL', 'TRANS_HISTORY', 'TRANS_INITIAL']
CTX = ['CTX_PRISTINE', 'CTX_SPONTANEOUS', 'CTX_INITIALIZED', 'CTX_TOP_LEVEL_FINAL', 'CTX_TRANSITION_FOUND', 'CTX_FINISHED']
ERR = ['ERR_OK', 'ERR_IDLE', 'ERR_DONE']


def _emitted_text(src):
    """the C text the template streams: concatenation of the string literals of `stream << "..."` lines"""
    out = []
    for m in re.finditer(r'stream\s*<<\s*"((?:[^"\\]|\\.)*)"', src):
        out.append(m.group(1).replace('\\"', '"').replace('\\\\', '\\'))
    return '\n'.join(out)


def translate(repo):
    src = open(repo + '/src/uscxml/transform/ChartToC.cpp').read()
    text = _emitted_text(src)
    vals = {}
    for m in re.finditer(r'#define USCXML_(\w+)\s+(0[xX][0-9a-fA-F]+|\d+)\b', text):
        vals.setdefault(m.group(1), int(m.group(2), 0))
    missing = [n for n in KINDS + TRANS + CTX + ERR if n not in vals]
    if missing:
        raise ValueError('macros not found in the template: %s' % ', '.join(missing))
    mask = re.search(r'#define USCXML_STATE_MASK\(t\)\s+\(t & (0[xX][0-9a-fA-F]+)\)', text)
    if not mask:
        raise ValueError('USCXML_STATE_MASK not found')
    nows = re.sub(r'\s+', '', src)
    sizing_float = ('_stateCharArraySize=ceil((float)largestStateSpace/(float)8);' in nows and
                    '_transCharArraySize=ceil((float)largestTransSpace/(float)8);' in nows)
    sizing_int = bool(re.search(r'_stateCharArraySize=\(largestStateSpace\+7\)/8;', nows))
    if not (sizing_float or sizing_int):
        raise ValueError('byte-array sizing expression not recognised')
    step_bytes = ('nr_states_bytes = ((USCXML_NUMBER_STATES + 7) & ~7) >> 3;' in text and
                  'nr_trans_bytes  = ((USCXML_NUMBER_TRANS + 7) & ~7) >> 3;' in text)
    if not step_bytes:
        raise ValueError('nr_states_bytes / nr_trans_bytes expression not recognised')
    thr = re.findall(r'largestStateSpace<\(1UL<<(\d+)\)\)\{_stateDataType="(uint\d+_t)";', nows)
    if [t for t, _ in thr] != ['8', '16', '32'] or [n for _, n in thr] != ['uint8_t', 'uint16_t', 'uint32_t']:
        raise ValueError('index type thresholds not recognised: %r' % thr)
    max1 = '(std::max)((size_t)1,_stateCharArraySize)' in nows and '(std::max)((size_t)1,_transCharArraySize)' in nows
    if not max1:
        raise ValueError('USCXML_MAX_NR_*_BYTES definition not recognised')
    counter = '(_states.size()>_transitions.size()?"USCXML_NR_STATES_TYPE":"USCXML_NR_TRANS_TYPE")<<"i,j,k;"' in nows
    if not counter:
        raise ValueError('declaration of i, j, k not recognised')
    # defect sites
    hist_active = '!BIT_HAS(USCXML_GET_STATE(i).parent, ctx->config)) {' in text
    tlf_byte = 'USCXML_GET_STATE(i).ancestors[0] == 0x01' in text
    m = re.search(r'void ChartToC::setHistoryCompletion\(\)\s*\{(.*?)\n\}', src, flags=re.S)
    if not m:
        raise ValueError('ChartToC::setHistoryCompletion not found')
    covering = bool(re.search(r'isMember\(state,\s*covered\)', m.group(1)))
    cover_outer = covering and not re.search(r'histories\.reverse\(\)', m.group(1))
    cover_mode = 0 if not covering else (1 if cover_outer else 2)
    exit_cleared = bool(re.search(r'bit_clear_all\(target_set, nr_states_bytes\);\s*\n\s*bit_clear_all\(exit_set, nr_states_bytes\);', text))
    meta = {'macros': {k: vals[k] for k in KINDS + TRANS + CTX + ERR}, 'mask': int(mask.group(1), 0), 'sizing_float': sizing_float,
            'cg_source': {'history_of_active_parent': hist_active, 'top_level_final_first_byte': tlf_byte, 'history_cover_outer_first': cover_outer}, 'history_cover_mode': cover_mode,
            'exit_set_cleared_before_first_use': exit_cleared}
    return render(vals, int(mask.group(1), 0), sizing_float, hist_active, tlf_byte, cover_outer, exit_cleared, 'source read successfully', cover_mode), meta


def render(vals, mask, sizing_float, hist_active, tlf_byte, cover_outer, exit_cleared, note, cover_mode=1):
    b = lambda x: 'true' if x else 'false'
    L = ['(* GenCGen.v -- GENERATED by tools/translate/tr_cgen.py from src/uscxml/transform/ChartToC.cpp.  Do not edit. *)',
         '(* %s *)' % note,
         'From Coq Require Import List NArith Bool.',
         'Import ListNotations.',
         'Local Open Scope N_scope.',
         '']
    for n in KINDS + TRANS + CTX + ERR:
        L.append('Definition CG_%s : N := %d.' % (n, vals.get(n, 0)))
    L.append('Definition CG_STATE_MASK_BITS : N := %d.' % mask)
    L.append('Definition cg_state_kinds : list N := [%s].' % '; '.join(str(vals.get(n, 0)) for n in KINDS[:-1]))
    L.append('Definition cg_trans_flags : list N := [%s].' % '; '.join(str(vals.get(n, 0)) for n in TRANS))
    L.append('Definition cg_ctx_flags : list N := [%s].' % '; '.join(str(vals.get(n, 0)) for n in CTX[1:]))
    L.append('(* prepare(): _stateCharArraySize = ceil((float)n / (float)8) (true) or (n + 7) / 8 (false) *)')
    L.append('Definition cg_sizing_float : bool := %s.' % b(sizing_float))
    L.append('(* the defect sites of the template as read from the source text *)')
    L.append('Definition cg_src_hist_active_parent : bool := %s.' % b(hist_active))
    L.append('Definition cg_src_tlf_first_byte : bool := %s.' % b(tlf_byte))
    L.append('Definition cg_src_cover_outer_first : bool := %s.' % b(cover_outer))
    L.append('(* setHistoryCompletion: 0 = no covering, 1 = covering with outer histories first, 2 = covering with inner histories first *)')
    L.append('Definition cg_src_cover_mode : N := %d.' % cover_mode)
    L.append('Definition cg_src_exit_set_cleared : bool := %s.' % b(exit_cleared))
    L.append('')
    return '\n'.join(L)


def fallback(err):
    # values that make every lemma about the macros fail: the obligation is reported as unchecked
    vals = {n: 0 for n in KINDS + TRANS + CTX + ERR}
    return render(vals, 0, True, True, True, True, False, 'TRANSLATOR FAILED: %s' % err.replace('*)', '* )')), {'error': err}


if __name__ == '__main__':
    import sys
    t, m = translate(sys.argv[1] if len(sys.argv) > 1 else '/repo')
    print(t)
    print(m)
