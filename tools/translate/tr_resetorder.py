"""tr_resetorder.py -- C10: the order in which InterpreterImpl::reset() empties its three event stores, regenerated
from src/uscxml/interpreter/InterpreterImpl.cpp.

ResetRace.v models reset() as a sequence of sub-steps racing the timer thread; which sub-step comes first decides
whether a delayed <send> of the previous life can leave a stale event behind (the timers must be cancelled BEFORE the
queues are emptied).  The order is not hand-written in the model: this extractor reads, from the body of
`void InterpreterImpl::reset()`, the textual order of the statements

    _delayQueue.reset();      -> ResetDelay
    _externalQueue.reset();   -> ResetExternal
    _internalQueue.reset();   -> ResetInternal

each optionally guarded by `if (_x)` with or without braces, at any block depth of the function body (comments and
string literals removed first).  It also reads the variant switch of the model:

    reset_locks_targets = true   iff a lock on _delayMutex is taken and `_delayedEventTargets.clear()` is executed
                                 before the first `_delayQueue.reset()`, and that lock's block is still open there
                                 (patches/C10-reset-inflight-callback.diff)

Anything else that calls reset()/cancelAllDelayed()/clear() on one of the three members inside the function (e.g.
through `->`, a differently named call) is not recognised and makes the translation FAIL (fallback: empty order,
reset_order_source_ok = false, so that ResetRaceLemmas.gen_reset_order_ok does not compile).

Output: coq/gen/GenResetOrder.v (the type reset_part and the definitions; the lemmas about them are in
theories/ResetRaceLemmas.v)."""
import re

OUTPUT = 'GenResetOrder.v'
SOURCE = 'src/uscxml/interpreter/InterpreterImpl.cpp'

PARTS = [('_delayQueue', 'ResetDelay'), ('_externalQueue', 'ResetExternal'), ('_internalQueue', 'ResetInternal')]


def strip_comments(src):
    def repl(m):
        s = m.group(0)
        if s.startswith('/'):
            return re.sub(r'[^\n]', ' ', s)      # keep offsets and line numbers
        return '""' + ' ' * (len(s) - 2) if s.startswith('"') else s
    return re.sub(r'//[^\n]*|/\*.*?\*/|"(?:\\.|[^"\\])*"|\'(?:\\.|[^\'\\])*\'', repl, src, flags=re.S)


def reset_body(src):
    ms = list(re.finditer(r'\bvoid\s+InterpreterImpl::reset\s*\(\s*(?:void)?\s*\)\s*\{', src))
    if len(ms) != 1:
        raise RuntimeError('void InterpreterImpl::reset() found %d times in %s' % (len(ms), SOURCE))
    m = ms[0]
    i = m.end()
    depth = 1
    while i < len(src) and depth:
        if src[i] == '{':
            depth += 1
        elif src[i] == '}':
            depth -= 1
        i += 1
    if depth:
        raise RuntimeError('InterpreterImpl::reset(): unbalanced braces')
    return src[m.end():i - 1], src.count('\n', 0, m.start()) + 1


def analyse(body):
    """-> (list of (offset, part), locks_targets)"""
    found = []
    for member, part in PARTS:
        # every mention of the member must be one of: `if (_x)`, `if (_x) {`, `_x.reset();`
        for m in re.finditer(r'(?<![\w.>])%s\b' % re.escape(member), body):
            rest = body[m.end():]
            before = body[:m.start()]
            if re.match(r'\s*\.\s*reset\s*\(\s*\)\s*;', rest):
                found.append((m.start(), part))
            elif re.search(r'\bif\s*\(\s*$', before) and re.match(r'\s*\)', rest):
                pass                                    # the guard `if (_x)`
            else:
                line = body[body.rfind('\n', 0, m.start()) + 1:].split('\n')[0].strip()
                raise RuntimeError('InterpreterImpl::reset(): use of %s not recognised: %r' % (member, line))
    found.sort()
    # a call in a loop or behind a condition other than its own guard would not be "once, in this order"
    for off, part in found:
        member = [mb for mb, p in PARTS if p == part][0]
        stmt_start = max(body.rfind(';', 0, off), body.rfind('{', 0, off), body.rfind('}', 0, off)) + 1
        lead = body[stmt_start:off].strip()
        if lead and not re.fullmatch(r'if\s*\(\s*%s\s*\)\s*' % re.escape(member), lead + ' '):
            raise RuntimeError('InterpreterImpl::reset(): %s.reset() is guarded by something else: %r' % (member, lead))
    if re.search(r'\b(for|while|do|goto|return|switch|try|catch)\b', body):
        raise RuntimeError('InterpreterImpl::reset(): control flow (loop/return/try) not recognised')
    # every `if` must be the guard of a single member (if (_x)): another condition could skip a part
    for m in re.finditer(r'\bif\s*\(([^()]*)\)', body):
        if m.group(1).strip() not in ('_delayQueue', '_externalQueue', '_internalQueue', '_microStepper'):
            raise RuntimeError('InterpreterImpl::reset(): condition not recognised: if (%s)' % m.group(1).strip())
    if re.search(r'\belse\b', body):
        raise RuntimeError('InterpreterImpl::reset(): else branch not recognised')
    # the guard of a part must be its own member
    for off, part in found:
        member = [mb for mb, p in PARTS if p == part][0]
        pre = body[:off]
        g = re.search(r'\bif\s*\(\s*(\w+)\s*\)\s*\{?\s*$', pre)
        if g and g.group(1) != member:
            raise RuntimeError('InterpreterImpl::reset(): %s.reset() guarded by if (%s)' % (member, g.group(1)))

    # variant: lock on _delayMutex + _delayedEventTargets.clear() before the first _delayQueue.reset(), lock still in scope
    locks = False
    delays = [off for off, part in found if part == 'ResetDelay']
    if delays:
        first = delays[0]
        lk = re.search(r'(?:std\s*::\s*)?(?:lock_guard|unique_lock|scoped_lock)\s*<[^;{}]*>\s*\w+\s*[\(\{]\s*_delayMutex\s*[\)\}]\s*;', body[:first])
        cl = re.search(r'(?<![\w.>])_delayedEventTargets\s*\.\s*clear\s*\(\s*\)\s*;', body[:first])
        if lk and cl and lk.start() < cl.start():
            # the block that contains the lock must not be closed before the call
            depth = 0
            open_ = True
            for ch in body[lk.end():first]:
                if ch == '{':
                    depth += 1
                elif ch == '}':
                    depth -= 1
                    if depth < 0:
                        open_ = False
                        break
            locks = open_
    if re.search(r'_delayedEventTargets', body) and not locks:
        raise RuntimeError('InterpreterImpl::reset(): use of _delayedEventTargets not recognised (expected: lock on _delayMutex, '
                           '_delayedEventTargets.clear(), then _delayQueue.reset() inside the same block)')
    return found, locks


def render(order, locks, ok, note, line=0):
    lines = ['(* GenResetOrder.v -- GENERATED by tools/translate/tr_resetorder.py from %s of the' % SOURCE,
             '   working tree; do not edit.  The order in which InterpreterImpl::reset()%s calls' % ((' (line %d)' % line) if line else ''),
             '   _delayQueue.reset() / _externalQueue.reset() / _internalQueue.reset(), and whether it takes _delayMutex and',
             '   clears _delayedEventTargets before cancelling the timers.',
             '   %s *)' % note,
             'From Coq Require Import List Bool.',
             'Import ListNotations.',
             '',
             'Inductive reset_part := ResetDelay | ResetExternal | ResetInternal.',
             '',
             'Definition reset_order_source_ok : bool := %s.' % ('true' if ok else 'false'),
             '',
             'Definition reset_order : list reset_part := [%s].' % '; '.join(order),
             '',
             'Definition reset_locks_targets : bool := %s.' % ('true' if locks else 'false'),
             '']
    return '\n'.join(lines)


def translate(repo):
    src = strip_comments(open(repo + '/' + SOURCE).read())
    body, line = reset_body(src)
    found, locks = analyse(body)
    order = [p for _, p in found]
    meta = {'order': order, 'locks_targets': locks, 'line': line,
            'each_part_once': sorted(order) == sorted(p for _, p in PARTS)}
    return render(order, locks, True, 'source read successfully', line), meta


def fallback(err):
    return render([], False, False,
                  'FALLBACK: InterpreterImpl::reset() could not be read (%s); gen_reset_order_ok fails' % err.replace('*)', '* )')), {'error': err}


def _selftest():
    """the recogniser on spellings it must accept / reject (run by __main__)"""
    head = 'if (_microStepper)\n\t\t_microStepper.reset();\n\t_isInitialized = false;\n\t_state = USCXML_INSTANTIATED;\n'
    ok = [
        (head + 'if (_delayQueue)\n _delayQueue.reset();\n if (_externalQueue)\n _externalQueue.reset();\n if (_internalQueue)\n _internalQueue.reset();\n',
         ['ResetDelay', 'ResetExternal', 'ResetInternal'], False),
        (head + 'if (_delayQueue) { _delayQueue.reset(); }\n if (_externalQueue) {\n _externalQueue.reset();\n }\n _internalQueue.reset();\n',
         ['ResetDelay', 'ResetExternal', 'ResetInternal'], False),
        (head + 'if (_internalQueue) _internalQueue.reset(); if (_externalQueue) _externalQueue.reset(); if (_delayQueue) _delayQueue.reset();',
         ['ResetInternal', 'ResetExternal', 'ResetDelay'], False),
        (head + '{ std::lock_guard<std::recursive_mutex> lock(_delayMutex);\n _delayedEventTargets.clear();\n if (_delayQueue)\n _delayQueue.reset();\n }\n'
                '_externalQueue.reset(); _internalQueue.reset();', ['ResetDelay', 'ResetExternal', 'ResetInternal'], True),
        (head + '_externalQueue.reset(); _delayQueue.reset();', ['ResetExternal', 'ResetDelay'], False),
    ]
    bad = [
        head + 'if (_delayQueue) _delayQueue.cancelAllDelayed(); _externalQueue.reset(); _internalQueue.reset();',
        head + 'if (fast) _delayQueue.reset(); _externalQueue.reset(); _internalQueue.reset();',
        head + 'for (int i = 0; i < 2; i++) _delayQueue.reset(); _externalQueue.reset(); _internalQueue.reset();',
        head + 'if (_externalQueue) _delayQueue.reset(); _externalQueue.reset(); _internalQueue.reset();',
        head + '{ std::lock_guard<std::recursive_mutex> lock(_delayMutex); _delayedEventTargets.clear(); }\n _delayQueue.reset(); _externalQueue.reset(); _internalQueue.reset();',
        head + 'if (_delayQueue) _delayQueue.reset(); else _externalQueue.reset(); _internalQueue.reset();',
    ]
    for body, order, locks in ok:
        f, l = analyse(body)
        assert [p for _, p in f] == order and l == locks, (body, f, l)
    for body in bad:
        try:
            analyse(body)
        except RuntimeError:
            continue
        raise AssertionError('accepted: %r' % body)


if __name__ == '__main__':
    import sys
    _selftest()
    text, meta = translate(sys.argv[1] if len(sys.argv) > 1 else '/repo')
    print(text)
    print(meta, file=sys.stderr)
    if len(sys.argv) <= 1:
        assert meta['order'] == ['ResetDelay', 'ResetExternal', 'ResetInternal'], 'self-test on the pinned tree: timers first'
