"""witnesses.py -- charts that distinguish the defect switches of the models and witnesses of the defects
found in the engines (each is a minimal failing input of a fix: commit or a known finding).
This is the chart corpus: it is run first by every chart-semantics check."""
import chartgen as G
N, T = G.node, G.trans

# D1: exit interval reaching past the domain's sub-tree: e inside region p must not exit region q
d1 = N('scxml', 0, [N('parallel', 1, [
    N('state', 2, [N('state', 3, trans=[T(101, b'go', None, [4])]),
                   N('state', 4, [N('state', 5, trans=[T(102, b'e', None, [6])]), N('state', 6)])]),
    N('state', 7, [N('state', 8), N('state', 9)], onentry=[[('raise', 110, b'n')]], onexit=[[('raise', 111, b'x')]])])])
# D2: a target-less transition must not exit <scxml>
d2 = N('scxml', 0, [N('state', 1, trans=[T(101, b'e', None, None, False, [('raise', 102, b'f')])])])
# D6: history of an active parent without a recorded value takes its default transition
d6 = N('scxml', 0, [N('state', 1, [N('hs', 9, trans=[T(103, None, None, [3])]),
                                   N('state', 2, trans=[T(101, b'e', None, [9])]), N('state', 3)])])
# F7: an error in an element nested in <if> still closes the <if>'s content bracket
f7 = N('scxml', 0, [N('state', 1, onentry=[[('if', 105, ('in', 1), [('sendbt', 106, b'q'), ('raise', 107, b'f')]), ('raise', 108, b'g')]])])

# FD: default transition of a deep history with several targets (into two regions of a <parallel>): the fast engine and the
# C / Promela templates closed the entry set upwards for the first target only (s7 entered without its parent s11); fixed
fdh = N('scxml', 0, [N('state', 1, [N('hd', 20, trans=[T(103, None, None, [4, 7])]),
                                    N('parallel', 2, [N('state', 3, [N('state', 10, [N('state', 4), N('state', 12)])]),
                                                      N('state', 6, [N('state', 13), N('state', 11, [N('state', 14), N('state', 7)])])])]),
                     N('state', 9, trans=[T(104, b'e', None, [20])])], init=[9])

# CDI: 'initial' attribute naming states in two regions of a <parallel>, two levels down: the generated C closed the entry set
# upwards for the first completion state only; fixed
cdi = N('scxml', 0, [N('state', 1, [N('parallel', 2, [N('state', 3, [N('state', 10, [N('state', 4), N('state', 12)])]),
                                                      N('state', 6, [N('state', 13), N('state', 11, [N('state', 14), N('state', 7)])])])], init=[4, 7]),
                     N('state', 9, trans=[T(104, b'e', None, [1])])], init=[9])

# RMI: <scxml initial="s3 s6"> naming states in two regions of a <parallel>: Appendix D enters the descendants of ALL targets
# first (Spec.v used to fold per target and entered s5 and s6; corrected), the engines enter {1,2,3,4,6}
rmi = N('scxml', 0, [N('parallel', 1, [N('state', 2, [N('state', 3)]), N('state', 4, [N('state', 5), N('state', 6)])])], init=[3, 6])

SWITCH_WITNESSES = [
    ('exit_interval_overreach', d1, [b'go', b'e']),
    ('targetless_exits_root', d2, [b'e']),
    ('history_of_active_parent', d6, [b'e']),
    ('if_bracket_left_open_on_nested_error', f7, []),
]

# D7: ancestor closure of several targets (legal multi-target into two regions, one deep)
d7 = N('scxml', 0, [N('state', 1, trans=[T(101, b'go', None, [6, 9])]),
                    N('parallel', 2, [N('state', 3, [N('state', 4), N('state', 5, [N('state', 10), N('state', 6)])]),
                                      N('state', 7, [N('state', 8), N('state', 9)])])], init=[1])
# FD3 (fast engine): initial attribute naming a grand-child
fd3 = N('scxml', 0, [N('state', 1, [N('state', 2, [N('state', 3), N('state', 4)])], init=[4])])
# D4: regions a{a1}, b{b1}: a1, b1 and b have transitions on e; both a1's and b1's are taken
d4 = N('scxml', 0, [N('parallel', 1, [
    N('state', 2, [N('state', 3, trans=[T(101, b'e', None, None, False, [('raise', 111, b'x')])])]),
    N('state', 4, [N('state', 5, trans=[T(102, b'e', None, None, False, [('raise', 112, b'y')])])],
      trans=[T(103, b'q', None, None)])])])
# D3: conflict bits must not survive a step: ee back ee back gg on two regions
d3 = N('scxml', 0, [N('parallel', 1, [
    N('state', 2, [N('state', 3, trans=[T(101, b'ee', None, [4]), T(105, b'gg', None, [4])]), N('state', 4, trans=[T(102, b'back', None, [3])])]),
    N('state', 5, [N('state', 6, trans=[T(103, b'ee', None, [1]), T(106, b'gg', None, [7])]), N('state', 7, trans=[T(104, b'back', None, [6])])])])])
# FD5 (fast engine): parallel done event
fd5 = N('scxml', 0, [N('parallel', 1, [N('state', 2, [N('final', 3)])])])

# K-HO: history values share one bit array: the shallow history of s7 records s8 when s7 is exited, and the deep
# history of the still active s6 takes that bit for its own value: s8 is entered without s7 (illegal configuration)
kho = N('scxml', 0, [N('state', 6, [N('hd', 10, trans=[T(102, None, None, [7])]),
                                    N('state', 7, [N('hs', 11, trans=[T(103, None, None, [8])]),
                                                   N('initial', 12, trans=[T(104, None, None, [8])]),
                                                   N('state', 8, trans=[T(504, b'e', None, [10])])])])])

# K-HT: a transition from s4 to the deep history s2 of its enclosing state s1 (default s4): Appendix D computes the
# domain s3 from the effective target and re-enters s3 without exiting it; the engines exit s3 as well
kht = N('scxml', 0, [N('state', 1, [N('hd', 2, trans=[T(102, None, None, [4])]),
                                    N('state', 3, [N('state', 4, trans=[T(101, b'e', None, [2])]), N('state', 5)],
                                      onentry=[[('raise', 110, b'n')]], onexit=[[('raise', 111, b'x')]])])])

# K2: region b has two enabled transitions; the first loses the conflict with region a's, the engine goes on to the second
k2 = N('scxml', 0, [N('parallel', 1, [N('state', 2, trans=[T(101, b'e', None, [4])]),
                                      N('state', 3, trans=[T(102, b'e', None, [4]), T(103, b'e', None, None, False, [('raise', 113, b'x')])])]),
                    N('state', 4)])

CORPUS = [
    ('d1-exit-interval', d1, [b'go', b'e'], 'null'),
    ('d2-targetless', d2, [b'e'], 'null'),
    ('d6-history-active-parent', d6, [b'e'], 'null'),
    ('f7-if-nested-error', f7, [], 'null'),
    ('d7-multi-target-closure', d7, [b'go'], 'null'),
    ('fd3-deep-initial', fd3, [], 'null'),
    ('d4-parallel-regions', d4, [b'e'], 'null'),
    ('d3-sticky-bits', d3, [b'ee', b'back', b'ee', b'back', b'gg'], 'null'),
    ('fd5-parallel-done', fd5, [], 'null'),
    ('k2-same-source', k2, [b'e'], 'null'),
    ('kho-history-overlap', kho, [b'e'], 'null'),
    ('kht-history-target-domain', kht, [b'e'], 'null'),
    ('fdh-deep-history-multi-target-default', fdh, [b'e'], 'null'),
    ('cdi-deep-initial-attribute-two-regions', cdi, [b'e'], 'null'),
    ('rmi-root-multi-target-initial', rmi, [], 'null'),
]
