"""c07_faults.py -- C07, second stream: document-level "construct x fault" matrix.

For every place where the interpreter evaluates an expression or executes content (SITES, COND_SITES, DATA_SITES,
INVOKE_SITES, DONEDATA_SITES, CHILD_INIT = <data> of an invoked session initialised from the invocation, the block kinds KINDS) and every fault kind of the datamodel (VAL / LOC / ...), a small
document is generated in which
  * a marker <raise event="pre"/> precedes the faulty element (must be processed: nothing is undone),
  * a marker <raise event="after"/> follows it in the same block (must NOT be processed: the rest of the block is skipped),
  * a marker <raise event="next"/> sits in the next block / the next state (must be processed: only that block is skipped),
  * a last external event z leads to a top-level <final> (the interpreter is still alive: step() returns FINISHED).
The documents are interpreted by both engines through `c07run` (harness/vd_c07.cpp) in child processes.  The property
oracle `judge` looks at the answer only: no exception out of step(), no crash, no hang, exactly one error event of the
expected name, processed after `pre` and before `next`, the markers as above.  Every site also has a control document
(the same document with a well-formed expression) for which the oracle demands the opposite (no error event, `after`
processed): a template that cannot distinguish the two would make the stream vacuous.
"""
import json, os, subprocess, sys, threading, time

NS = 'xmlns="http://www.w3.org/2005/07/scxml" version="1.0"'
EXE = 'error.execution'
COM = 'error.communication'
ENGINES = ('large', 'fast')
BASE_KIND = 'onentry'


def esc(s):
    return s.replace('&', '&amp;').replace('<', '&lt;').replace('"', '&quot;')


# ------------------------------------------------------------------ fault kinds

# value expressions whose evaluation fails
VAL = {
    'lua': [('syntax', ')('), ('error-msg', 'error("x")'), ('error-nil', 'error()'), ('error-table', 'error({})'),
            ('nil-arith', 'nil + 1'), ('div-zero', '1//0')],
    'promela': [('syntax', ')('), ('div-zero', '1/0'), ('mod-zero', '1%0'), ('intmin-div', '(0-2147483647-1)/(0-1)'),
                ('intmin-mod', '(0-2147483647-1)%(0-1)'), ('index-range', 'Arr[5]')],
}
VAL_MORE = {   # thorough tier only
    'lua': [('mod-zero', '1%0'), ('concat-table', '({}..1)'), ('call-nil', 'nosuchfn()'), ('index-nil', 'nosuch.field'),
            ('error-bool', 'error(false)'), ('error-level', 'error("x",0)')],
    'promela': [('neg-index', 'Arr[0-1]'), ('nested-div', '1+(2/(1-1))')],
}
# location expressions that cannot be assigned to
LOC = {
    'lua': [('syntax', ')('), ('index-number', 'Var1.a.b'), ('nil-key', 'Arr[nil]'), ('error-nil', 'Arr[error()]'),
            ('error-table', 'Arr[error({})]'), ('system-var', '_event')],
    'promela': [('syntax', ')('), ('undeclared', 'Nosuch'), ('index-range', 'Arr[5]'), ('div-zero', 'Arr[1/0]'),
                ('system-var', '_event')],
}
TYPES = [('unsupported', 'nosuchtype')]
TARGETS = [('no-parent', '#_parent'), ('no-session', '#_scxml_nosuchsession'), ('no-invoker', '#_nosuchinvoke')]
SRC = [('missing-file', 'file:///nonexistent/c07-no-such-file.txt')]


def faults_of(table, dm, tier):
    if table == 'val':
        return VAL[dm] + (VAL_MORE[dm] if tier == 'thorough' else [])
    if table == 'nl':      # a namelist is split at white space
        return [(n, x.replace(' ', '')) for n, x in VAL[dm] + (VAL_MORE[dm] if tier == 'thorough' else [])]
    if table == 'stmt':    # <script>
        return [(n, x if n == 'syntax' else 'Var1 = ' + x) for n, x in VAL[dm] + (VAL_MORE[dm] if tier == 'thorough' else [])]
    if table == 'loc':
        return LOC[dm]
    if table == 'loc-foreach':   # <foreach> declares an item/index variable that does not exist (SCXML 4.6): not a fault
        return [f for f in LOC[dm] if f[0] != 'undeclared']
    if table == 'type':
        return TYPES
    if table == 'target':
        return TARGETS
    if table == 'src':
        return SRC
    raise ValueError(table)


# ------------------------------------------------------------------ sites

SCXML_TYPE = "'http://www.w3.org/TR/scxml/#SCXMLEventProcessor'"

# executable content: name, fault table, template, control value, expected error, extra markers that must not be seen
SITES = [
    ('assign-expr', 'val', '<assign location="Var1" expr="%s"/>', '1', EXE),
    ('assign-location', 'loc', '<assign location="%s" expr="1"/>', 'Var1', EXE),
    ('log-expr', 'val', '<log expr="%s"/>', '1', EXE),
    ('send-eventexpr', 'val', '<send eventexpr="%s"/>', "'x'", EXE),
    ('send-targetexpr', 'val', '<send event="x" targetexpr="%s"/>', "'#_internal'", EXE),
    ('send-typeexpr', 'val', '<send event="x" typeexpr="%s"/>', SCXML_TYPE, EXE),
    ('send-delayexpr', 'val', '<send event="x" delayexpr="%s"/>', "'1ms'", EXE),
    ('send-idlocation', 'loc', '<send event="x" idlocation="%s"/>', 'Str', EXE),
    ('send-namelist', 'nl', '<send event="x" namelist="%s"/>', 'Var1', EXE),
    ('send-param-expr', 'val', '<send event="x"><param name="p" expr="%s"/></send>', '1', EXE),
    ('send-param-location', 'val', '<send event="x"><param name="p" location="%s"/></send>', 'Var1', EXE),
    ('send-content-expr', 'val', '<send event="x"><content expr="%s"/></send>', '1', EXE),
    ('cancel-sendidexpr', 'val', '<cancel sendidexpr="%s"/>', "'nosuchid'", EXE),
    ('foreach-array', 'val', '<foreach array="%s" item="Var2"><raise event="body"/></foreach>', 'Arr', EXE),
    ('foreach-item', 'loc-foreach', '<foreach array="Arr" item="%s"><raise event="body"/></foreach>', 'Var2', EXE),
    ('foreach-index', 'loc-foreach', '<foreach array="Arr" item="Var2" index="%s"><raise event="body"/></foreach>', 'Var3', EXE),
    ('script', 'stmt', '<script>%s</script>', 'Var1 = 1', EXE),
    ('send-type', 'type', '<send event="x" type="%s"/>', 'scxml', EXE),
    ('send-undeliverable', 'target', '<send event="x" target="%s"/>', '#_internal', COM),
]
SITE = {s[0]: s for s in SITES}
# conditions: an error makes the condition false and raises error.execution; the block is not abandoned by the
# engines (Exec.v: is_true), the oracle does not judge what follows the <if> in the same block
COND_SITES = ['if-cond', 'elseif-cond', 'transition-cond-eventless', 'transition-cond-event']
DATA_SITES = ['data-expr', 'data-expr-late', 'data-src']
INVOKE_SITES = [
    ('invoke-typeexpr', 'val', '<invoke typeexpr="%s"><content>CHILD</content></invoke>', "'scxml'"),
    ('invoke-srcexpr', 'val', '<invoke type="scxml" srcexpr="%s"/>', None),
    ('invoke-namelist', 'nl', '<invoke type="scxml" namelist="%s"><content>CHILD</content></invoke>', 'Var1'),
    ('invoke-param-expr', 'val', '<invoke type="scxml"><param name="p" expr="%s"/><content>CHILD</content></invoke>', '1'),
    ('invoke-param-location', 'val', '<invoke type="scxml"><param name="p" location="%s"/><content>CHILD</content></invoke>', 'Var1'),
    ('invoke-content-expr', 'val', '<invoke type="scxml"><content expr="%s"/></invoke>', None),
    ('invoke-idlocation', 'loc', '<invoke type="scxml" idlocation="%s"><content>CHILD</content></invoke>', 'Str'),
    ('invoke-type', 'type', '<invoke type="%s"><content>CHILD</content></invoke>', 'scxml'),
]
DONEDATA_SITES = [
    ('donedata-param-expr', 'val', '<param name="p" expr="%s"/>', '1'),
    ('donedata-param-location', 'val', '<param name="p" location="%s"/>', 'Var1'),
    ('donedata-content-expr', 'val', '<content expr="%s"/>', '1'),
]
# where a block of executable content can stand
KINDS = ['onentry', 'onexit', 'transition', 'initial-transition', 'history-transition', 'finalize',
         'nested-if', 'nested-else', 'nested-foreach']


def child_idle(dm):
    return '<scxml %s datamodel="%s"><state id="c1"/></scxml>' % (NS, dm)


def child_sending(dm):
    return ('<scxml %s datamodel="%s"><state id="c1"><onentry><send target="#_parent" event="fromchild"/></onentry></state></scxml>'
            % (NS, dm))


def datamodel(dm, extra=''):
    if dm == 'lua':
        d = ('<data id="Var1" expr="0"/><data id="Var2" expr="0"/><data id="Var3" expr="0"/><data id="Str" expr="\'x\'"/>'
             '<data id="Arr" expr="{1,2}"/>')
    else:
        d = ('<data id="Var1" type="int" expr="0"/><data id="Var2" type="int" expr="0"/><data id="Var3" type="int" expr="0"/>'
             '<data id="Str" type="string" expr="\'x\'"/><data id="Arr" type="int[2]">[1,2]</data>')
    return '<datamodel>' + d + extra + '</datamodel>'


def wrap(dm, body, bare, late=False, extra_data='', top_script=''):
    """the document around the states of the test: datamodel, a state `top` that an event z leaves to a final state"""
    h = '<scxml %s datamodel="%s" name="m"%s>' % (NS, dm, ' binding="late"' if late else '')
    if bare:
        return h + datamodel(dm, extra_data) + top_script + body + '</scxml>'
    return (h + datamodel(dm, extra_data) + top_script + '<state id="top">' + body +
            '<transition event="z" target="fin"/></state><final id="fin"/></scxml>')


def mk(name, bare):
    return '' if bare else '<raise event="%s"/>' % name


def block_doc(dm, kind, elem, bare=False):
    """document with the element `elem` inside a block of the given kind; returns (xml, items)"""
    pre, after, nxt = mk('pre', bare), mk('after', bare), mk('next', bare)
    if kind == 'nested-if':
        content = pre + '<if cond="true">' + elem + after + '</if>' + after
    elif kind == 'nested-else':
        content = pre + '<if cond="false">' + after + '<else/>' + elem + after + '</if>' + after
    elif kind == 'nested-foreach':
        content = pre + '<foreach array="Arr" item="Var3">' + elem + after + '</foreach>' + after
    else:
        content = pre + elem + after
    nblock = ('<onentry>%s</onentry>' % nxt) if nxt else ''
    if kind in ('onentry', 'nested-if', 'nested-else', 'nested-foreach'):
        body = '<state id="s1"><onentry>%s</onentry>%s</state>' % (content, nblock)
        items = []
    elif kind == 'onexit':
        body = ('<state id="s1"><onexit>%s</onexit>%s<transition event="e" target="s2"/></state><state id="s2"/>'
                % (content, ('<onexit>%s</onexit>' % nxt) if nxt else ''))
        items = ['e']
    elif kind == 'transition':
        body = '<state id="s1"><transition event="e" target="s2">%s</transition></state><state id="s2">%s</state>' % (content, nblock)
        items = ['e']
    elif kind == 'initial-transition':
        body = '<state id="s1"><initial><transition target="s11">%s</transition></initial><state id="s11">%s</state></state>' % (content, nblock)
        items = []
    elif kind == 'history-transition':
        body = ('<state id="s0"><transition event="e" target="h"/></state><state id="s1"><history id="h"><transition target="s11">%s'
                '</transition></history><state id="s11">%s</state></state>' % (content, nblock))
        items = ['e']
    elif kind == 'finalize':
        body = ('<state id="s1"><invoke type="scxml" id="i1"><content>%s</content><finalize>%s</finalize></invoke>'
                '<transition event="fromchild" target="s2"/></state><state id="s2">%s</state>' % (child_sending(dm), content, nblock))
        items = ['~fromchild']
    else:
        raise ValueError(kind)
    return wrap(dm, body, bare), items + ([] if bare else ['z'])


def site_elem(site, dm, text):
    return SITE[site][2] % esc(text)


def typ(dm):
    return ' type="int"' if dm == 'promela' else ''


def special_doc(site, dm, text, bare=False):
    """documents of the sites that are not elements of a block; returns (xml, items, must, mustnot)"""
    x = esc(text)
    pre, after, nxt = mk('pre', bare), mk('after', bare), mk('next', bare)
    nstate = '<state id="s2">%s</state>' % (('<onentry>%s</onentry>' % nxt) if nxt else '')
    if site == 'if-cond':
        body = '<state id="s1"><onentry>%s<if cond="%s">%s</if>%s</onentry>%s</state>' % (
            pre, x, after, mk('cont', bare), ('<onentry>%s</onentry>' % nxt) if nxt else '')
        return wrap(dm, body, bare), [], ['pre', 'ERR', 'next'], ['after']
    if site == 'elseif-cond':
        body = '<state id="s1"><onentry>%s<if cond="false">%s<elseif cond="%s"/>%s</if>%s</onentry>%s</state>' % (
            pre, mk('wrong', bare), x, after, mk('cont', bare), ('<onentry>%s</onentry>' % nxt) if nxt else '')
        return wrap(dm, body, bare), [], ['pre', 'ERR', 'next'], ['after', 'wrong']
    if site == 'transition-cond-eventless':
        body = '<state id="s1"><transition cond="%s" target="s2">%s</transition><transition target="s2"/></state>%s' % (x, after, nstate)
        return wrap(dm, body, bare), [], ['ERR', 'next'], ['after']
    if site == 'transition-cond-event':
        body = ('<state id="s1"><transition event="e" cond="%s" target="s2">%s</transition><transition event="e" target="s2"/></state>%s'
                % (x, after, nstate))
        return wrap(dm, body, bare), ['e'], ['e', 'ERR', 'next'], ['after']
    if site in ('data-expr', 'data-expr-late', 'data-src'):
        attr = ('src="%s"' if site == 'data-src' else 'expr="%s"') % x
        extra = '<data id="Bad"%s %s/><data id="Var4"%s expr="7"/>' % (typ(dm), attr, typ(dm))
        late = site == 'data-expr-late'
        body = '<state id="s1">%s<transition cond="Var4 == 7" target="s2"/></state>%s' % (
            ('<datamodel>%s</datamodel>' % extra) if late else '', nstate)
        return wrap(dm, body, bare, late=late, extra_data='' if late else extra), [], ['ERR', 'next'], []
    for s in INVOKE_SITES:
        if s[0] == site:
            inv = (s[2] % x).replace('CHILD', child_idle(dm))
            body = '<state id="s1">%s<transition event="e" target="s2"/></state>%s' % (inv, nstate)
            return wrap(dm, body, bare), ['e'], ['ERR', 'e', 'next'], []
    for s in DONEDATA_SITES:
        if s[0] == site:
            body = ('<state id="s1"><state id="s11"><transition target="s12"/></state><final id="s12"><donedata>%s</donedata></final>'
                    '<transition event="done.state.s1" target="s2"/></state>%s' % (s[2] % x, nstate))
            return wrap(dm, body, bare), [], ['ERR', 'done.state.s1', 'next'], []
    if site == 'send-undeliverable-delayed':
        body = '<state id="s1"><onentry>%s<send event="x" target="%s" delay="10ms"/></onentry>%s</state>' % (
            pre, x, ('<onentry>%s</onentry>' % nxt) if nxt else '')
        return wrap(dm, body, bare), ['~' + COM], ['pre', 'next', 'ERR'], []
    if site == 'global-script':
        body = '<state id="s1">%s</state>' % (('<onentry>%s</onentry>' % nxt) if nxt else '')
        return wrap(dm, body, bare, top_script='<script>%s</script>' % x), [], ['ERR', 'next'], []
    raise ValueError(site)


def special_table(site):
    if site in COND_SITES or site in ('data-expr', 'data-expr-late'):
        return 'val', 'true' if site in COND_SITES else '1'
    if site == 'data-src':
        return 'src', None
    if site == 'send-undeliverable-delayed':
        return 'target', '#_internal'
    if site == 'global-script':
        return 'stmt', 'Var1 = 1'
    for s in INVOKE_SITES + DONEDATA_SITES:
        if s[0] == site:
            return s[1], s[3]
    raise ValueError(site)


SPECIAL_SITES = COND_SITES + DATA_SITES + [s[0] for s in INVOKE_SITES] + [s[0] for s in DONEDATA_SITES] + \
    ['send-undeliverable-delayed', 'global-script']
# documents whose outcome depends on other threads: each runs in a process of its own
def threaded(site, kind):
    return kind == 'finalize' or site.startswith('invoke-') or site.endswith('-delayed') or site == 'send-delayexpr'


def make_doc(site, kind, dm, fname, text, control=False, bare=False):
    if site in SITE:
        xml, items = block_doc(dm, kind, site_elem(site, dm, text), bare)
        err = SITE[site][4]
        must = ['pre', 'ERR', 'next']
        mustnot = ['after', 'body']
        if kind == 'finalize':
            must = ['fromchild'] + must
        if kind in ('onexit', 'transition', 'history-transition'):
            must = ['e'] + must
        if control:
            must = [m for m in must if m != 'ERR'] + ['after']
            mustnot = []
    else:
        xml, items, must, mustnot = special_doc(site, dm, text, bare)
        if not bare:
            items = items + ['z']
        err = COM if site == 'send-undeliverable-delayed' else EXE
        if control:
            must = [m for m in must if m != 'ERR']
            mustnot = []
            if site in COND_SITES:
                must = must + ['after']
            if site == 'send-undeliverable-delayed':
                items = ['~x', 'z']
                must = must + ['x']
    errs = [err]
    if site == 'data-src':
        errs = [EXE, COM]
    return {'site': site, 'kind': kind, 'dm': dm, 'fault': 'control' if control else fname, 'text': text, 'control': control,
            'xml': xml, 'items': items, 'must': must, 'mustnot': mustnot, 'errs': errs,
            'final': 'any' if bare else 'FINISHED', 'threaded': threaded(site, kind), 'bare': bare}


# ------------------------------------------------------------------ <data> of an invoked session initialised from the invocation

# values handed over with <invoke> (<param> / namelist) that the CHILD's datamodel rejects when InterpreterImpl::initData
# initialises the child's <data> element of that name: (fault, child datamodel, child <data> attributes, name, value
# expression per parent datamodel or None = that parent cannot produce it)
CHILD_INIT = [
    ('child-array-gets-scalar', 'promela', ' type="int[2]"', 'Cv', {'lua': '7', 'promela': '7'}),
    ('child-system-variable', 'promela', ' type="int"', '_name', {'lua': '7', 'promela': '7'}),
    ('child-nan', 'lua', '', 'Cv', {'lua': '0/0'}),
    ('child-system-variable', 'lua', '', '_name', {'lua': '7'}),
]
CHILD_INIT_CONTROL = [('promela', ' type="int"', 'Cv', {'lua': '7', 'promela': '7'}), ('lua', '', 'Cv', {'lua': '7'})]
CHILD_ERR = 'error.execution.child'     # the child reports its error.execution to the parent under this name


def child_init_doc(pdm, cdm, attrs, name, value, via, fault, control=False, bare=False):
    """parent (datamodel pdm) invokes a child (cdm) whose <data id=name> is initialised from the invocation; the child
    tells the parent about an error.execution it processes and, in its next state, that it goes on"""
    child = ('<scxml %s datamodel="%s"><datamodel><data id="%s"%s/></datamodel><state id="c1"><onentry><raise event="go"/></onentry>'
             '<transition event="error.execution" target="c2"><send target="#_parent" event="%s"/></transition>'
             '<transition event="go" target="c2"/></state>'
             '<state id="c2"><onentry><send target="#_parent" event="childnext"/></onentry></state></scxml>' % (NS, cdm, name, attrs, CHILD_ERR))
    extra = ''
    if via == 'param':
        inv = '<invoke type="scxml" id="i1"><param name="%s" expr="%s"/><content>%s</content></invoke>' % (name, esc(value), child)
    else:
        inv = '<invoke type="scxml" id="i1" namelist="%s"><content>%s</content></invoke>' % (name, child)
        if not name.startswith('_'):      # the parent's variable of that name carries the value (a system variable has its own)
            extra = '<data id="%s"%s expr="%s"/>' % (name, typ(pdm), esc(value))
    body = '<state id="s1">%s<transition event="childnext" target="s2"/></state><state id="s2">%s</state>' % (
        inv, '' if bare else '<onentry><raise event="next"/></onentry>')
    must = (['childnext'] if control else ['ERR', 'childnext']) + ([] if bare else ['next'])
    return {'site': 'invoke-data-init', 'kind': 'invoke-data-init', 'dm': cdm, 'pdm': pdm, 'via': via,
            'fault': 'control' if control else fault, 'text': '%s parent, %s %s=%s' % (pdm, via, name, value), 'control': control,
            'xml': ('<scxml %s datamodel="%s" name="m">%s%s</scxml>' % (NS, pdm, ('<datamodel>%s</datamodel>' % extra) if extra else '', body))
            if bare else wrap(pdm, body, bare, extra_data=extra), 'items': ['~childnext'] + ([] if bare else ['z']), 'must': must, 'mustnot': [],
            'errs': [CHILD_ERR], 'final': 'any' if bare else 'FINISHED', 'threaded': True, 'bare': bare,
            'args': (pdm, cdm, attrs, name, value, via, fault)}


def child_init_docs():
    out = []
    for fault, cdm, attrs, name, values in CHILD_INIT:
        for pdm, value in sorted(values.items()):
            for via in ('param', 'namelist'):
                out.append(child_init_doc(pdm, cdm, attrs, name, value, via, fault))
    for cdm, attrs, name, values in CHILD_INIT_CONTROL:
        for pdm, value in sorted(values.items()):
            for via in ('param', 'namelist'):
                out.append(child_init_doc(pdm, cdm, attrs, name, value, via, 'control', control=True))
    return out


def corpus_docs():
    """the hand-confirmed witnesses (corpus/c07.json): they run first"""
    p = os.path.join(os.path.dirname(os.path.dirname(os.path.abspath(__file__))), 'corpus', 'c07.json')
    out = []
    for w in json.load(open(p))['witnesses']:
        d = {'site': w['site'], 'kind': w.get('kind', BASE_KIND), 'dm': w['dm'], 'fault': w['fault'], 'text': w.get('text', ''),
             'control': False, 'xml': w['xml'], 'items': w['items'], 'must': w['must'], 'mustnot': w.get('mustnot', []),
             'errs': w['errs'], 'final': w.get('final', 'any'), 'threaded': True, 'bare': True, 'corpus': w['name'],
             'multi': w.get('multi', False), 'what': w.get('what', '')}
        out.append(d)
    return out


def gen_docs(tier):
    """the matrix.  quick: every site x every fault kind in the base block kind, every block kind x every fault kind
    with <assign expr> and <send><content expr>; thorough: every executable-content site x every block kind x every
    fault kind.  Controls for every site and every block kind."""
    docs = []
    for dm in ('lua', 'promela'):
        for s in SITES:
            site, table, _, ctl, _ = s
            kinds = KINDS if tier == 'thorough' or site in ('assign-expr', 'send-content-expr') else [BASE_KIND]
            for kind in kinds:
                for fname, text in faults_of(table, dm, tier):
                    docs.append(make_doc(site, kind, dm, fname, text))
                docs.append(make_doc(site, kind, dm, 'control', ctl, control=True))
        for site in SPECIAL_SITES:
            table, ctl = special_table(site)
            for fname, text in faults_of(table, dm, tier):
                docs.append(make_doc(site, site, dm, fname, text))
            if ctl is not None:
                docs.append(make_doc(site, site, dm, 'control', ctl, control=True))
    return docs + child_init_docs()


# ------------------------------------------------------------------ running

def line_of(engine, d, wait_ms=4000):
    return 'c07run %s %s 60 %d %s' % (engine, d['xml'].encode('latin-1').hex(), wait_ms,
                                      ' '.join(('~' + i[1:].encode().hex()) if i.startswith('~') else i.encode().hex() for i in d['items']))


def replay_cmd(engine, d):
    return "echo '%s' | /verif/.build/vdriver-hooks/vdriver" % line_of(engine, d)


def _run_proc(vd, lines, timeout):
    """one child process; returns (answers, rc, stderr tail) -- rc None = timeout"""
    for attempt in range(8):
        try:
            p = subprocess.Popen([vd], stdin=subprocess.PIPE, stdout=subprocess.PIPE, stderr=subprocess.PIPE)
        except OSError:
            time.sleep(1.5)      # the driver is being relinked by another check
            continue
        try:
            o, e = p.communicate(('\n'.join(lines) + '\n').encode(), timeout=timeout)
        except subprocess.TimeoutExpired:
            p.kill()
            o, e = p.communicate()
            ans = [l[2:] for l in o.decode('utf-8', 'replace').split('\n') if l.startswith('@@')]
            return ans, None, e.decode('utf-8', 'replace')[-300:]
        if p.returncode in (126, 127) and not o:
            time.sleep(1.5)
            continue
        ans = [l[2:] for l in o.decode('utf-8', 'replace').split('\n') if l.startswith('@@')]
        return ans, p.returncode, e.decode('utf-8', 'replace')[-300:]
    return [], 127, 'driver could not be started'


def run_docs(vd, docs, engines=ENGINES, ncpu=16, shard=12):
    """returns {(engine, index): answer}; answer is the driver's line, or 'CRASH rc=.. <stderr>', or 'HANG'.
    Threaded documents run alone; the others in shards, and a shard in which the process died or hung is run again
    document by document (the crash is attributed by the single runs, not by position)."""
    jobs = []      # (engine, [indices])
    for eng in engines:
        cur = []
        for i, d in enumerate(docs):
            if d['threaded']:
                jobs.append((eng, [i]))
            else:
                cur.append(i)
                if len(cur) >= shard:
                    jobs.append((eng, cur))
                    cur = []
        if cur:
            jobs.append((eng, cur))
    res = {}
    lock = threading.Lock()
    pos = [0]

    def one(eng, idx):
        ans, rc, err = _run_proc(vd, [line_of(eng, docs[i]) for i in idx], 60 + 10 * len(idx))
        if len(ans) == len(idx) and rc == 0:
            return {(eng, i): a for i, a in zip(idx, ans)}
        if len(idx) == 1:
            if ans:
                return {(eng, idx[0]): ans[0]}
            return {(eng, idx[0]): 'HANG' if rc is None else 'CRASH rc=%s %s' % (rc, ' '.join(err.split())[-200:])}
        out = {}
        for i in idx:
            out.update(one(eng, [i]))
        return out

    def worker():
        while True:
            with lock:
                if pos[0] >= len(jobs):
                    return
                eng, idx = jobs[pos[0]]
                pos[0] += 1
            r = one(eng, idx)
            with lock:
                res.update(r)
    ths = [threading.Thread(target=worker) for _ in range(ncpu)]
    [t.start() for t in ths]
    [t.join() for t in ths]
    return res


# ------------------------------------------------------------------ the oracle

def parse(ans):
    evs, rets, exc, waits = [], [], None, []
    for t in ans.split():
        if t.startswith('EV:'):
            h = t[3:]
            evs.append('' if h == '-' else bytes.fromhex(h).decode('latin-1'))
        elif t.startswith('RET:'):
            rets.append(t[4:])
        elif t.startswith('EXC:') or t.startswith('SETUP-EXC:'):
            h = t.split(':', 1)[1]
            exc = (t.split(':')[0] + ' ' + ('' if h == '-' else bytes.fromhex(h).decode('latin-1')))
        elif t.startswith('WAIT:'):
            waits.append(t[5:])
    return evs, rets, exc, waits


def judge(d, ans):
    """the property oracle on one answer: list of (symptom, detail); empty = the run satisfies C07"""
    if ans.startswith('CRASH'):
        return [('crash', ans)]
    if ans == 'HANG':
        return [('hang', 'no answer within the time limit')]
    if ans.startswith('EXC') or ans.startswith('ERR'):      # exception outside step() (vdriver's own catch)
        return [('exception', ans)]
    evs, rets, exc, waits = parse(ans)
    if exc:
        return [('exception', exc)]
    out = []
    errs = [e for e in evs if e.startswith('error.')]
    if d['control']:
        if errs:
            out.append(('control-raises-error', ' '.join(errs)))
        for m in d['must']:
            if m not in evs:
                out.append(('control-marker-missing', m))
    else:
        good = [e for e in errs if e in d['errs']]
        if not good:
            out.append(('wrong-error-event', ' '.join(errs)) if errs else ('no-error-event', 'events processed: ' + ' '.join(evs)))
        elif len(errs) > 1 and not d.get('multi'):
            out.append(('several-error-events', ' '.join(errs)))
        for m in d['mustnot']:
            if m in evs:
                out.append(('rest-of-block-executed', 'marker %s after the failing element was processed' % m))
        for m in d['must']:
            if m != 'ERR' and m not in evs:
                out.append(('next-block-not-run' if m == 'next' else 'event-lost', 'marker %s was not processed' % m))
        if good:
            # the error event sits in the internal queue where the failure happened
            seq = [m if m != 'ERR' else good[0] for m in d['must']]
            p = -1
            for m in seq:
                if m in evs:
                    q = evs.index(m)
                    if q < p:
                        out.append(('error-event-out-of-order', 'processed %s, expected order %s' % (' '.join(evs), ' '.join(seq))))
                        break
                    p = q
    if d['final'] == 'FINISHED' and (not rets or rets[-1] != 'FINISHED'):
        out.append(('interpreter-stuck', 'last results of step(): ' + ' '.join(rets[-3:])))
    if 'timeout' in waits and not out:
        out.append(('event-lost', 'an awaited event was never processed'))
    return out


def group(site):
    """sites that share the code that handles their errors"""
    if site == 'invoke-data-init':      # InterpreterImpl::initData of the invoked session, not the parent's <invoke>
        return site
    if site.startswith('invoke-'):
        return 'invoke'
    if site in ('foreach-item', 'foreach-index'):
        return 'foreach-item-index'
    return site


def classify(docs, verdicts):
    """attribute each failing run to a class: the fault kind (when most sites fail for it in the same way), the block
    kind (when the same site and fault pass in the base kind) or the site.  verdicts: {(engine, i): [(symptom, detail)]}.
    returns {class: [(engine, i, symptom, detail)]}"""
    base_fail = {}
    per_fault = {}
    for (eng, i), v in verdicts.items():
        d = docs[i]
        if d['control'] or d.get('corpus'):
            continue
        if d['kind'] == BASE_KIND or d['site'] not in SITE:
            k = (d['dm'], d['fault'], eng)
            tot, bad = per_fault.get(k, (0, 0))
            per_fault[k] = (tot + 1, bad + (1 if v else 0))
            if v:
                base_fail[(d['site'], d['dm'], d['fault'], eng)] = v[0][0]
    classes = {}
    for (eng, i), v in sorted(verdicts.items(), key=lambda kv: (kv[0][1], kv[0][0])):
        if not v:
            continue
        d = docs[i]
        sym, det = v[0]
        if d['control']:
            cls = 'control:%s@%s' % (d['site'], d['kind'])
        else:
            # (a witness of the corpus belongs to the class of the generated documents of its site/block/fault)
            tot, bad = per_fault.get((d['dm'], d['fault'], eng), (0, 0))
            if tot >= 8 and bad * 10 >= tot * 7:
                cls = 'fault:%s:%s' % (d['dm'], d['fault'])
            elif d['site'] in SITE and d['kind'] != BASE_KIND and base_fail.get((d['site'], d['dm'], d['fault'], eng)) != sym:
                cls = 'block:%s:%s' % (d['kind'], sym)
            else:
                cls = 'site:%s:%s' % (group(d['site']), sym)
        classes.setdefault(cls, []).append((eng, i, sym, det))
    return classes


# ------------------------------------------------------------------ the stream as one step of the check

def shrink(vd, docs, members):
    """the smallest failing document of a class: the shortest member; for exceptions and crashes also the same
    construct without markers and without the surrounding `top` state, if that still fails in the same way"""
    eng, i, sym, det = min(members, key=lambda m: (len(docs[m[1]]['xml']), ENGINES.index(m[0])))
    d = docs[i]
    if sym in ('exception', 'crash') and not d.get('corpus') and not d['control']:
        b = child_init_doc(*d['args'], bare=True) if d['site'] == 'invoke-data-init' else \
            make_doc(d['site'], d['kind'], d['dm'], d['fault'], d['text'], bare=True)
        a = run_docs(vd, [b], engines=(eng,))[(eng, 0)]
        v = judge(b, a)
        if v and v[0][0] == sym:
            return eng, b, sym, v[0][1]
    return eng, d, sym, det


def run_stream(vd, tier, coqdir=None, workdir=None):
    """runs witnesses + matrix; returns (stats, findings).  A finding: dict with class, count, members, the minimal
    document, engine, symptom, detail, replay_cmd"""
    t0 = time.time()
    docs = corpus_docs() + gen_docs(tier)
    res = run_docs(vd, docs)
    if any(a.startswith('ERR unknown command') for a in res.values()):
        import vlib
        raise vlib.BuildError('the driver %s has no c07run command (harness/vd_c07.cpp not linked)' % vd)
    verdicts = {k: judge(docs[k[1]], a) for k, a in res.items()}
    # a verdict that depends on timing (threads of invoked sessions, timers) is confirmed by a second run
    again = sorted(set(i for (e, i), v in verdicts.items() if v and docs[i]['threaded'] and v[0][0] in ('event-lost', 'hang', 'interpreter-stuck')))
    if again:
        sub = [docs[i] for i in again]
        r2 = run_docs(vd, sub, ncpu=4)
        for (e, j), a in r2.items():
            v2 = judge(sub[j], a)
            if not v2:
                verdicts[(e, again[j])] = []
                res[(e, again[j])] = a
    classes = classify(docs, verdicts)
    findings = []
    for cls, members in sorted(classes.items()):
        eng, d, sym, det = shrink(vd, docs, members)
        findings.append({'class': cls, 'count': len(members), 'symptom': sym, 'detail': det, 'engine': eng,
                         'site': d['site'], 'block': d['kind'], 'datamodel': d['dm'], 'fault': d['fault'], 'expression': d['text'],
                         'document': d['xml'], 'items': d['items'], 'expected': 'events %s processed in this order (ERR = %s), none of %s, no exception, no crash' % (
                             ' '.join(d['must']), ' or '.join(d['errs']), ' '.join(d['mustnot']) or '-'),
                         'observed': det, 'what': d.get('what', ''),
                         'members': sorted(set('%s/%s/%s/%s/%s:%s' % (e, docs[i]['site'], docs[i]['kind'], docs[i]['dm'], docs[i]['fault'], s)
                                               for e, i, s, _ in members))[:40],
                         'replay_cmd': replay_cmd(eng, d)})
    model = {'compared': 0, 'disagreements': 0, 'variant': None}
    mdis = []
    if coqdir:
        switches, ncmp, dis = model_correspondence(docs, res, verdicts, coqdir, workdir)
        model = {'compared': ncmp, 'disagreements': len(dis), 'variant': switches}
        # a disagreement in a run the oracle rejects is reported through its class; the others are findings of their own
        for eng, i, p, o in sorted([x for x in dis if not verdicts[(x[0], x[1])]], key=lambda x: len(docs[x[1]]['xml']))[:2]:
            d = docs[i]
            mdis.append({'class': 'model-disagreement', 'count': len(dis), 'engine': eng, 'site': d['site'], 'block': d['kind'],
                         'datamodel': d['dm'], 'fault': d['fault'], 'document': d['xml'], 'items': d['items'],
                         'model_actions': model_term(d), 'model_variant': switches,
                         'expected': 'ExecFaults.outcomes predicts class %d (0 no error, 1 error event, 2 escaped)' % p,
                         'observed': 'class %d: %s' % (o, res[(eng, i)][:300]), 'oracle_failure': bool(verdicts[(eng, i)]),
                         'replay_cmd': replay_cmd(eng, d)})
    nfault = [d for d in docs if not d['control']]
    stats = {'documents': len(docs), 'witnesses': sum(1 for d in docs if d.get('corpus')), 'controls': sum(1 for d in docs if d['control']),
             'runs': len(res), 'engines': list(ENGINES),
             'sites': len(set(d['site'] for d in nfault)), 'block_kinds': len(set(d['kind'] for d in nfault if d['kind'] in KINDS)),
             'fault_kinds': {dm: len(set(d['fault'] for d in nfault if d['dm'] == dm)) for dm in ('lua', 'promela')},
             'site_x_block_x_fault_x_datamodel': len(set((d['site'], d['kind'], d['fault'], d['dm']) for d in nfault)),
             'runs_with_error_event': sum(1 for k, a in res.items() if not a.startswith(('CRASH', 'HANG', 'EXC', 'ERR')) and
                                          any(e.startswith('error.') for e in parse(a)[0])),
             'failing_runs': sum(1 for v in verdicts.values() if v), 'classes': {f['class']: f['count'] for f in findings},
             'model': model, 'seconds': round(time.time() - t0, 1)}
    return stats, findings + mdis


# ------------------------------------------------------------------ correspondence with ExecFaults.v

SWITCH_WITNESS = [   # switch of fx_variant, witness of the corpus, symptom that means "defect present"
    ('fx_finalize_unguarded', 'finalize-failing-assign', 'exception'),
    ('fx_send_content_lazy', 'send-content-expr-syntax', 'exception'),
    ('fx_donedata_content_lazy', 'donedata-content-expr-runtime', 'exception'),
    ('fx_timer_unguarded', 'delayed-send-to-missing-parent', 'crash'),
    ('fx_invoke_error_only_logged', 'invoke-typeexpr-syntax', 'no-error-event'),
]
_TARGET = {'no-parent': 'TParent', 'no-session': '(TSession 7)', 'no-invoker': '(TInvoked 7)', 'control': 'TInternal'}


def model_term(d):
    """the action sequence of ExecFaults.v that a matrix document exercises (None: outside the model)"""
    if d.get('corpus'):
        return None
    r = '(VOk 1)' if d['control'] else ('VSyntax' if d['fault'] == 'syntax' else 'VRuntime')
    site, kind = d['site'], d['kind']
    if kind == 'finalize':
        if site not in ('assign-expr', 'log-expr'):
            return None
        return '[ASend ev_x TSelf [] None; ADequeueExt (Some [ILog 1 %s])]' % ('(INum 1)' if d['control'] else 'IBad')
    if site == 'send-content-expr':
        return '[ASend ev_x TSelf [] (Some %s); ADequeueExt None]' % r
    if site in ('send-param-expr', 'send-param-location', 'send-namelist'):
        return '[ASend ev_x TSelf [%s] None; ADequeueExt None]' % r
    if site == 'send-undeliverable':
        return '[ASend ev_x %s [] None]' % _TARGET[d['fault']]
    if site == 'send-undeliverable-delayed':
        return '[ADelayedSend ev_x %s [] None; ATimer 0; ADequeueInt]' % _TARGET[d['fault']]
    if site in ('donedata-param-expr', 'donedata-param-location'):
        return '[ADone ev_x [%s] None; ADequeueInt; ADequeueInt]' % r
    if site == 'donedata-content-expr':
        return '[ADone ev_x [] (Some %s); ADequeueInt; ADequeueInt]' % r
    if site == 'invoke-data-init':
        return '[ADataInit %s]' % ('(VOk 1)' if d['control'] else 'VRuntime')
    if site == 'invoke-type':
        return '[AInvoke 1 [] %s]' % ('true' if d['control'] else 'false')
    if site.startswith('invoke-'):
        return '[AInvoke 1 [%s] true]' % r
    return None


def observed_class(ans):
    """0 = no error, 1 = error event processed, 2 = exception out of step() / process died"""
    if ans.startswith(('CRASH', 'HANG', 'EXC', 'ERR')):
        return 2
    evs, rets, exc, waits = parse(ans)
    if exc:
        return 2
    return 1 if any(e.startswith('error.') for e in evs) else 0


def model_predictions(coqdir, workdir, switches, terms):
    """evaluates ExecFaults.outcomes with coqc (vm_compute) on the given action sequences (the model is small and not
    extracted: coqc is the evaluator); returns the list of predicted classes"""
    import re
    os.makedirs(workdir, exist_ok=True)
    src = ['From V Require Import Base Chart Exec ExecFaults.', 'Local Open Scope N_scope.',
           'Definition ev_x : bytes := [120].',
           'Definition env0 : fenv := {| env_parent := false; env_sessions := [] |}.',
           'Definition vv : fx_variant := {| %s |}.' % '; '.join('%s := %s' % (k, 'true' if switches[k] else 'false') for k, _, _ in SWITCH_WITNESS),
           'Definition cls (l : list outcome) : nat :=',
           '  if existsb (fun o => match o with Escaped => true | _ => false end) l then 2%nat',
           '  else if existsb (fun o => match o with ErrRaised => true | _ => false end) l then 1%nat else 0%nat.',
           'Definition cases : list (list action) := [', ';\n'.join(terms), '].',
           'Eval vm_compute in map (fun l => cls (outcomes vv env0 (fun _ => false) l fstate0)) cases.']
    f = os.path.join(workdir, 'C07FaultsEval.v')
    open(f, 'w').write('\n'.join(src) + '\n')
    import vlib
    with vlib.Lock('coq'):      # ExecFaults.vo must not be rebuilt under the evaluation
        p = subprocess.run('timeout 600 coqc -R %s V -R . C07Tmp C07FaultsEval.v' % coqdir, shell=True, cwd=workdir,
                           stdout=subprocess.PIPE, stderr=subprocess.STDOUT)
    out = p.stdout.decode('utf-8', 'replace')
    if p.returncode != 0:
        raise vlib.BuildError('ExecFaults.v could not be evaluated: ' + out[-1500:])
    m = re.search(r'=\s*\[(.*?)\]\s*:\s*list nat', out, flags=re.S)
    if not m:
        raise RuntimeError('unexpected coqc output: ' + out[-800:])
    body = m.group(1).strip()
    vals = [int(x) for x in re.findall(r'\d+', body)]
    if len(vals) != len(terms):
        raise RuntimeError('%d predictions for %d cases' % (len(vals), len(terms)))
    return vals


def model_correspondence(docs, res, verdicts, coqdir, workdir):
    """the implementation's run of every document that ExecFaults.v covers against the model's prediction, for the
    variant the witnesses select.  returns (switches, compared, disagreements [(engine, i, predicted, observed)])"""
    by_name = {d['corpus']: i for i, d in enumerate(docs) if d.get('corpus')}
    switches = {}
    for sw, wit, sym in SWITCH_WITNESS:
        v = verdicts.get(('large', by_name[wit]), [])
        switches[sw] = bool(v) and v[0][0] == sym
    idx = [i for i, d in enumerate(docs) if model_term(d) is not None]
    pred = model_predictions(coqdir, workdir, switches, [model_term(docs[i]) for i in idx])
    dis = []
    n = 0
    for i, p in zip(idx, pred):
        for eng in ENGINES:
            if (eng, i) in res:
                n += 1
                o = observed_class(res[(eng, i)])
                if o != p:
                    dis.append((eng, i, p, o))
    return switches, n, dis
