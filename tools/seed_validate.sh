#!/bin/bash
# tools/seed_validate.sh <seed-id> [tier]  -- coordinator's validation of one seeded change:
# scratch worktree + patch, full build with tests, the repo's test suite against BASELINE.json, the agent's demo with and
# without the change, the property's check through VERIF_REPO.  Prints one RESULT line; removes the worktree afterwards.
id=$1; tier=${2:-quick}; pid=${id%%-*}
sd=/verif/seeded/$id; wt=/tmp/sv-$id; log=/tmp/sv-$id.log
: > $log
git -C /repo worktree remove --force $wt >/dev/null 2>&1; rm -rf $wt
git -C /repo worktree add --detach $wt HEAD >>$log 2>&1 || { echo "RESULT $id worktree-failed"; exit 2; }
pf=$sd/patch.diff; [ -f $sd/patch-rebased.diff ] && pf=$sd/patch-rebased.diff   # the same change on top of later hook/fix commits
if ! git -C $wt apply $pf >>$log 2>&1; then
  if ! git -C $wt apply --3way $pf >>$log 2>&1; then echo "RESULT $id patch-does-not-apply"; git -C /repo worktree remove --force $wt; exit 2; fi
fi
# the two emptied benchmark files of the sandbox are part of the expected state of /repo
for f in $(cat /root/.vp/EMPTIED_FILES.txt 2>/dev/null); do [ -f /repo/$f ] && cp /repo/$f $wt/$f 2>/dev/null; done
( cmake -G Ninja -S $wt -B $wt/_b -DCMAKE_BUILD_TYPE=RelWithDebInfo -DBUILD_TESTS=ON >>$log 2>&1 && cmake --build $wt/_b -j14 >>$log 2>&1 ); brc=$?
trc=NA; tsum=NA
if [ $brc = 0 ]; then
  ( cd $wt/_b && ctest -j8 --timeout 900 > /tmp/sv-$id.ctest 2>&1 )
  tsum=$(python3 /verif/tools/baseline_cmp.py /tmp/sv-$id.ctest | head -1); python3 /verif/tools/baseline_cmp.py /tmp/sv-$id.ctest >>$log; trc=$?
fi
dw=NA; dwo=NA
if [ -f $sd/demo/run.sh ]; then
  ( SRC=$wt BUILD=$wt/_b timeout 900 bash $sd/demo/run.sh >>$log 2>&1 ); dw=$?
  ( SRC=/repo BUILD=/verif/.build/hooks timeout 900 bash $sd/demo/run.sh >>$log 2>&1 ); dwo=$?
fi
rm -rf $wt/_b
( cd /verif && VERIF_REPO=$wt timeout 3600 tools/vcheck $pid --tier $tier > /tmp/sv-$id.check 2>&1 ); crc=$?
viol=$(grep -c '^VIOLATION' /tmp/sv-$id.check)
echo "RESULT $id build=$brc tests=[$tsum rc=$trc] demo_with=$dw demo_without=$dwo check_rc=$crc violations=$viol"
grep '^VIOLATION' /tmp/sv-$id.check | head -3
for r in $(grep '^VIOLATION' /tmp/sv-$id.check | head -2 | sed 's/.*replay=\([^ ]*\).*/\1/'); do
  python3 -c "
import json,sys
d=json.load(open('$r'))
print('  REPLAY', {k:str(d[k])[:160] for k in ('kind','class','what','why','engine','origin','theorem','switch') if k in d})" 2>/dev/null
done
h=$(python3 -c "import hashlib;print(hashlib.sha1(b'$wt').hexdigest()[:8])"); rm -rf /verif/.build/alt-$h
git -C /repo worktree remove --force $wt >/dev/null 2>&1; rm -rf $wt
