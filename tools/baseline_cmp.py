#!/usr/bin/env python3
"""compare a ctest log against the stable_pass list of /root/.vp/BASELINE.json"""
import json, re, sys
base = json.load(open('/root/.vp/BASELINE.json'))
stable = set(x.split('::')[0] for x in base['stable_pass'])
log = open(sys.argv[1]).read()
passed = set(re.findall(r'Test\s+#\d+:\s+(\S+)\s+\.+\s+Passed', log))
failed = set(re.findall(r'Test\s+#\d+:\s+(\S+)\s+\.+\*+(?:Failed|Timeout|Exception|Not Run)', log))
missing = sorted(stable - passed)
print('stable_pass: %d, passed now: %d, stable not passed now: %d' % (len(stable), len(passed), len(missing)))
for m in missing[:40]:
    print('  NOT PASSED:', m, '(failed)' if m in failed else '(not run?)')
sys.exit(1 if missing else 0)
