(* EngineQueue.v -- C08 / C10 stated about the engine models themselves (Large.large_step, Fast.fast_step):
   runs in which calls of step() are interleaved with ARBITRARY external enqueues (Interpreter::receive from
   other threads, between any two steps, not only after IDLE as Interp.run_loop does) and calls of cancel()
   (InterpreterImpl::cancel: _isCancelled = true, then enqueueExternal(Event()), the unnamed wake-up event).
   Definitions only: the run, its log, the queue accounting, the recogniser of the life-cycle language of
   the results of step(), the potential that bounds the steps after cancel().  Proofs: EngineQueue*Lemmas.v,
   EngineLifecycle*.v. *)
From V Require Import Base NameMatch Chart Exec Large Fast Interp Trace TraceComplete.
Local Open Scope nat_scope.

(* ------------------------------------------------------------------ runs with arbitrary interleaving *)

Inductive eact :=
| EStep                      (* one call of step(0) by the stepping thread *)
| EExt (e : event)           (* enqueueExternal(e) by anybody, any event (also one without a name) *)
| ECancel.                   (* cancel() *)

Definition cancel_event : event := {| ev_name := []; ev_kind := EvExternal |}.

Definition set_cancelled (l : lstate) : lstate :=
  {| l_cfg := l_cfg l; l_hist := l_hist l; l_initd := l_initd l; l_spont := l_spont l; l_init := l_init l;
     l_tlf := l_tlf l; l_fin := l_fin l; l_stable := l_stable l; l_cancelled := true |}.

(* one call of step(): the states it started from and returned, and its result *)
Record erec := { r_l : lstate; r_x : xstate; r_rc : N; r_l' : lstate; r_x' : xstate }.

Inductive eitem := LStep (r : erec) | LExt (e : event) | LCancel.

Section ERun.
Variable c : fchart.
Variable step : lstate -> xstate -> lstate * xstate * N.

(* after every step the driver appends the result and the configuration to the trace, exactly as
   Interp.run_loop does, so that the traces are comparable *)
Definition after_step (l1 : lstate) (x1 : xstate) (rc : N) : xstate :=
  emit (cfg_tok c lstate l_cfg l1) (emit (TRet rc) x1).

Fixpoint erun (acts : list eact) (l : lstate) (x : xstate) : list eitem * (lstate * xstate) :=
  match acts with
  | [] => ([], (l, x))
  | EStep :: r =>
      let res := step l x in
      let l1 := fst (fst res) in
      let x1 := snd (fst res) in
      let rest := erun r l1 (after_step l1 x1 (snd res)) in
      (LStep {| r_l := l; r_x := x; r_rc := snd res; r_l' := l1; r_x' := x1 |} :: fst rest, snd rest)
  | EExt e :: r => let rest := erun r l (raise_ext e x) in (LExt e :: fst rest, snd rest)
  | ECancel :: r => let rest := erun r (set_cancelled l) (raise_ext cancel_event x) in (LCancel :: fst rest, snd rest)
  end.

Definition elog (acts : list eact) (l : lstate) (x : xstate) : list eitem := fst (erun acts l x).
Definition efinal (acts : list eact) (l : lstate) (x : xstate) : lstate * xstate := snd (erun acts l x).

(* the schedule Interp.run_loop follows: step; after IDLE hand in the next event; stop at FINISHED *)
Fixpoint loop_acts (fuel : nat) (l : lstate) (x : xstate) (evs : list bytes) : list eact :=
  match fuel with
  | O => []
  | S f =>
    let res := step l x in
    let l1 := fst (fst res) in
    let x2 := after_step l1 (snd (fst res)) (snd res) in
    EStep ::
    (if (snd res =? RC_FINISHED)%N then []
     else if (snd res =? RC_IDLE)%N then
       match evs with
       | [] => []
       | e :: r => EExt {| ev_name := e; ev_kind := EvExternal |} ::
                   loop_acts f l1 (raise_ext {| ev_name := e; ev_kind := EvExternal |} x2) r
       end
     else loop_acts f l1 x2 evs)
  end.

End ERun.

(* ------------------------------------------------------------------ projections of a log *)

Definition steps_of (log : list eitem) : list erec :=
  flat_map (fun it => match it with LStep r => [r] | _ => [] end) log.

Definition codes (log : list eitem) : list N := map r_rc (steps_of log).

(* the decision of the step in front of the queues (TraceComplete.dequeues) *)
Definition r_deq (r : erec) : deq := dequeues (r_l r) (r_x r).

Definition int_taken (r : erec) : list event :=
  match r_deq r with DeqInt e => [e] | _ => [] end.
(* the unnamed head that is popped and not processed counts as taken *)
Definition ext_taken (r : erec) : list event :=
  match r_deq r with DeqExt e => [e] | DeqExtEmpty => firstn 1 (x_eq (r_x r)) | _ => [] end.

(* what the step appended: the part of the queue it returned beyond what it left of the old one *)
Definition int_raised (r : erec) : list event :=
  skipn (length (x_iq (r_x r)) - length (int_taken r)) (x_iq (r_x' r)).
Definition ext_sent (r : erec) : list event :=
  skipn (length (x_eq (r_x r)) - length (ext_taken r)) (x_eq (r_x' r)).

Definition all_int_taken (log : list eitem) : list event := flat_map int_taken (steps_of log).
Definition all_int_raised (log : list eitem) : list event := flat_map int_raised (steps_of log).
Definition all_ext_taken (log : list eitem) : list event := flat_map ext_taken (steps_of log).
(* everything that reached the external queue, in the order it did: <send> to the own session by a step,
   receive() by others, the wake-up event of cancel() *)
Definition all_ext_arrived (log : list eitem) : list event :=
  flat_map (fun it => match it with LStep r => ext_sent r | LExt e => [e] | LCancel => [cancel_event] end) log.

(* ------------------------------------------------------------------ quiescence *)

Definition takes_external (r : erec) : Prop :=
  match r_deq r with DeqExt _ | DeqExtEmpty => True | _ => False end.
(* the same seen from the queue: what was in the external queue is no longer a prefix of it *)
Definition external_popped (r : erec) : Prop :=
  ~ exists ae, x_eq (r_x' r) = x_eq (r_x r) ++ ae.

(* the event-less selection of the two engines in configuration [cfg] and execution state [x] *)
Definition large_esel (v : lg_variant) (c : fchart) (cfg : list nat) (x : xstate) : list nat :=
  fst (select_loop v c cfg None (cfg_postfix c cfg) None [] x).
Definition fast_esel (c : fchart) (cfg : list nat) (x : xstate) : list nat :=
  fst (fselect c cfg None (seq 0 (ntrans c)) [] x).

(* transition [t] is an enabled event-less transition in configuration [cfg] with datamodel [s] *)
Definition cond_holds (c : fchart) (cfg : list nat) (s : store) (t : ftrans) : bool :=
  match ft_cond t with
  | None => true
  | Some cnd => match beval (inst_of c cfg) s cnd with Some b => b | None => false end
  end.
Definition eventless_enabled (c : fchart) (cfg : list nat) (s : store) (t : ftrans) : bool :=
  negb (ft_history t || ft_initial t) && ft_spontaneous t && cond_holds c cfg s t.

(* Large: the transitions of the active states; Fast: all transitions whose source is active *)
Definition large_none_enabled (c : fchart) (cfg : list nat) (s : store) : Prop :=
  forall i ti, In i cfg -> In ti (fs_trans (st c i)) -> eventless_enabled c cfg s (tr c ti) = false.
Definition fast_none_enabled (c : fchart) (cfg : list nat) (s : store) : Prop :=
  forall ti, ti < ntrans c -> mem (ft_source (tr c ti)) cfg = true -> eventless_enabled c cfg s (tr c ti) = false.

Definition quiescent_at (esel : list nat -> xstate -> list nat) (r : erec) : Prop :=
  x_iq (r_x r) = [] /\ l_stable (r_l r) = true /\ l_spont (r_l r) = false /\
  esel (l_cfg (r_l r)) (r_x r) = [].

(* ------------------------------------------------------------------ the life-cycle language *)

(* MICROSTEPPED (MICROSTEPPED | MACROSTEPPED | IDLE)* CANCELLED? FINISHED^omega, prefix closed.
   (USCXML_INITIALIZED is returned by the branch `if (!_isInitialized) { init(); return USCXML_INITIALIZED; }`
   in front of what Large.large_step / Fast.fast_step transcribe; the models start after it.) *)
Inductive rcq := Q_START | Q_RUN | Q_CANC | Q_FIN.

Definition rc_next (q : rcq) (rc : N) : option rcq :=
  match q with
  | Q_START => if (rc =? RC_MICROSTEPPED)%N then Some Q_RUN else None
  | Q_RUN => if ((rc =? RC_MICROSTEPPED) || (rc =? RC_MACROSTEPPED) || (rc =? RC_IDLE))%N then Some Q_RUN
             else if (rc =? RC_CANCELLED)%N then Some Q_CANC
             else if (rc =? RC_FINISHED)%N then Some Q_FIN else None
  | Q_CANC => if (rc =? RC_FINISHED)%N then Some Q_FIN else None
  | Q_FIN => if (rc =? RC_FINISHED)%N then Some Q_FIN else None
  end.

Fixpoint rc_run (q : rcq) (l : list N) : option rcq :=
  match l with
  | [] => Some q
  | rc :: r => match rc_next q rc with Some q' => rc_run q' r | None => None end
  end.

Definition rc_regularb (l : list N) : bool :=
  match rc_run Q_START l with Some _ => true | None => false end.

(* finished is absorbing and quiet: after a step returned FINISHED every later step returns FINISHED and
   changes neither the engine state nor the execution state (queues, datamodel, trace) *)
Fixpoint fin_absorbing (fin : bool) (log : list eitem) : Prop :=
  match log with
  | [] => True
  | LStep r :: t =>
      (fin = true -> r_rc r = RC_FINISHED /\ r_l' r = r_l r /\ r_x' r = r_x r) /\
      fin_absorbing (fin || (r_rc r =? RC_FINISHED)%N) t
  | _ :: t => fin_absorbing fin t
  end.

(* cancel(): CANCELLED is only returned after a cancel(), is followed by FINISHED at once, and no step
   after a cancel() returns IDLE (a blocking step would not block) *)
Fixpoint cancel_ok (cancelled prev_cancelled : bool) (log : list eitem) : Prop :=
  match log with
  | [] => True
  | LStep r :: t =>
      (cancelled = true -> r_rc r <> RC_IDLE) /\
      (r_rc r = RC_CANCELLED -> cancelled = true) /\
      (prev_cancelled = true -> r_rc r = RC_FINISHED) /\
      cancel_ok cancelled (r_rc r =? RC_CANCELLED)%N t
  | LCancel :: t => cancel_ok true prev_cancelled t
  | LExt _ :: t => cancel_ok cancelled prev_cancelled t
  end.

(* number of named events in front of the first unnamed one *)
Fixpoint first_unnamed (q : list event) : nat :=
  match q with
  | [] => 0
  | e :: r => match ev_name e with [] => 0 | _ => S (first_unnamed r) end
  end.

(* an upper bound on the steps that are NOT micro-steps a cancelled engine still takes before it has
   returned FINISHED *)
Definition cancel_potential (l : lstate) (x : xstate) : nat :=
  if l_fin l then 0
  else if l_tlf l then 1
  else 2 + first_unnamed (x_eq x) + (if l_stable l then 0 else 1).

Definition is_micro (rc : N) : bool := (rc =? RC_MICROSTEPPED)%N.
Definition n_micro (log : list eitem) : nat := length (filter is_micro (codes log)).
Definition n_other (log : list eitem) : nat := length (filter (fun rc => negb (is_micro rc)) (codes log)).
Definition has_finished (log : list eitem) : bool := existsb (fun rc => (rc =? RC_FINISHED)%N) (codes log).

(* the completion step: beforeCompletion, the onexit handlers of the active states in reverse document
   order, afterCompletion *)
Definition completion_exec (xv : ex_variant) (c : fchart) (cfg : list nat) (order : list nat) (x : xstate) : xstate :=
  fold_left (fun x i => exec_blocks xv (inst_of c cfg) (fs_onexit (st c i)) x) order x.
