(* RunConformHistEngine.v -- C01 on charts with <history> (wf_histb): LargeMicroStep's "iterate for descendants" loop
   (Large.descend_one / entry_set) computes the set described by RunConformInitialBase.D for the contexts (domain of a
   selected transition, its EFFECTIVE targets), although it starts from the targets AS WRITTEN: a targeted <history>
   element sits in the entry set until the loop visits it and then adds what it stands for (the recorded states, or
   the targets of its default transition with their ancestors) -- AddH.  The invariant KInvH is KInv of
   RunConformInitialEngine.v with "pending" histories: a context is only complete outside the sub-trees of the parents
   of histories the loop has not visited yet.  Proofs only. *)
From V Require Import Base NameMatch Chart Exec Large LargeLemmas Spec Legal SetLemmas LegalAbstract LegalLarge
  LegalHistBase LegalHistEntry LegalHistStep RunConformInitialBase RunConformInitialSpec RunConformInitialEngine RunConformHistSpec.
Local Open Scope nat_scope.

Section HEngine.
Variable c : fchart.
Let n := nstates c.
Let par (i : nat) := fs_parent (st c i).
Let ch (i : nat) := fs_children (st c i).
Let kd (i : nat) := fs_type (st c i).
Let cpl (i : nat) := fs_completion (st c i).
Notation Anc := (LegalAbstract.Anc par).
Notation pseudo := (pseudoS c).

Hypothesis W : WFH c.
Hypothesis HcplOK : CplOK c.
Hypothesis HcplAnti : CplAnti c.
Hypothesis HtgAnti : TgAnti c.
Variable B : nat -> list nat -> Prop.
Hypothesis HB1 : forall r G, B r G -> GoodCtx c r G.
Hypothesis HB2 : forall r G r' G', B r G -> B r' G' -> (r = r' /\ G = G') \/ (r <> r' /\ ~ Anc r r' /\ ~ Anc r' r).

Variable cfg exitset hist tg ts0 : list nat.
Hypothesis tg_bound : forall g, In g tg -> 0 < g /\ g < n.
Hypothesis HH : HistOK c hist.
Hypothesis HE0_uniq : forall i k1 k2, kd i = FCompound -> par k1 = Some i -> par k2 = Some i ->
  In k1 (HE0 c tg) -> In k2 (HE0 c tg) -> k1 = k2.
Variable Q : nat -> Prop.
Hypothesis Q0 : forall x, In x (HE0 c tg) -> Q x.
Hypothesis Qpar : forall j x, Q j -> kd j = FParallel -> par x = Some j -> Q x.
Hypothesis Qcomp : forall j x, Q j -> kd j = FCompound -> (forall k, par k = Some j -> ~ surv cfg exitset k) -> Anc j x -> Q x.
Hypothesis Qpseudo : forall j q x, Q j -> pseudo j = true -> par j = Some q -> Anc q x -> Q x.

Notation Dr := (D c B).
Notation itg := (itg c).
Notation NTG := (NTG c).
Notation IC := (LegalHistBase.IC c).
Notation E0 := (HE0 c tg).
Notation HI := (HInv c cfg exitset tg Q).
Notation blocked := (hblocked c cfg exitset).
Notation Low := (Low c B).
Notation dflt := (dflt_targets c).

(* what the loop adds when it visits the history state H *)
Definition AddH (H x : nat) : Prop :=
  match par H with
  | Some q => if intersects (cpl H) hist then Rh c hist H x else IC q (dflt H) x
  | None => False
  end.

(* the link between the base contexts and the loop's start set *)
Hypothesis E1 : forall r G y, B r G -> IC r G y ->
  In y E0 \/ exists H q, In H E0 /\ histS c H = true /\ par H = Some q /\ Anc q y.
Hypothesis E2 : forall x, In x E0 -> pseudo x = false -> Low x -> exists r G, B r G /\ IC r G x.
Hypothesis E3 : forall x, In x E0 -> pseudo x = true -> histS c x = true.
Hypothesis E4 : forall k, surv cfg exitset k -> ~ Low k.
Hypothesis E6 : forall j, Q j -> kd j = FCompound -> ~ Low j -> blocked E0 j.
Hypothesis HLdec : forall x, Low x \/ ~ Low x.
(* a targeted history stands for the part of its transition's context below its parent *)
Hypothesis EH : forall H, In H E0 -> histS c H = true ->
  exists q d G, par H = Some q /\ B d G /\ (d = q \/ Anc d q) /\
                (forall x, AddH H x <-> Anc q x /\ IC d G x) /\ (exists x, AddH H x).

(* y lies below no parent of a history the loop still has to visit *)
Definition NP (j : nat) (es : list nat) (y : nat) : Prop :=
  forall H q, In H es -> histS c H = true -> j <= H -> par H = Some q -> ~ Anc q y.

Record KInvH (j : nat) (es ts : list nat) : Prop := {
  kh_e0 : forall x, In x E0 -> In x es;
  kh_sound : forall x, In x es -> pseudo x = false -> Low x -> exists r G, Dr r G x;
  kh_ctx : forall r G x, Dr r G x -> In x es -> forall y, IC r G y -> NP j es y -> In y es;
  kh_root : forall r G x, Dr r G x -> In x es -> B r G \/ r < j;
  kh_pseudo : forall x, In x es -> pseudo x = true ->
     (histS c x = true /\ In x E0) \/
     (exists q r G, par x = Some q /\ cpl q = [x] /\ kd x = FInitial /\ Dr r G q /\ NTG q G /\ kd q = FCompound /\
                    (x < j -> forall y, IC q (itg q) y -> In y es));
  kh_hist : forall H, In H es -> histS c H = true -> H < j -> forall x, AddH H x -> In x es;
  kh_dflt : forall q r G x0, q < j -> In q es -> Dr r G q -> kd q = FCompound -> NTG q G -> cpl q = [x0] -> pseudo x0 = true -> In x0 es;
  kh_ts : forall ti, In ti ts <-> In ti ts0 \/
            (exists x, x < j /\ In x es /\ kd x = FInitial /\ In ti (fs_trans (st c x))) \/
            (exists H r, H < j /\ In H es /\ histS c H = true /\ intersects (cpl H) hist = false /\ fs_trans (st c H) = ti :: r)
}.

Lemma hist_pseudo_e H : histS c H = true -> pseudo H = true.
Proof. unfold histS, pseudoS. destruct (fs_type (st c H)); cbn; congruence. Qed.

Lemma hist_not_initial H : histS c H = true -> kd H <> FInitial.
Proof. unfold histS, kd. destruct (fs_type (st c H)); cbn; congruence. Qed.

Lemma Anc_dec a x : Anc a x \/ ~ Anc a x.
Proof.
  destruct (in_dec Nat.eq_dec a (fs_ancestors (st c x))) as [H|H]; [left | right; intros F; apply H]; now apply (wh_anc c W).
Qed.

(* a base context is determined by any state below its root *)
Lemma base_ctx_unique r G r' G' y : B r G -> B r' G' -> (r = y \/ Anc r y) -> (r' = y \/ Anc r' y) -> r = r' /\ G = G'.
Proof.
  intros Hb Hb' Hr Hr'. destruct (HB2 r G r' G' Hb Hb') as [E|(Hne & N1 & N2)]; [exact E|]. exfalso.
  destruct Hr as [->|Hr], Hr' as [->|Hr']; [congruence | now apply N2 | now apply N1|].
  destruct (hanc_chain c r r' y Hr Hr') as [F|[F|F]]; [congruence | now apply N1 | now apply N2].
Qed.

(* the context in which a state is entered is a base context or the default context of an entered compound state *)
Lemma D_ctx_kind r G x : Dr r G x -> B r G \/ (exists r1 G1, Dr r1 G1 r /\ kd r = FCompound /\ NTG r G1 /\ G = itg r).
Proof.
  induction 1 as [r G k Hb _ _|r G p k _ IH _ _|r G p k _ IH _ _ _|r G p k Hd _ Hk Hn _ _]; auto.
  right. exists r, G. auto.
Qed.

(* a targeted history H (parent q, context (d, G)): a context that holds a state of the entry set and has a member
   on a path through q is (d, G) *)
Lemma hist_ctx q d G r' G' x : B d G -> (d = q \/ Anc d q) -> (exists x0, Anc q x0 /\ IC d G x0) ->
  Dr r' G' x -> (r' = q \/ Anc r' q) -> r' = d /\ G' = G.
Proof.
  intros Hb Hdq (x0 & Hqx0 & Hic0) HD Hr'.
  assert (Hqpath : d <> q -> Dr d G q).
  { intros Hne. destruct Hdq as [->|Hdq]; [congruence|]. apply (D_IC_base c B d G q Hb). split; [exact Hdq|].
    destruct Hic0 as [_ (g & Hg & Hon)]. exists g. split; [exact Hg|]. right.
    destruct Hon as [->|Hx0g]; [exact Hqx0 | eapply (hanc_trans c); eauto]. }
  assert (Hmem : exists g, In g G /\ Anc q g).
  { destruct Hic0 as [_ (g & Hg & Hon)]. exists g. split; [exact Hg|]. destruct Hon as [->|Hx0g]; [exact Hqx0 | eapply (hanc_trans c); eauto]. }
  destruct (D_ctx_kind r' G' x HD) as [Hb'|(r1 & G1 & HD1 & Hk1 & Hn1 & ->)].
  - destruct (base_ctx_unique r' G' d G q Hb' Hb Hr' Hdq) as [-> ->]. auto.
  - exfalso. destruct Hmem as (g & Hg & Hqg).
    destruct Hr' as [->|Hr'q].
    + destruct (Nat.eq_dec d q) as [->|Hne]; [exact (root_not_entered c W B HB2 q G r1 G1 Hb HD1)|].
      destruct (D_unique c W B HB2 q r1 G1 d G HD1 (Hqpath Hne)) as [-> ->]. exact (Hn1 g Hg Hqg).
    + (* r' above q *)
      assert (Hcmp : d = r' \/ Anc d r' \/ Anc r' d).
      { destruct Hdq as [->|Hdq]; [right; now right|]. exact (hanc_chain c d r' q Hdq Hr'q). }
      destruct Hcmp as [->|[F|F]].
      * exact (root_not_entered c W B HB2 r' G r1 G1 Hb HD1).
      * assert (HDr : Dr d G r').
        { apply (D_IC_base c B d G r' Hb). split; [exact F|]. exists g. split; [exact Hg|]. right. eapply (hanc_trans c); eauto. }
        destruct (D_unique c W B HB2 r' r1 G1 d G HD1 HDr) as [-> ->]. apply (Hn1 g Hg). eapply (hanc_trans c); eauto.
      * destruct (D_root c B r1 G1 r' HD1) as (r0 & G0 & Hb0 & Hr0). pose proof (D_below c B r1 G1 r' HD1) as Hr1.
        assert (H0r' : Anc r0 r') by (destruct Hr0 as [->|Hr0]; [exact Hr1 | eapply (hanc_trans c); eauto]).
        assert (H0d : Anc r0 d) by (eapply (hanc_trans c); eauto).
        destruct (HB2 r0 G0 d G Hb0 Hb) as [[-> _]|(_ & N1 & _)]; [exact (hanc_irrefl c W _ H0d) | now apply N1].
Qed.

(* a history state comes before the proper states below its parent *)
Lemma hist_before H q x : histS c H = true -> par H = Some q -> Anc q x -> pseudo x = false -> H < x.
Proof.
  intros Hh Hq Hqx Hpx. destruct (wh_hist_cpl c W H q Hh Hq) as [Hc1 Hc2].
  destruct (hanc_child_on_path c q x Hqx) as (k & Hk & Hon).
  assert (Hpk : pseudo k = false) by (destruct Hon as [->|Ha]; [exact Hpx | exact (anc_not_pseudo c W k x Ha)]).
  destruct (Hc1 k (Hc2 k Hk Hpk)) as (_ & Hlt & _). specialize (Hlt Hpk).
  destruct Hon as [->|Ha]; [exact Hlt | destruct (hanc_lt c W _ _ Ha); lia].
Qed.

Lemma KInvH_0 : KInvH 0 E0 ts0.
Proof.
  assert (Hctx : forall r G x, Dr r G x -> In x E0 -> B r G).
  { intros r G x HD Hx. pose proof (D_proper c W HcplOK HcplAnti HtgAnti B HB1 r G x HD) as Hp.
    destruct (E2 x Hx Hp (Low_D c B r G x HD)) as (r1 & G1 & Hb & Hic).
    destruct (D_unique c W B HB2 x r G r1 G1 HD (D_IC_base c B r1 G1 x Hb Hic)) as [-> ->]. exact Hb. }
  constructor.
  - auto.
  - intros x Hx Hp HL. destruct (E2 x Hx Hp HL) as (r & G & Hb & Hic). exists r, G. exact (D_IC_base c B r G x Hb Hic).
  - intros r G x HD Hx y Hy Hnp. destruct (E1 r G y (Hctx r G x HD Hx) Hy) as [Hy0|(H & q & HH0 & Hh & Hq & Hqy)]; [exact Hy0|].
    exfalso. exact (Hnp H q HH0 Hh (Nat.le_0_l _) Hq Hqy).
  - intros r G x HD Hx. left. exact (Hctx r G x HD Hx).
  - intros x Hx Hp. left. split; [exact (E3 x Hx Hp) | exact Hx].
  - intros H _ _ Hlt. lia.
  - intros q r G x0 Hq. lia.
  - intros ti. split; [tauto|]. intros [H|[(x & Hx & _)|(H & r & Hx & _)]]; [exact H | lia | lia].
Qed.

(* the generic step: [Snew] is added *)
Lemma KInvH_grow j es ts es' ts' (Snew : nat -> Prop) : KInvH j es ts ->
  (forall x, In x es' <-> In x es \/ Snew x) ->
  (forall x, Snew x -> j < x) ->
  (forall x, Snew x -> pseudo x = false -> Low x -> exists r G, Dr r G x) ->
  (forall x, Snew x -> forall r G, Dr r G x -> (forall y, IC r G y -> NP (S j) es' y -> In y es') /\ (B r G \/ r < S j)) ->
  (In j es -> histS c j = true -> forall q, par j = Some q ->
     forall r G x y, Dr r G x -> In x es -> IC r G y -> Anc q y -> In y es') ->
  (forall x, Snew x -> pseudo x = true ->
     exists q r G, par x = Some q /\ cpl q = [x] /\ kd x = FInitial /\ Dr r G q /\ NTG q G /\ kd q = FCompound) ->
  (In j es -> kd j = FInitial -> forall q, par j = Some q -> forall y, IC q (itg q) y -> In y es') ->
  (In j es -> histS c j = true -> forall x, AddH j x -> In x es') ->
  (In j es -> kd j = FCompound -> forall r G x0, Dr r G j -> NTG j G -> cpl j = [x0] -> pseudo x0 = true -> In x0 es') ->
  (forall ti, In ti ts' <-> In ti ts \/ (In j es /\ kd j = FInitial /\ In ti (fs_trans (st c j))) \/
                            (In j es /\ histS c j = true /\ intersects (cpl j) hist = false /\ exists r, fs_trans (st c j) = ti :: r)) ->
  KInvH (S j) es' ts'.
Proof.
  intros [K0 Ks Kc Kr Kp Kh Kd Kt] Hes Hgt Hsn Hcn Hco Hpn Hpj Hhj Hdj Hts.
  assert (Hold : forall x, In x es' -> x <= j -> In x es).
  { intros x Hx Hle. apply Hes in Hx as [Hx|Hx]; [exact Hx | specialize (Hgt x Hx); lia]. }
  assert (Hsub : forall x, In x es -> In x es') by (intros x Hx; apply Hes; now left).
  constructor.
  - intros x Hx. apply Hsub. now apply K0.
  - intros x Hx Hp HL. apply Hes in Hx as [Hx|Hx]; [now apply Ks | now apply Hsn].
  - intros r G x HD Hx y Hy Hnp. apply Hes in Hx as [Hx|Hx]; [|exact (proj1 (Hcn x Hx r G HD) y Hy Hnp)].
    destruct (in_dec Nat.eq_dec j es) as [Hje|Hje]; [destruct (histS c j) eqn:Hhj'|].
    + destruct (wh_pseudo_parent c W j (hist_pseudo_e j Hhj')) as (q & Hq & _). fold (par j) in Hq.
      destruct (Anc_dec q y) as [Hqy|Hqy]; [exact (Hco Hje eq_refl q Hq r G x y HD Hx Hy Hqy)|].
      apply Hsub. apply (Kc r G x HD Hx y Hy). intros H q' HHe Hh Hle Hq'.
      destruct (Nat.eq_dec H j) as [->|Hne]; [rewrite Hq in Hq'; injection Hq' as <-; exact Hqy|].
      apply (Hnp H q' (Hsub H HHe) Hh); [lia | exact Hq'].
    + apply Hsub. apply (Kc r G x HD Hx y Hy). intros H q' HHe Hh Hle Hq'.
      destruct (Nat.eq_dec H j) as [->|Hne]; [congruence|]. apply (Hnp H q' (Hsub H HHe) Hh); [lia | exact Hq'].
    + apply Hsub. apply (Kc r G x HD Hx y Hy). intros H q' HHe Hh Hle Hq'.
      destruct (Nat.eq_dec H j) as [->|Hne]; [contradiction|]. apply (Hnp H q' (Hsub H HHe) Hh); [lia | exact Hq'].
  - intros r G x HD Hx. apply Hes in Hx as [Hx|Hx]; [destruct (Kr r G x HD Hx) as [H|H]; [now left | right; lia] | exact (proj2 (Hcn x Hx r G HD))].
  - intros x Hx Hp. apply Hes in Hx as [Hx|Hx].
    + destruct (Kp x Hx Hp) as [A|(q & r & G & A1 & A2 & A3 & A4 & A5 & A6 & A7)]; [now left|]. right. exists q, r, G. repeat split; auto.
      intros Hlt y Hy. destruct (Nat.eq_dec x j) as [->|Hne]; [exact (Hpj Hx A3 q A1 y Hy) | apply Hsub; apply A7; [lia | exact Hy]].
    + right. destruct (Hpn x Hx Hp) as (q & r & G & A1 & A2 & A3 & A4 & A5 & A6). exists q, r, G. repeat split; auto.
      intros Hlt. specialize (Hgt x Hx). lia.
  - intros H HHe Hh Hlt x Hx. pose proof (Hold H HHe ltac:(lia)) as HHe0.
    destruct (Nat.eq_dec H j) as [->|Hne]; [exact (Hhj HHe0 Hh x Hx) | apply Hsub; apply (Kh H HHe0 Hh); [lia | exact Hx]].
  - intros q r G x0 Hq Hqe HD Hk Hn Hc Hp. pose proof (Hold q Hqe ltac:(lia)) as Hqe0.
    destruct (Nat.eq_dec q j) as [->|Hne]; [exact (Hdj Hqe0 Hk r G x0 HD Hn Hc Hp) | apply Hsub; apply (Kd q r G x0); auto; lia].
  - intros ti. rewrite Hts, Kt. split.
    + intros [[H|[(x & Hx & He & Hk & Hin)|(H & r & Hx & He & A)]]|[(He & Hk & Hin)|(He & A1 & A2 & r & A3)]].
      * now left.
      * right. left. exists x. split; [lia|]. split; [now apply Hsub | auto].
      * right. right. exists H, r. split; [lia|]. split; [now apply Hsub | exact A].
      * right. left. exists j. split; [lia|]. split; [now apply Hsub | auto].
      * right. right. exists j, r. split; [lia|]. split; [now apply Hsub | auto].
    + intros [H|[(x & Hx & He & Hk & Hin)|(H & r & Hx & He & A1 & A2 & A3)]]; [left; now left| |].
      * pose proof (Hold x He ltac:(lia)) as He0.
        destruct (Nat.eq_dec x j) as [->|Hne]; [right; left; auto | left; right; left; exists x; repeat split; auto; lia].
      * pose proof (Hold H He ltac:(lia)) as He0.
        destruct (Nat.eq_dec H j) as [->|Hne]; [right; right; eauto 6 | left; right; right; exists H, r; repeat split; auto; lia].
Qed.

Lemma KInvH_keep j es ts : KInvH j es ts ->
  (In j es -> pseudo j = false) ->
  (In j es -> kd j = FCompound -> forall r G x0, Dr r G j -> NTG j G -> cpl j = [x0] -> pseudo x0 = true -> In x0 es) ->
  KInvH (S j) es ts.
Proof.
  intros HK Hj Hd.
  assert (Hnh : In j es -> histS c j = true -> False) by (intros He Hh; rewrite (hist_pseudo_e j Hh) in Hj; specialize (Hj He); discriminate).
  assert (Hni : In j es -> kd j = FInitial -> False).
  { intros He Hk. specialize (Hj He). unfold pseudoS in Hj. fold (kd j) in Hj. rewrite Hk in Hj. discriminate. }
  apply (KInvH_grow j es ts es ts (fun _ => False) HK); try tauto;
    try (intros He Hh; exfalso; solve [exact (Hnh He Hh) | exact (Hni He Hh)]).
Qed.

(* ---- facts about the state the loop is visiting ---- *)

(* below the parent of a pending history nothing proper is in the set *)
Lemma pending_nodesc j es H q x : HI j es -> In H es -> histS c H = true -> j <= H -> par H = Some q ->
  In x es -> Anc q x -> x = H.
Proof.
  intros HInv HHe Hh Hle Hq Hx Hqx. pose proof (hist_pseudo_e H Hh) as Hps.
  destruct (wh_pseudo_parent c W H Hps) as (q' & Hq' & Hkq). fold (par H) in Hq'. rewrite Hq in Hq'. injection Hq' as <-.
  destruct (closed_desc_child c (fun x => In x es) q x (hi_closed _ _ _ _ _ _ _ HInv) Hx Hqx) as (k & Hk & Hke & Hon).
  destruct (Nat.eq_dec k H) as [->|Hne].
  - destruct Hon as [->|HHx]; [reflexivity | exfalso; exact (pseudo_no_anc c W H x Hps HHx)].
  - exfalso. destruct (hi_uniq _ _ _ _ _ _ _ HInv q k H Hkq Hk Hq Hke HHe Hne) as [(_ & _ & C)|(_ & Blt & _)]; [congruence | lia].
Qed.

Lemma blocked_default_h j es ts : HI j es -> KInvH j es ts -> In j es -> kd j = FCompound -> blocked es j ->
  forall r G x0, Dr r G j -> NTG j G -> cpl j = [x0] -> pseudo x0 = true -> In x0 es.
Proof.
  intros HInv HK Hje Hkj (k & Hkin & Hb) r G x0 HD Hn Hc Hp.
  assert (Hpk : par k = Some j) by now apply (wh_children c W).
  assert (HLk : Low k) by (apply (Low_down c B j k (Low_D c B r G j HD)); now apply anc_parent).
  destruct Hb as [Hke|Hs]; [|exfalso; exact (E4 k Hs HLk)].
  destruct (pseudo k) eqn:Hpsk.
  - destruct (kh_pseudo _ _ _ HK k Hke Hpsk) as [[Hh Hk0]|(q & _ & _ & A1 & A2 & _)].
    + (* a targeted history below j: j is on a forced path *)
      exfalso. destruct (EH k Hk0 Hh) as (q & d & G' & Hq & Hb & Hdq & Hadd & (x1 & Hx1)).
      rewrite Hpk in Hq. injection Hq as <-. apply Hadd in Hx1 as [Hjx1 Hic1].
      destruct (hist_ctx j d G' r G j Hb Hdq (ex_intro _ x1 (conj Hjx1 Hic1)) HD (or_intror (D_below c B r G j HD))) as [-> ->].
      destruct Hic1 as [_ (g & Hg & Hon)]. apply (Hn g Hg).
      destruct Hon as [->|Hx1g]; [exact Hjx1 | eapply (hanc_trans c); eauto].
    + rewrite Hpk in A1. injection A1 as <-. rewrite Hc in A2. injection A2 as ->. exact Hke.
  - exfalso. destruct (kh_sound _ _ _ HK k Hke Hpsk HLk) as (r' & G' & HDk).
    destruct (D_inv c B r' G' k HDk) as (p & Hp' & C). unfold par in Hpk. rewrite Hpk in Hp'. injection Hp' as <-.
    destruct C as [(Hb & E & _)|[(_ & Hk')|[(HDj & _ & Ho)|(r1 & G1 & HDj & _ & _ & E1' & E2' & _)]]].
    + subst r'. exact (root_not_entered c W B HB2 j G' r G Hb HD).
    + unfold kd in Hkj. congruence.
    + destruct (D_unique c W B HB2 j r' G' r G HDj HD) as [-> ->].
      destruct (onp_below c j k G Hpk Ho) as (g & Hg & Ha). exact (Hn g Hg Ha).
    + subst r' G'. destruct (kh_root _ _ _ HK j (itg j) k HDk Hke) as [Hb|Hlt]; [|lia].
      exact (root_not_entered c W B HB2 j (itg j) r G Hb HD).
Qed.

Lemma unblocked_ctx_h j es ts : HI j es -> KInvH j es ts -> In j es -> kd j = FCompound -> ~ blocked es j ->
  exists r G, Dr r G j /\ NTG j G.
Proof.
  intros HInv HK Hje Hkj Hnb.
  assert (HL : Low j).
  { destruct (HLdec j) as [H|H]; [exact H|]. exfalso. apply Hnb.
    destruct (E6 j (hi_Q _ _ _ _ _ _ _ HInv j Hje) Hkj H) as (k & Hkin & [Hk0|Hs]); exists k; (split; [exact Hkin|]); [left | now right].
    exact (kh_e0 _ _ _ HK k Hk0). }
  destruct (kh_sound _ _ _ HK j Hje (compound_not_pseudo c j Hkj) HL) as (r & G & HD). exists r, G. split; [exact HD|].
  intros g Hg Ha. apply Hnb. destruct (hanc_child_on_path c j g Ha) as (k & Hpk & Hon). exists k.
  split; [now apply (wh_children c W)|]. left. apply (kh_ctx _ _ _ HK r G j HD Hje).
  - split; [eapply anc_step; [exact Hpk | exact (D_below c B r G j HD)] | exists g; auto].
  - intros H q HHe Hh Hle Hq Hqk. destruct (anc_child par _ _ _ Hpk Hqk) as [->|Hqj].
    + apply Hnb. exists H. split; [now apply (wh_children c W) | now left].
    + pose proof (hist_before H q j Hh Hq Hqj (compound_not_pseudo c j Hkj)). lia.
Qed.

(* ---- one step of the loop ---- *)

Lemma AddH_record H q : par H = Some q -> intersects (cpl H) hist = true -> forall x, AddH H x <-> Rh c hist H x.
Proof. intros Hq Hi x. unfold AddH. rewrite Hq, Hi. tauto. Qed.

Lemma AddH_default H q : par H = Some q -> intersects (cpl H) hist = false -> forall x, AddH H x <-> IC q (dflt H) x.
Proof. intros Hq Hi x. unfold AddH. rewrite Hq, Hi. tauto. Qed.

(* the history state j is visited: [es'] is es plus what j stands for *)
Lemma KInvH_hist j es ts es' ts' : HI j es -> KInvH j es ts -> In j es -> histS c j = true ->
  (forall x, In x es' <-> In x es \/ AddH j x) ->
  (forall ti, In ti ts' <-> In ti ts \/ (intersects (cpl j) hist = false /\ exists r, fs_trans (st c j) = ti :: r)) ->
  KInvH (S j) es' ts'.
Proof.
  intros HInv HK Hje Hh Hes Hts. pose proof (hist_pseudo_e j Hh) as Hps.
  assert (Hj0 : In j E0).
  { destruct (kh_pseudo _ _ _ HK j Hje Hps) as [[_ A]|(q & r & G & _ & _ & A & _)]; [exact A | exfalso; exact (hist_not_initial j Hh A)]. }
  destruct (EH j Hj0 Hh) as (q & d & G & Hq & Hb & Hdq & Hadd & (x1 & Hx1)).
  assert (Hx1' : exists x0, Anc q x0 /\ IC d G x0) by (exists x1; now apply Hadd).
  assert (HDnew : forall x, AddH j x -> Dr d G x) by (intros x Hx; apply Hadd in Hx as [_ Hic]; exact (D_IC_base c B d G x Hb Hic)).
  assert (Hqe : In q es) by exact (hi_closed _ _ _ _ _ _ _ HInv j q Hje Hq).
  assert (Hgt : forall x, AddH j x -> j < x).
  { intros x Hx. pose proof (D_proper c W HcplOK HcplAnti HtgAnti B HB1 d G x (HDnew x Hx)) as Hpx.
    apply Hadd in Hx as [Hqx _]. exact (hist_before j q x Hh Hq Hqx Hpx). }
  assert (Hsub : forall x, In x es -> In x es') by (intros x Hx; apply Hes; now left).
  (* the part of the context (d, G) outside q's sub-tree is already there *)
  assert (Houter : forall y, IC d G y -> ~ Anc q y -> NP (S j) es' y -> In y es').
  { intros y Hy Hnq Hnp. destruct (Nat.eq_dec d q) as [->|Hne]; [exfalso; apply Hnq; exact (proj1 Hy)|].
    assert (HDq : Dr d G q).
    { destruct Hdq as [->|Hdq]; [congruence|]. apply (D_IC_base c B d G q Hb). split; [exact Hdq|].
      destruct Hx1' as (x0 & Hqx0 & _ & (g & Hg & Hon)). exists g. split; [exact Hg|]. right.
      destruct Hon as [->|H0g]; [exact Hqx0 | eapply (hanc_trans c); eauto]. }
    apply Hsub. apply (kh_ctx _ _ _ HK d G q HDq Hqe y Hy). intros H q' HHe HhH Hle Hq'.
    destruct (Nat.eq_dec H j) as [->|HneH]; [rewrite Hq in Hq'; injection Hq' as <-; exact Hnq|].
    apply (Hnp H q' (Hsub H HHe) HhH); [lia | exact Hq']. }
  apply (KInvH_grow j es ts es' ts' (AddH j) HK Hes Hgt).
  - intros x Hx _ _. exists d, G. now apply HDnew.
  - intros x Hx r' G' HD'. destruct (D_unique c W B HB2 x r' G' d G HD' (HDnew x Hx)) as [-> ->]. split; [|now left].
    intros y Hy Hnp. destruct (Anc_dec q y) as [Hqy|Hqy]; [apply Hes; right; apply Hadd; auto | exact (Houter y Hy Hqy Hnp)].
  - intros _ _ q' Hq' r' G' x y HD' Hx Hy Hqy. rewrite Hq in Hq'. injection Hq' as <-.
    (* an old member of a context with a state below q: the context is (d, G) *)
    assert (Hr' : r' = q \/ Anc r' q).
    { pose proof (proj1 Hy) as Hr'y. destruct (hanc_chain c r' q y Hr'y Hqy) as [F|[F|F]]; [now left | now right|].
      exfalso. pose proof (D_below c B r' G' x HD') as Hr'x.
      assert (Hqx : Anc q x) by (eapply (hanc_trans c); eauto).
      pose proof (pending_nodesc j es j q x HInv Hje Hh (le_n _) Hq Hx Hqx) as ->.
      pose proof (D_proper c W HcplOK HcplAnti HtgAnti B HB1 r' G' j HD'). congruence. }
    destruct (hist_ctx q d G r' G' x Hb Hdq Hx1' HD' Hr') as [-> ->].
    apply Hes. right. apply Hadd. auto.
  - intros x Hx Hp. pose proof (D_proper c W HcplOK HcplAnti HtgAnti B HB1 d G x (HDnew x Hx)). congruence.
  - intros _ Hk. exfalso. exact (hist_not_initial j Hh Hk).
  - intros _ _ x Hx. apply Hes. now right.
  - intros _ Hk. exfalso. unfold pseudoS in Hps. fold (kd j) in Hps. rewrite Hk in Hps. discriminate.
  - intros ti. rewrite Hts. split.
    + intros [H|[A1 A2]]; [now left | right; right; auto].
    + intros [H|[(_ & Hk & _)|(_ & _ & A1 & A2)]]; [now left | exfalso; exact (hist_not_initial j Hh Hk) | right; auto].
Qed.

Lemma KInvH_step j es ts : j < n -> HI j es -> KInvH j es ts ->
  KInvH (S j) (fst (descend_one lg_fixed c cfg exitset hist (es, ts) j)) (snd (descend_one lg_fixed c cfg exitset hist (es, ts) j)).
Proof.
  intros Hj HInv HK. unfold descend_one. destruct (mem j es) eqn:Hm; cbn [negb].
  2: { cbn [fst snd]. apply mem_false_In in Hm. apply (KInvH_keep j es ts HK); intros H; contradiction. }
  apply mem_In in Hm.
  destruct (fs_type (st c j)) eqn:Hk.
  - (* atomic *) cbn [fst snd]. apply (KInvH_keep j es ts HK).
    + intros _. unfold pseudoS, kd. now rewrite Hk.
    + intros _ E. unfold kd in E. congruence.
  - (* compound *)
    fold (ch j). destruct (existsb _ (ch j)) eqn:Hb.
    + cbn [fst snd]. apply (existsb_hblocked c) in Hb. apply (KInvH_keep j es ts HK).
      * intros _. unfold pseudoS, kd. now rewrite Hk.
      * intros _ _. exact (blocked_default_h j es ts HInv HK Hm Hk Hb).
    + assert (Hnb : ~ blocked es j) by (intros Hbl; apply (existsb_hblocked c) in Hbl; unfold ch in Hb; rewrite Hb in Hbl; discriminate).
      cbn [fst snd]. destruct (wh_compound c W j Hk) as [Hne Hbelow]. fold (cpl j) in *.
      destruct (unblocked_ctx_h j es ts HInv HK Hm Hk Hnb) as (r & G & HD & Hn).
      assert (Hes : forall x, In x (fold_left (fun a cm => if mem cm (ch j) then a else set_union a (fs_ancestors (st c cm)))
                                       (cpl j) (set_union es (cpl j))) <-> In x es \/ IC j (cpl j) x).
      { intros x. rewrite (In_fold_cond_union c), In_set_union.
        rewrite <- (full_closed_IC c es j (cpl j) x (hi_closed _ _ _ _ _ _ _ HInv) Hm Hne Hbelow). split.
        - intros [[H|H]|(g & Hg & Hp & Hx)]; [tauto | right; exists x; split; [exact H | now left]|].
          right. exists g. split; [exact Hg|]. right. now apply (wh_anc c W).
        - intros [H|(g & Hg & [->|Ha])]; [tauto | tauto|].
          destruct (mem g (ch j)) eqn:Hgc.
          + left. left. apply mem_In, (wh_children c W) in Hgc.
            destruct (anc_child par _ _ _ Hgc Ha) as [->|Hxj]; [exact Hm | exact (closed_anc c (fun y => In y es) j x (hi_closed _ _ _ _ _ _ _ HInv) Hm Hxj)].
          + right. exists g. split; [exact Hg|]. split; [exact Hgc|]. now apply (wh_anc c W). }
      assert (Hgt : forall x, IC j (cpl j) x -> j < x) by (intros x [Hjx _]; now destruct (hanc_lt c W _ _ Hjx)).
      assert (Hnh : histS c j = true -> False) by (unfold histS; rewrite Hk; discriminate).
      assert (Hni : kd j = FInitial -> False) by (unfold kd; rewrite Hk; discriminate).
      destruct (initial_of_snd c W HcplOK j Hk) as [(x0 & ti & Hc & Hkx & Hpx & Htr & _ & Hitg)|(Hprop & _ & Hitg)].
      * (* the completion is the <initial> child *)
        fold (cpl j) in Hc.
        assert (Hnew : forall x, IC j (cpl j) x <-> x = x0).
        { intros x. rewrite Hc. rewrite (IC_children c W j [x0] x); [cbn; intuition|]. intros g [<-|[]]. exact Hpx. }
        assert (Hpsx : pseudo x0 = true) by (unfold pseudoS; fold (kd x0); unfold kd in *; now rewrite Hkx).
        apply (KInvH_grow j es ts _ ts (IC j (cpl j)) HK Hes Hgt).
        -- intros x Hx Hp. apply Hnew in Hx. subst x. congruence.
        -- intros x Hx r' G' HD'. apply Hnew in Hx. subst x.
           pose proof (D_proper c W HcplOK HcplAnti HtgAnti B HB1 r' G' x0 HD'). congruence.
        -- intros _ Hh. exfalso. exact (Hnh Hh).
        -- intros x Hx _. apply Hnew in Hx. subst x. exists j, r, G. fold (cpl j). auto 10.
        -- intros _ E. exfalso. exact (Hni E).
        -- intros _ Hh. exfalso. exact (Hnh Hh).
        -- intros _ _ r' G' x1 _ _ Hc' _. rewrite Hc in Hc'. injection Hc' as <-. apply Hes. right. now apply Hnew.
        -- intros ti'. split; [tauto|]. intros [H|[(_ & E & _)|(_ & E & _)]]; [exact H | exfalso; exact (Hni E) | exfalso; exact (Hnh E)].
      * (* the completion as written *)
        fold (cpl j) in Hprop, Hitg.
        assert (HDnew : forall x, IC j (cpl j) x -> Dr j (itg j) x).
        { intros x Hx. apply (D_IC_default c B r G j x HD Hk Hn). now rewrite Hitg. }
        apply (KInvH_grow j es ts _ ts (IC j (cpl j)) HK Hes Hgt).
        -- intros x Hx _ _. exists j, (itg j). now apply HDnew.
        -- intros x Hx r' G' HD'. destruct (D_unique c W B HB2 x r' G' j (itg j) HD' (HDnew x Hx)) as [-> ->].
           split; [|right; lia]. intros y Hy _. apply Hes. right. now rewrite <- Hitg.
        -- intros _ Hh. exfalso. exact (Hnh Hh).
        -- intros x Hx Hp. pose proof (D_proper c W HcplOK HcplAnti HtgAnti B HB1 _ _ x (HDnew x Hx)). congruence.
        -- intros _ E. exfalso. exact (Hni E).
        -- intros _ Hh. exfalso. exact (Hnh Hh).
        -- intros _ _ r' G' x1 _ _ Hc' Hp1. rewrite (Hprop x1) in Hp1; [discriminate | rewrite Hc'; now left].
        -- intros ti'. split; [tauto|]. intros [H|[(_ & E & _)|(_ & E & _)]]; [exact H | exfalso; exact (Hni E) | exfalso; exact (Hnh E)].
  - (* parallel *)
    cbn [fst snd].
    assert (Hes : forall x, In x (set_union es (fs_completion (st c j))) <-> In x es \/ par x = Some j).
    { intros x. rewrite In_set_union, (wh_parallel c W j x Hk), (wh_children c W). tauto. }
    assert (Hinv : forall k r' G', par k = Some j -> Dr r' G' k -> Dr r' G' j).
    { intros k r' G' Hpk HDk. destruct (D_inv c B r' G' k HDk) as (p & Hp' & C). unfold par in Hpk. rewrite Hpk in Hp'. injection Hp' as <-.
      destruct C as [(Hb & E & _)|[(HDj & _)|[(_ & Hk' & _)|(r1 & G1 & _ & Hk' & _)]]]; [|exact HDj|congruence|congruence].
      subst r'. pose proof (gc_kind c j G' (HB1 j G' Hb)). congruence. }
    assert (Hnh : histS c j = true -> False) by (unfold histS; rewrite Hk; discriminate).
    assert (Hni : kd j = FInitial -> False) by (unfold kd; rewrite Hk; discriminate).
    apply (KInvH_grow j es ts _ ts (fun x => par x = Some j) HK Hes).
    + intros x Hx. now destruct (wh_par_lt c W _ _ Hx).
    + intros x Hx Hp HL. pose proof (Low_up_par c B HB1 j x Hk Hx HL) as HLj.
      assert (Hpj : pseudo j = false) by (unfold pseudoS, kd; now rewrite Hk).
      destruct (kh_sound _ _ _ HK j Hm Hpj HLj) as (r & G & HD). exists r, G. exact (D_par c B r G j x HD Hk Hx).
    + intros x Hx r' G' HD'. pose proof (Hinv x r' G' Hx HD') as HDj. split.
      * intros y Hy Hnp. apply Hes. left. apply (kh_ctx _ _ _ HK r' G' j HDj Hm y Hy).
        intros H q HHe Hh Hle Hq. apply (Hnp H q); auto. apply Hes. now left.
        destruct (Nat.eq_dec H j) as [->|Hne]; [exfalso; exact (Hnh Hh) | lia].
      * destruct (kh_root _ _ _ HK r' G' j HDj Hm) as [H|H]; [now left | right; lia].
    + intros _ Hh. exfalso. exact (Hnh Hh).
    + intros x Hx Hp. exfalso. destruct (wh_pseudo_parent c W x Hp) as (q & Hq & Hkq). fold (par x) in Hq. rewrite Hx in Hq. injection Hq as <-. congruence.
    + intros _ E. exfalso. exact (Hni E).
    + intros _ Hh. exfalso. exact (Hnh Hh).
    + intros _ E. unfold kd in E. congruence.
    + intros ti'. split; [tauto|]. intros [H|[(_ & E & _)|(_ & E & _)]]; [exact H | exfalso; exact (Hni E) | exfalso; exact (Hnh E)].
  - (* final *) cbn [fst snd]. apply (KInvH_keep j es ts HK).
    + intros _. unfold pseudoS, kd. now rewrite Hk.
    + intros _ E. unfold kd in E. congruence.
  - (* shallow history *)
    assert (Hhs : histS c j = true) by (unfold histS; now rewrite Hk).
    destruct (wh_pseudo_parent c W j (hist_pseudo_e j Hhs)) as (q & Hpq & Hkq). fold (par j) in Hpq.
    rewrite orb_true_r. cbn [andb]. fold (cpl j). destruct (intersects (cpl j) hist) eqn:Hint; cbn [negb].
    + cbn [fst snd]. apply (KInvH_hist j es ts _ ts HInv HK Hm Hhs).
      * intros x. rewrite In_set_union, In_set_inter, (AddH_record j q Hpq Hint). unfold Rh. tauto.
      * intros ti. split; [tauto|]. intros [H|[E _]]; [exact H | congruence].
    + destruct (wh_hist_default c W j q Hhs Hpq) as (ti & r & Htr & Htne & Htg). rewrite Htr. cbn [fst snd].
      unfold deepS in Htg. rewrite Hk in Htg.
      assert (Hch : forall g, In g (ft_targets (tr c ti)) -> par g = Some q) by (intros g Hg; now destruct (Htg g Hg) as (_ & _ & H)).
      assert (Hdf : dflt j = ft_targets (tr c ti)) by (unfold dflt_targets; now rewrite Htr).
      apply (KInvH_hist j es ts _ _ HInv HK Hm Hhs).
      * intros x. rewrite In_set_union, (AddH_default j q Hpq Hint), Hdf. now rewrite (IC_children c W q _ x Hch).
      * intros ti'. rewrite In_insert_sorted'. split.
        -- intros [->|H]; [right; split; [exact Hint | exists r; exact Htr] | now left].
        -- intros [H|[_ (r' & E)]]; [now right | left; rewrite Htr in E; now injection E].
  - (* deep history *)
    assert (Hhs : histS c j = true) by (unfold histS; now rewrite Hk).
    assert (Hps : pseudo j = true) by exact (hist_pseudo_e j Hhs).
    destruct (wh_pseudo_parent c W j Hps) as (q & Hpq & Hkq). fold (par j) in Hpq.
    rewrite orb_true_r. cbn [andb]. fold (cpl j). destruct (intersects (cpl j) hist) eqn:Hint; cbn [negb].
    + cbn [fst snd]. apply (KInvH_hist j es ts _ ts HInv HK Hm Hhs).
      * intros x. rewrite In_set_union, In_set_inter, (AddH_record j q Hpq Hint). unfold Rh. tauto.
      * intros ti. split; [tauto|]. intros [H|[E _]]; [exact H | congruence].
    + destruct (wh_hist_default c W j q Hhs Hpq) as (ti & r & Htr & Htne & Htg). rewrite Htr. cbn [fst snd].
      unfold deepS in Htg. rewrite Hk in Htg.
      assert (Hbelow : forall g, In g (ft_targets (tr c ti)) -> Anc q g) by (intros g Hg; now destruct (Htg g Hg) as (_ & _ & H)).
      assert (Hni : intersects (ft_targets (tr c ti)) (fs_children (st c j)) = false).
      { destruct (intersects (ft_targets (tr c ti)) (fs_children (st c j))) eqn:E; [|reflexivity]. exfalso. apply intersects_spec in E as (x & _ & Hx). exact (ch_nil_pseudo c W j Hps x Hx). }
      rewrite Hni. cbn [negb fst snd].
      assert (Hqe : In q es) by exact (hi_closed _ _ _ _ _ _ _ HInv j q Hm Hpq).
      assert (Hdf : dflt j = ft_targets (tr c ti)) by (unfold dflt_targets; now rewrite Htr).
      apply (KInvH_hist j es ts _ _ HInv HK Hm Hhs).
      * intros x. rewrite In_fold_union, In_set_union, (AddH_default j q Hpq Hint), Hdf.
        rewrite <- (full_closed_IC c es q _ x (hi_closed _ _ _ _ _ _ _ HInv) Hqe Htne Hbelow). split.
        -- intros [[H|H]|(g & Hg & Hx)]; [tauto | right; exists x; split; [exact H | now left]|].
           right. exists g. split; [exact Hg|]. right. now apply (wh_anc c W).
        -- intros [H|(g & Hg & [->|Ha])]; [tauto | tauto|]. right. exists g. split; [exact Hg|]. now apply (wh_anc c W).
      * intros ti'. rewrite In_insert_sorted'. split.
        -- intros [->|H]; [right; split; [exact Hint | exists r; exact Htr] | now left].
        -- intros [H|[_ (r' & E)]]; [now right | left; rewrite Htr in E; now injection E].
  - (* initial *)
    assert (Hps : pseudo j = true) by (unfold pseudoS, kd; now rewrite Hk).
    assert (Hnh : histS c j = true -> False) by (unfold histS; rewrite Hk; discriminate).
    destruct (kh_pseudo _ _ _ HK j Hm Hps) as [[Hh _]|(q & r & G & Hpq & Hcq & _ & HD & Hn & Hkq & _)]; [exfalso; exact (Hnh Hh)|].
    destruct (wh_initial c W j q Hk Hpq) as (ti & Htr & Htne & Htg). rewrite Htr. cbn [fold_left fst snd].
    assert (Hbelow : forall g, In g (ft_targets (tr c ti)) -> Anc q g) by (intros g Hg; now destruct (Htg g Hg) as (H & _)).
    assert (Hqe : In q es) by exact (hi_closed _ _ _ _ _ _ _ HInv j q Hm Hpq).
    assert (Hitg : itg q = ft_targets (tr c ti)).
    { unfold RunConformInitialBase.itg. rewrite (initial_of_elem c q j ti Hcq Hk Htr). reflexivity. }
    assert (Hes : forall x, In x (fold_left (fun e x0 => set_union (insert_sorted x0 e) (fs_ancestors (st c x0))) (ft_targets (tr c ti)) es)
                            <-> In x es \/ IC q (itg q) x).
    { intros x. rewrite Hitg, (In_fold_ins_union c).
      rewrite <- (full_closed_IC c es q _ x (hi_closed _ _ _ _ _ _ _ HInv) Hqe Htne Hbelow). split.
      - intros [H|(g & Hg & [->|Hx])]; [tauto | right; exists g; split; [exact Hg | now left]|].
        right. exists g. split; [exact Hg|]. right. now apply (wh_anc c W).
      - intros [H|(g & Hg & [->|Ha])]; [tauto | right; exists g; tauto|]. right. exists g. split; [exact Hg|]. right. now apply (wh_anc c W). }
    assert (HDnew : forall x, IC q (itg q) x -> Dr q (itg q) x) by (intros x Hx; exact (D_IC_default c B r G q x HD Hkq Hn Hx)).
    destruct (wh_par_lt c W _ _ Hpq) as [Hqj _].
    apply (KInvH_grow j es ts _ (insert_sorted ti ts) (IC q (itg q)) HK Hes).
    + intros x [Hqx (g & Hg & Hon)]. rewrite Hitg in Hg. destruct (Htg g Hg) as (_ & A & _).
      exact (inner_gt_leaf c W q j x g Hpq Hps Hqx Hon A).
    + intros x Hx _ _. exists q, (itg q). now apply HDnew.
    + intros x Hx r' G' HD'. destruct (D_unique c W B HB2 x r' G' q (itg q) HD' (HDnew x Hx)) as [-> ->].
      split; [|right; lia]. intros y Hy _. apply Hes. now right.
    + intros _ Hh. exfalso. exact (Hnh Hh).
    + intros x Hx Hp. pose proof (D_proper c W HcplOK HcplAnti HtgAnti B HB1 _ _ x (HDnew x Hx)). congruence.
    + intros _ _ q' Hq' y Hy. rewrite Hpq in Hq'. injection Hq' as <-. apply Hes. now right.
    + intros _ Hh. exfalso. exact (Hnh Hh).
    + intros _ E. unfold kd in E. congruence.
    + intros ti'. rewrite In_insert_sorted'. rewrite Htr. cbn [In]. split.
      * intros [->|H]; [right; left; auto | now left].
      * intros [H|[(_ & _ & [<-|[]])|(_ & Hh & _)]]; [now right | now left | exfalso; exact (Hnh Hh)].
Qed.

Definition EfinH : list nat := fst (entry_set lg_fixed c cfg exitset hist tg ts0).
Definition TfinH : list nat := snd (entry_set lg_fixed c cfg exitset hist tg ts0).

Lemma inv_fin_h : HI n EfinH /\ KInvH n EfinH TfinH.
Proof.
  unfold EfinH, TfinH, entry_set.
  pose proof (fold_seq_inv c (descend_one lg_fixed c cfg exitset hist)
                           (fun j acc => HI j (fst acc) /\ KInvH j (fst acc) (snd acc)) n 0 (E0, ts0)) as H.
  cbn [Nat.add] in H. apply H.
  - split; [exact (HInv_0 c W cfg exitset tg tg_bound HE0_uniq Q Q0) | exact KInvH_0].
  - intros j [es ts] _ Hj [HI0 HK0]. cbn [fst snd] in HI0, HK0. split.
    + exact (HInv_step c W cfg exitset hist tg HH Q Qpar Qcomp Qpseudo j es ts Hj HI0).
    + exact (KInvH_step j es ts Hj HI0 HK0).
Qed.

(* ---- the result ---- *)

Lemma NP_fin y : NP n EfinH y.
Proof. intros H q HHe _ Hle _ _. destruct inv_fin_h as [HF _]. pose proof (hi_bound _ _ _ _ _ _ _ HF H HHe). lia. Qed.

Theorem engine_sound_h x : In x EfinH -> pseudo x = false -> Low x -> exists r G, Dr r G x.
Proof. exact (kh_sound _ _ _ (proj2 inv_fin_h) x). Qed.

Theorem engine_complete_h r G x : Dr r G x -> In x EfinH.
Proof.
  destruct inv_fin_h as [HF KF].
  induction 1 as [r G k Hb Hp Ho|r G p k HD IH Hk Hp|r G p k HD IH Hk Hp Ho|r G p k HD IH Hk Hn Hp Ho].
  - assert (Hic : IC r G k) by (destruct Ho as (g & Hg & Hon); split; [now apply anc_parent | exists g; auto]).
    destruct (E1 r G k Hb Hic) as [H0|(H & q & HH0 & Hh & Hq & Hqk)]; [exact (kh_e0 _ _ _ KF k H0)|].
    destruct (EH H HH0 Hh) as (q' & d & G' & Hq' & Hb' & Hdq & Hadd & _). rewrite Hq in Hq'. injection Hq' as <-.
    assert (Hdk : d = k \/ Anc d k) by (right; destruct Hdq as [->|Hdq]; [exact Hqk | eapply (hanc_trans c); eauto]).
    destruct (base_ctx_unique r G d G' k Hb Hb' (or_intror (anc_parent par _ _ Hp)) Hdk) as [-> ->].
    apply (kh_hist _ _ _ KF H (kh_e0 _ _ _ KF H HH0) Hh (hi_bound _ _ _ _ _ _ _ HF H (kh_e0 _ _ _ KF H HH0))). apply Hadd. auto.
  - apply (hgE2 c cfg exitset tg Q EfinH HF p k IH Hk). now apply (wh_children c W).
  - apply (kh_ctx _ _ _ KF r G p HD IH); [|apply NP_fin]. destruct Ho as (g & Hg & Hon).
    split; [eapply anc_step; [exact Hp | exact (D_below c B r G p HD)] | exists g; auto].
  - destruct (hgE3 c cfg exitset tg Q EfinH HF p IH Hk) as (k' & Hpk' & [Hs|[Hke Hps]]).
    { exfalso. apply (E4 k' Hs). apply (Low_down c B p k' (Low_D c B r G p HD)). now apply anc_parent. }
    assert (HLk : Low k') by (apply (Low_down c B p k' (Low_D c B r G p HD)); now apply anc_parent).
    destruct (kh_sound _ _ _ KF k' Hke Hps HLk) as (r' & G' & HDk).
    assert (E : r' = p /\ G' = itg p).
    { destruct (D_inv c B r' G' k' HDk) as (p' & Hp' & C). rewrite Hpk' in Hp'. injection Hp' as <-.
      destruct C as [(Hb & E & _)|[(_ & Hk')|[(HDp & _ & Ho')|(r1 & G1 & _ & _ & _ & E1' & E2' & _)]]]; [| |exfalso|auto].
      - exfalso. subst r'. exact (root_not_entered c W B HB2 p G' r G Hb HD).
      - exfalso. congruence.
      - destruct (D_unique c W B HB2 p r' G' r G HDp HD) as [-> ->].
        destruct (onp_below c p k' G Hpk' Ho') as (g & Hg & Ha). exact (Hn g Hg Ha). }
    destruct E as [-> ->]. apply (kh_ctx _ _ _ KF p (itg p) k' HDk Hke); [|apply NP_fin]. destruct Ho as (g & Hg & Hon).
    split; [now apply anc_parent | exists g; auto].
Qed.

(* the pseudo-states in the entry set: the targeted histories and the <initial> of the states entered by default *)
Theorem engine_hist_h x : In x EfinH -> histS c x = true -> In x E0.
Proof.
  intros Hx Hh. destruct inv_fin_h as [HF KF].
  destruct (kh_pseudo _ _ _ KF x Hx (hist_pseudo_e x Hh)) as [[_ A]|(q & r & G & _ & _ & A & _)]; [exact A | exfalso; exact (hist_not_initial x Hh A)].
Qed.

Theorem engine_initial_h x : In x EfinH /\ kd x = FInitial <->
  exists q r G, par x = Some q /\ cpl q = [x] /\ kd x = FInitial /\ Dr r G q /\ NTG q G /\ kd q = FCompound.
Proof.
  destruct inv_fin_h as [HF KF]. split.
  - intros [Hx Hk]. assert (Hp : pseudo x = true) by (unfold pseudoS; fold (kd x); now rewrite Hk).
    destruct (kh_pseudo _ _ _ KF x Hx Hp) as [[Hh _]|(q & r & G & A1 & A2 & A3 & A4 & A5 & A6 & _)]; [|exists q, r, G; auto 8].
    exfalso. exact (hist_not_initial x Hh Hk).
  - intros (q & r & G & A1 & A2 & A3 & A4 & A5 & A6).
    assert (Hp : pseudo x = true) by (unfold pseudoS; fold (kd x); now rewrite A3).
    split; [|exact A3]. apply (kh_dflt _ _ _ KF q r G x); auto. exact (D_lt c W B r G q A4). exact (engine_complete_h r G q A4).
Qed.

Theorem engine_ts_h ti : In ti TfinH <-> In ti ts0 \/
  (exists x, In x EfinH /\ kd x = FInitial /\ In ti (fs_trans (st c x))) \/
  (exists H r, In H E0 /\ histS c H = true /\ intersects (cpl H) hist = false /\ fs_trans (st c H) = ti :: r).
Proof.
  destruct inv_fin_h as [HF KF]. rewrite (kh_ts _ _ _ KF ti). split.
  - intros [H|[(x & _ & A)|(H & r & _ & A1 & A2 & A3)]]; [now left | right; left; exists x; exact A|].
    right. right. exists H, r. split; [exact (engine_hist_h H A1 A2) | auto].
  - intros [H|[(x & Hx & A)|(H & r & A1 & A2 & A3)]]; [now left | right; left; exists x; split; [exact (hi_bound _ _ _ _ _ _ _ HF x Hx) | auto]|].
    right. right. exists H, r. pose proof (kh_e0 _ _ _ KF H A1) as He. split; [exact (hi_bound _ _ _ _ _ _ _ HF H He) | auto].
Qed.

End HEngine.
