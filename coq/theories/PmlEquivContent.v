(* PmlEquivContent.v -- C06: executable content as the emitted Promela runs it (PmlStep.pexec_instr) against
   BasicContentExecutor (Exec.exec_instr), element by element: the same datamodel, the same queues (events by
   name), the same log output -- for content that cannot fail (every variable declared, no unsupported send, no
   expression outside the fragment: the emitted Promela has no error events) and as long as no `chan` of the
   emitted model is full.  Proofs only; the predicates [instr_ok] etc. are the statement's side conditions. *)
From V Require Import Base NameMatch Chart Exec Large Fast Trie PmlStep TraceLemmas PmlStepLemmas PmlEquivBase.
Local Open Scope nat_scope.

(* ------------------------------------------------------------------ content that cannot raise an error *)
Section Ok.
Variable dom : list N.      (* the declared <data> ids *)

Definition declared (v : N) : bool := existsb (fun w => (w =? v)%N) dom.

Fixpoint iexpr_ok (e : iexpr) : bool :=
  match e with
  | INum _ => true
  | IVar v => declared v
  | IAdd a b | ISub a b => iexpr_ok a && iexpr_ok b
  | IBad => false
  end.

Fixpoint bexpr_ok (e : bexpr) : bool :=
  match e with
  | BTrue | BFalse | BIn _ => true
  | BLt a b => iexpr_ok a && iexpr_ok b
  | BNot a => bexpr_ok a
  | BAnd a b | BOr a b => bexpr_ok a && bexpr_ok b
  | BBad => false
  end.

Fixpoint instr_ok (i : instr) : bool :=
  match i with
  | IRaise _ _ | ISend _ _ => true
  | ISendBadType _ _ | ISendBadTarget _ _ => false
  | ILog _ e => iexpr_ok e
  | IAssign _ v e => declared v && iexpr_ok e
  | IIf _ cnd body =>
    bexpr_ok cnd &&
    (fix go (l : list ifitem) : bool :=
       match l with
       | [] => true
       | FElseif c' :: r => bexpr_ok c' && go r
       | FElse :: r => go r
       | FInstr j :: r => instr_ok j && go r
       end) body
  end.

Definition items_ok :=
  fix go (l : list ifitem) : bool :=
    match l with
    | [] => true
    | FElseif c' :: r => bexpr_ok c' && go r
    | FElse :: r => go r
    | FInstr j :: r => instr_ok j && go r
    end.

Lemma instr_ok_if v cnd body : instr_ok (IIf v cnd body) = bexpr_ok cnd && items_ok body.
Proof. reflexivity. Qed.

Definition block_ok (b : block) : bool := forallb instr_ok b.
Definition blocks_ok (bs : list block) : bool := forallb block_ok bs.

Definition store_has (sto : store) : Prop := forall v, declared v = true -> lookup sto v <> None.

Lemma lookup_update sto v z w : lookup (update sto v z) w = if (v =? w)%N then Some z else lookup sto w.
Proof.
  induction sto as [|[k z'] r IH]; cbn [update lookup].
  - reflexivity.
  - destruct (k =? v)%N eqn:E.
    + apply N.eqb_eq in E. subst k. cbn [lookup]. destruct (v =? w)%N; reflexivity.
    + cbn [lookup]. destruct (k =? w)%N eqn:E2; [|exact IH].
      apply N.eqb_eq in E2. subst k. now rewrite N.eqb_sym, E.
Qed.

Lemma store_has_update sto v z : store_has sto -> store_has (update sto v z).
Proof.
  intros Hs w Hw. rewrite lookup_update. destruct (v =? w)%N; [discriminate | now apply Hs].
Qed.

Lemma ieval_total sto e : store_has sto -> iexpr_ok e = true -> ieval sto e = Some (pml_ieval sto e).
Proof.
  intros Hs. induction e as [z|v|a IHa b IHb|a IHa b IHb|]; cbn [iexpr_ok ieval pml_ieval]; intros Hok.
  - reflexivity.
  - specialize (Hs v Hok). destruct (lookup sto v); [reflexivity|contradiction].
  - apply andb_true_iff in Hok as [Ha Hb]. now rewrite (IHa Ha), (IHb Hb).
  - apply andb_true_iff in Hok as [Ha Hb]. now rewrite (IHa Ha), (IHb Hb).
  - discriminate.
Qed.

Lemma beval_total inst sto e : store_has sto -> bexpr_ok e = true -> beval inst sto e = Some (pml_beval inst sto e).
Proof.
  intros Hs. induction e as [| |sid|a b|a IHa|a IHa b IHb|a IHa b IHb|]; cbn [bexpr_ok beval pml_beval]; intros Hok;
    try reflexivity; try discriminate.
  - apply andb_true_iff in Hok as [Ha Hb]. now rewrite (ieval_total sto a Hs Ha), (ieval_total sto b Hs Hb).
  - now rewrite (IHa Hok).
  - apply andb_true_iff in Hok as [Ha Hb]. now rewrite (IHa Ha), (IHb Hb).
  - apply andb_true_iff in Hok as [Ha Hb]. now rewrite (IHa Ha), (IHb Hb).
Qed.
End Ok.

(* ------------------------------------------------------------------ the simulation *)
Section Sim.
Variable pv : pml_variant.
Variable c : fchart.
Variable iq eq : nat.
Variable dom : list N.
Hypothesis Hin : pv_in_reads_root pv = false.

(* datamodel, queues and visible trace agree *)
Definition Rx (s : pstate) (x : xstate) : Prop :=
  p_store s = x_store x /\ p_iq s = map ev_name (x_iq x) /\ p_eq s = map ev_name (x_eq x) /\
  pobs_list c (p_out s) = fobs_list (x_out x).

(* what executable content never touches *)
Definition pframe (s : pstate) := (p_cfg s, p_hist s, (p_spont s, p_tlf s, p_found s, p_fin s)).
(* `!flags[FINISHED] || flags[TOP_LEVEL_FINAL]`, the guard of every raise and send *)
Definition guard_ok (s : pstate) : Prop := negb (p_fin s) || p_tlf s = true.

Lemma guard_ok_frame s s' : pframe s' = pframe s -> guard_ok s -> guard_ok s'.
Proof. unfold pframe, guard_ok. intros [= _ _ _ E1 _ E2]. now rewrite E1, E2. Qed.

Lemma pml_in_inst cfg : pml_in pv c cfg = inst_of c cfg.
Proof. unfold pml_in. now rewrite Hin. Qed.

Definition p_if_items (f : instr -> pstate -> pstate) :=
  fix items (l : list ifitem) (taken : bool) (s : pstate) {struct l} : pstate :=
    match l with
    | [] => s
    | FElseif c' :: r => if taken then s else items r (pml_beval (pml_in pv c (p_cfg s)) (p_store s) c') s
    | FElse :: r => if taken then s else items r true s
    | FInstr j :: r => if taken then items r taken (f j s) else items r taken s
    end.

Notation pexec := (pexec_instr pv c iq eq).

Lemma pexec_if_unfold vid cnd body s :
  pexec (IIf vid cnd body) s = p_if_items pexec body (pml_beval (pml_in pv c (p_cfg s)) (p_store s) cnd) s.
Proof. reflexivity. Qed.

Lemma set_full_is_full s : p_full (set_full s) = true.
Proof. unfold set_full. destruct (p_full s) eqn:E; [exact E|reflexivity]. Qed.
Lemma set_full_frame s : pframe (set_full s) = pframe s.
Proof. unfold set_full. destruct (p_full s); reflexivity. Qed.

(* ---- frame and monotonicity of the "queue full" flag, unconditionally ---- *)
Definition keeps (f : pstate -> pstate) : Prop :=
  forall s, pframe (f s) = pframe s /\ (p_full s = true -> p_full (f s) = true).

Lemma keeps_id : keeps (fun s => s).
Proof. intros s. split; auto. Qed.
Lemma keeps_comp f g : keeps f -> keeps g -> keeps (fun s => g (f s)).
Proof.
  intros Hf Hg s. destruct (Hf s) as [F1 F2]. destruct (Hg (f s)) as [G1 G2]. split; [congruence|auto].
Qed.
Lemma keeps_fold {A} (f : pstate -> A -> pstate) l : (forall a, keeps (fun s => f s a)) -> keeps (fun s => fold_left f l s).
Proof.
  intros Hf. induction l as [|a r IH]; cbn [fold_left]; [apply keeps_id|].
  apply (keeps_comp (fun s => f s a) (fun s => fold_left f r s)); [apply Hf|exact IH].
Qed.

Lemma keeps_raise e : keeps (p_raise iq e).
Proof.
  intros s. unfold p_raise. destruct (negb (p_fin s) || p_tlf s); [|split; auto].
  destruct (length (p_iq s) <? iq); [split; auto|]. split; [apply set_full_frame|intros _; apply set_full_is_full].
Qed.
Lemma keeps_raise_direct e : keeps (p_raise_direct iq e).
Proof.
  intros s. unfold p_raise_direct.
  destruct (length (p_iq s) <? iq); [split; auto|]. split; [apply set_full_frame|intros _; apply set_full_is_full].
Qed.
Lemma keeps_send e : keeps (p_send eq e).
Proof.
  intros s. unfold p_send. destruct (negb (p_fin s) || p_tlf s); [|split; auto].
  destruct (length (p_eq s) <? eq); [split; auto|]. split; [apply set_full_frame|intros _; apply set_full_is_full].
Qed.
Lemma keeps_out t : keeps (out t).
Proof. intros s. split; auto. Qed.

Lemma keeps_instr i : keeps (pexec i).
Proof.
  induction i using instr_ind2 with (Q := fun it => match it with FInstr j => keeps (pexec j) | _ => True end);
    try exact I; try assumption.
  - apply keeps_raise.
  - apply keeps_send.
  - apply keeps_send.
  - apply keeps_id.
  - intros s. split; auto.
  - intros s. split; auto.
  - intros s. rewrite pexec_if_unfold.
    generalize (pml_beval (pml_in pv c (p_cfg s)) (p_store s) c0). revert s.
    induction H as [|it r Hit Hr IH]; intros s taken; cbn [p_if_items]; [split; auto|].
    destruct it as [c'| |j].
    + destruct taken; [split; auto|apply IH].
    + destruct taken; [split; auto|apply IH].
    + destruct taken; [|apply IH].
      destruct (Hit s) as [F1 F2]. destruct (IH (pexec j s) true) as [G1 G2]. split; [congruence|auto].
Qed.

Lemma keeps_block b : keeps (pexec_block pv c iq eq b).
Proof. unfold pexec_block. apply keeps_fold. intros i. apply keeps_instr. Qed.
Lemma keeps_blocks bs : keeps (pexec_blocks pv c iq eq bs).
Proof. unfold pexec_blocks. apply keeps_fold. intros b. apply keeps_block. Qed.

(* ---- one element ---- *)
Definition sim_instr (i : instr) : Prop :=
  forall s x, instr_ok dom i = true -> Rx s x -> store_has dom (x_store x) -> guard_ok s ->
    p_full (pexec i s) = false ->
    exists x', exec_instr ex_fixed (inst_of c (p_cfg s)) i x = (true, x') /\ Rx (pexec i s) x' /\ store_has dom (x_store x').

Lemma fobs_cons t l : fobs_list (t :: l) = match fobs t with Some v => v :: fobs_list l | None => fobs_list l end.
Proof. reflexivity. Qed.
Lemma pobs_cons t l : pobs_list c (t :: l) = match pobs c t with Some v => v :: pobs_list c l | None => pobs_list c l end.
Proof. reflexivity. Qed.

Lemma sim_if_items body : Forall (fun it => match it with FInstr j => sim_instr j | _ => True end) body ->
  forall taken s x, items_ok dom body = true -> Rx s x -> store_has dom (x_store x) -> guard_ok s ->
    p_full (p_if_items pexec body taken s) = false ->
    exists x', if_items (inst_of c (p_cfg s)) body taken x = (true, x') /\ Rx (p_if_items pexec body taken s) x' /\
               store_has dom (x_store x').
Proof.
  induction 1 as [|it r Hit Hr IH]; intros taken s x Hok R Hs G Hfull; cbn [p_if_items if_items] in *.
  - exists x. auto.
  - destruct it as [c'| |j]; cbn [items_ok] in Hok.
    + apply andb_true_iff in Hok as [Hc Hok]. destruct taken; [exists x; auto|].
      unfold is_true. destruct R as (R1 & R2 & R3 & R4).
      rewrite (beval_total dom (inst_of c (p_cfg s)) (x_store x) c' Hs Hc).
      rewrite pml_in_inst, R1 in *. apply IH; unfold Rx; auto.
    + destruct taken; [exists x; auto|]. apply IH; auto.
    + apply andb_true_iff in Hok as [Hj Hok]. destruct taken; [|apply IH; auto].
      destruct (keeps_instr j s) as [F1 _].
      assert (Hf1 : p_full (pexec j s) = false).
      { destruct (p_full (pexec j s)) eqn:E; [|reflexivity].
        assert (K : keeps (fun s => p_if_items pexec r true s)).
        { clear. induction r as [|it r IHr]; cbn [p_if_items]; [apply keeps_id|].
          destruct it as [c'| |j']; [apply keeps_id|apply keeps_id|].
          apply (keeps_comp (pexec j') (fun s => p_if_items pexec r true s)); [apply keeps_instr|exact IHr]. }
        destruct (K (pexec j s)) as [_ K2]. rewrite (K2 E) in Hfull. discriminate. }
      destruct (Hit s x Hj R Hs G Hf1) as (x1 & E1 & R1 & Hs1). rewrite E1.
      assert (Ec : p_cfg (pexec j s) = p_cfg s) by (unfold pframe in F1; congruence).
      rewrite <- Ec. apply IH; auto. now apply (guard_ok_frame s).
Qed.

Lemma sim_instr_all i : sim_instr i.
Proof.
  induction i using instr_ind2 with (Q := fun it => match it with FInstr j => sim_instr j | _ => True end);
    try exact I; try assumption; intros s xs Hok (R1 & R2 & R3 & R4) Hs G Hfull; cbn [instr_ok] in Hok; try discriminate.
  - (* raise *)
    cbn [pexec_instr exec_instr] in *. unfold p_raise in *. unfold guard_ok in G. rewrite G in *.
    destruct (length (p_iq s) <? iq); [|rewrite set_full_is_full in Hfull; discriminate].
    eexists. split; [reflexivity|]. split; [|exact Hs].
    unfold Rx. cbn. rewrite map_app, R2. repeat split; auto.
  - (* send *)
    cbn [pexec_instr exec_instr] in *. unfold p_send in *. unfold guard_ok in G. rewrite G in *.
    destruct (length (p_eq s) <? eq); [|rewrite set_full_is_full in Hfull; discriminate].
    eexists. split; [reflexivity|]. split; [|exact Hs].
    unfold Rx. cbn. rewrite map_app, R3. repeat split; auto.
  - (* log *)
    cbn [pexec_instr exec_instr emit x_store]. rewrite (ieval_total dom _ _ Hs Hok).
    eexists. split; [reflexivity|]. split; [|exact Hs].
    unfold Rx. cbn [out emit p_store p_iq p_eq p_out x_store x_iq x_eq x_out]. rewrite !fobs_cons, pobs_cons. cbn [fobs pobs].
    rewrite R1, R4. repeat split; auto.
  - (* assign *)
    apply andb_true_iff in Hok as [Hv He].
    cbn [pexec_instr exec_instr emit x_store]. rewrite (ieval_total dom _ _ Hs He).
    destruct (lookup (x_store xs) x) eqn:L; [|exfalso; now apply (Hs x Hv)].
    eexists. split; [reflexivity|]. split.
    + unfold Rx. cbn [set_pstore set_store emit p_store p_iq p_eq p_out x_store x_iq x_eq x_out]. rewrite !fobs_cons. cbn [fobs].
      rewrite R1. repeat split; auto.
    + cbn [set_store emit x_store]. now apply store_has_update.
  - (* if *)
    change (bexpr_ok dom c0 && items_ok dom body = true) in Hok. apply andb_true_iff in Hok as [Hc Hb].
    rewrite pexec_if_unfold in *. rewrite exec_if_unfold. cbv zeta.
    unfold is_true. cbn [emit x_store].
    rewrite (beval_total dom _ _ _ Hs Hc).
    rewrite pml_in_inst, R1 in *.
    destruct (sim_if_items body H (pml_beval (inst_of c (p_cfg s)) (x_store xs) c0) s (emit (TCb v) xs)) as (x3 & E3 & R' & Hs3); auto.
    { unfold Rx. cbn [emit x_store x_iq x_eq x_out]. rewrite fobs_cons. cbn [fobs]. auto. }
    rewrite E3. eexists. split; [reflexivity|]. split; [|exact Hs3].
    destruct R' as (Q1 & Q2 & Q3 & Q4). unfold Rx. cbn [emit x_store x_iq x_eq x_out]. rewrite fobs_cons. cbn [fobs]. auto.
Qed.

(* ---- blocks ---- *)
Lemma sim_block b : forall s x, block_ok dom b = true -> Rx s x -> store_has dom (x_store x) -> guard_ok s ->
  p_full (pexec_block pv c iq eq b s) = false ->
  Rx (pexec_block pv c iq eq b s) (exec_block ex_fixed (inst_of c (p_cfg s)) b x) /\
  store_has dom (x_store (exec_block ex_fixed (inst_of c (p_cfg s)) b x)).
Proof.
  unfold pexec_block. induction b as [|i r IH]; intros s x Hok R Hs G Hfull; cbn [fold_left exec_block] in *; [auto|].
  cbn [block_ok forallb] in Hok. apply andb_true_iff in Hok as [Hi Hr].
  destruct (keeps_instr i s) as [F1 _].
  assert (Hf1 : p_full (pexec i s) = false).
  { destruct (p_full (pexec i s)) eqn:E; [|reflexivity].
    destruct (keeps_block r (pexec i s)) as [_ K2]. unfold pexec_block in K2. rewrite (K2 E) in Hfull. discriminate. }
  destruct (sim_instr_all i s x Hi R Hs G Hf1) as (x1 & E1 & R1 & Hs1). rewrite E1.
  assert (Ec : p_cfg (pexec i s) = p_cfg s) by (unfold pframe in F1; congruence).
  rewrite <- Ec. apply IH; auto. now apply (guard_ok_frame s).
Qed.

Lemma sim_blocks bs : forall s x, blocks_ok dom bs = true -> Rx s x -> store_has dom (x_store x) -> guard_ok s ->
  p_full (pexec_blocks pv c iq eq bs s) = false ->
  Rx (pexec_blocks pv c iq eq bs s) (exec_blocks ex_fixed (inst_of c (p_cfg s)) bs x) /\
  store_has dom (x_store (exec_blocks ex_fixed (inst_of c (p_cfg s)) bs x)).
Proof.
  unfold pexec_blocks, exec_blocks. induction bs as [|b r IH]; intros s x Hok R Hs G Hfull; cbn [fold_left] in *; [auto|].
  cbn [blocks_ok forallb] in Hok. apply andb_true_iff in Hok as [Hb Hr].
  destruct (keeps_block b s) as [F1 _].
  assert (Hf1 : p_full (pexec_block pv c iq eq b s) = false).
  { destruct (p_full (pexec_block pv c iq eq b s)) eqn:E; [|reflexivity].
    destruct (keeps_blocks r (pexec_block pv c iq eq b s)) as [_ K2]. unfold pexec_blocks in K2. rewrite (K2 E) in Hfull. discriminate. }
  destruct (sim_block b s x Hb R Hs G Hf1) as (R1 & Hs1).
  assert (Ec : p_cfg (pexec_block pv c iq eq b s) = p_cfg s) by (unfold pframe in F1; congruence).
  assert (G1 : guard_ok (pexec_block pv c iq eq b s)) by now apply (guard_ok_frame s).
  destruct (IH _ _ Hr R1 Hs1 G1 Hfull) as [A B]. rewrite Ec in A, B. auto.
Qed.

End Sim.
