(* PmlEquivBase.v -- shared lemmas for the PmlEquiv* files (C06: the step process ChartToPromela emits against
   FastMicroStep, phase by phase).  Sets are strictly ascending lists: two such lists with the same members are
   equal, which is how a Promela loop `i < N` over a bit array and an engine loop over a flat_set are compared.
   Proofs only; no model is defined here. *)
From V Require Import Base NameMatch Chart Exec Large Trie PmlStep SetLemmas SerializeCodecLemmas.
From Coq Require Import Sorted.
Local Open Scope nat_scope.

(* ------------------------------------------------------------------ strictly ascending lists *)
Lemma ssorted_inv x l : ssorted (x :: l) -> ssorted l /\ (forall y, In y l -> x < y).
Proof.
  intros H. inversion H as [|? ? Hl Hall]; subst. split; [exact Hl|].
  rewrite Forall_forall in Hall. exact Hall.
Qed.

Lemma ssorted_ext a : forall b, ssorted a -> ssorted b -> (forall x, In x a <-> In x b) -> a = b.
Proof.
  induction a as [|x a IH]; intros [|y b] Ha Hb E.
  - reflexivity.
  - exfalso. apply (proj2 (E y)). now left.
  - exfalso. apply (proj1 (E x)). now left.
  - apply ssorted_inv in Ha as [Ha Hxa]. apply ssorted_inv in Hb as [Hb Hyb].
    assert (x = y).
    { destruct (proj1 (E x) (or_introl eq_refl)) as [->|Hx]; [reflexivity|].
      destruct (proj2 (E y) (or_introl eq_refl)) as [->|Hy]; [reflexivity|].
      specialize (Hxa y Hy). specialize (Hyb x Hx). lia. }
    subst y. f_equal. apply IH; [exact Ha|exact Hb|].
    intros z. split; intros Hz.
    + destruct (proj1 (E z) (or_intror Hz)) as [->|H']; [|exact H']. specialize (Hxa _ Hz). lia.
    + destruct (proj2 (E z) (or_intror Hz)) as [->|H']; [|exact H']. specialize (Hyb _ Hz). lia.
Qed.

Lemma ssorted_NoDup l : ssorted l -> NoDup l.
Proof.
  induction l as [|x l IH]; intros H; [constructor|].
  apply ssorted_inv in H as [Hl Hx]. constructor; [|now apply IH].
  intros Hin. specialize (Hx x Hin). lia.
Qed.

Lemma ssorted_seq a n : ssorted (seq a n).
Proof.
  revert a. induction n as [|n IH]; intros a; cbn [seq]; [constructor|].
  constructor; [apply IH|]. rewrite Forall_forall. intros y Hy. apply in_seq in Hy. lia.
Qed.

Lemma set_inter_ssorted a b : ssorted a -> ssorted (set_inter a b).
Proof. apply filter_ssorted. Qed.
Lemma set_diff_ssorted a b : ssorted a -> ssorted (set_diff a b).
Proof. apply filter_ssorted. Qed.

Lemma fold_union_ssorted {A} (f : A -> list nat) (l : list A) : forall acc,
  ssorted acc -> ssorted (fold_left (fun a y => set_union a (f y)) l acc).
Proof.
  induction l as [|y r IH]; intros acc H; cbn [fold_left]; [exact H|]. apply IH. now apply set_union_ssorted.
Qed.

(* ------------------------------------------------------------------ membership as a boolean *)
Lemma mem_true_In x l : mem x l = true -> In x l.
Proof. apply SetLemmas.mem_In. Qed.
Lemma In_mem_true x l : In x l -> mem x l = true.
Proof. apply SetLemmas.mem_In. Qed.

Lemma mem_ext a b : (forall x, In x a <-> In x b) -> forall x, mem x a = mem x b.
Proof.
  intros E x. apply Bool.eq_iff_eq_true. rewrite !SetLemmas.mem_In. apply E.
Qed.

Lemma intersects_false a b : intersects a b = false <-> forall x, In x a -> In x b -> False.
Proof.
  split.
  - intros H x Ha Hb. assert (T : intersects a b = true) by (apply intersects_spec; exists x; tauto). congruence.
  - intros H. destruct (intersects a b) eqn:E; [|reflexivity]. apply intersects_spec in E as (x & Ha & Hb). destruct (H x Ha Hb).
Qed.

Lemma intersects_ext a a' b b' : (forall x, In x a /\ In x b <-> In x a' /\ In x b') -> intersects a b = intersects a' b'.
Proof.
  intros E. apply Bool.eq_iff_eq_true. rewrite !intersects_spec.
  split; intros (x & H); exists x; apply E; exact H.
Qed.

(* ------------------------------------------------------------------ loops over `i < N` guarded by a bit array *)
(* a loop over all indices that acts only on the members of [L] is the loop over the members in that order *)
Lemma fold_guard_filter {S} (L : list nat) (g : S -> nat -> bool) (f : S -> nat -> S) (l : list nat) : forall s,
  fold_left (fun s i => if mem i L && g s i then f s i else s) l s =
  fold_left (fun s i => if g s i then f s i else s) (filter (fun i => mem i L) l) s.
Proof.
  induction l as [|i r IH]; intros s; cbn [fold_left filter]; [reflexivity|].
  destruct (mem i L); cbn [andb fold_left]; apply IH.
Qed.

Lemma filter_all {A} (f : A -> bool) l : (forall x, In x l -> f x = true) -> filter f l = l.
Proof.
  induction l as [|x r IH]; intros H; cbn [filter]; [reflexivity|].
  rewrite (H x (or_introl eq_refl)). f_equal. apply IH. intros y Hy. apply H. now right.
Qed.

Lemma filter_rev {A} (f : A -> bool) l : filter f (rev l) = rev (filter f l).
Proof.
  induction l as [|x r IH]; cbn [rev filter]; [reflexivity|].
  rewrite filter_app, IH. cbn [filter]. destruct (f x); cbn [rev]; [reflexivity|now rewrite app_nil_r].
Qed.

Lemma filter_mem_seq0 L n : ssorted L -> bounded n L -> filter (fun i => mem i L) (seq 0 n) = L.
Proof.
  intros Hs Hb. apply filter_mem_seq; [exact Hs|]. unfold bounded in Hb. rewrite Forall_forall in *.
  intros i Hi. specialize (Hb i Hi). lia.
Qed.

Lemma fold_ext {S A} (f g : S -> A -> S) l : (forall s a, In a l -> f s a = g s a) -> forall s, fold_left f l s = fold_left g l s.
Proof.
  induction l as [|a r IH]; intros H s; cbn [fold_left]; [reflexivity|].
  rewrite H by now left. apply IH. intros s' a' Ha. apply H. now right.
Qed.

(* a bit-array loop and a set loop: the same guard, the same set *)
Lemma fold_seq_as_set {S} (L : list nat) n (g : S -> nat -> bool) (f : S -> nat -> S) s :
  ssorted L -> bounded n L ->
  fold_left (fun s i => if mem i L && g s i then f s i else s) (seq 0 n) s =
  fold_left (fun s i => if g s i then f s i else s) L s.
Proof. intros Hs Hb. now rewrite fold_guard_filter, filter_mem_seq0. Qed.

Lemma fold_revseq_as_set {S} (L : list nat) n (g : S -> nat -> bool) (f : S -> nat -> S) s :
  ssorted L -> bounded n L ->
  fold_left (fun s i => if mem i L && g s i then f s i else s) (rev (seq 0 n)) s =
  fold_left (fun s i => if g s i then f s i else s) (rev L) s.
Proof. intros Hs Hb. now rewrite fold_guard_filter, filter_rev, filter_mem_seq0. Qed.

Lemma bounded_In n l x : bounded n l -> In x l -> x < n.
Proof. unfold bounded. rewrite Forall_forall. auto. Qed.
Lemma bounded_intro n l : (forall x, In x l -> x < n) -> bounded n l.
Proof. unfold bounded. rewrite Forall_forall. auto. Qed.

(* unions of ancestor lists, in whatever order the loop visits the states *)
Lemma In_fold_cond_union (g : nat -> bool) (f : nat -> list nat) (l : list nat) : forall acc x,
  In x (fold_left (fun a j => if g j then set_union a (f j) else a) l acc) <->
  In x acc \/ exists j, In j l /\ g j = true /\ In x (f j).
Proof.
  induction l as [|j r IH]; intros acc x; cbn [fold_left].
  - split; [tauto|]. intros [H|(j & [] & _)]. exact H.
  - rewrite IH. destruct (g j) eqn:G.
    + rewrite In_set_union. split.
      * intros [[H|H]|(k & Hk & Gk & Hx)]; [tauto| right; exists j; cbn; tauto | right; exists k; cbn; tauto].
      * intros [H|(k & [->|Hk] & Gk & Hx)]; [tauto|tauto|right; exists k; tauto].
    + split.
      * intros [H|(k & Hk & Gk & Hx)]; [tauto|right; exists k; cbn; tauto].
      * intros [H|(k & [->|Hk] & Gk & Hx)]; [tauto|congruence|right; exists k; tauto].
Qed.

Lemma fold_cond_union_ssorted (g : nat -> bool) (f : nat -> list nat) (l : list nat) : forall acc,
  ssorted acc -> ssorted (fold_left (fun a j => if g j then set_union a (f j) else a) l acc).
Proof.
  induction l as [|j r IH]; intros acc H; cbn [fold_left]; [exact H|].
  apply IH. destruct (g j); [now apply set_union_ssorted|exact H].
Qed.

(* ------------------------------------------------------------------ what is compared of the two traces *)
(* The lines / tokens that PmlStep.pview and PmlStep.fview both keep inside a microstep: states exited,
   transitions taken, states entered, log output.  (pview and fview also frame the microsteps and show the
   configurations; those are compared through p_cfg / l_cfg.) *)
Definition pobs (c : fchart) (t : ptok) : option vtok :=
  match t with
  | PExiting i => Some (VExit (sid_of c i))
  | PEntering i => Some (VEnter (sid_of c i))
  | PProcTrans j => Some (VTrans (ft_vid (tr c j)))
  | PLog z => Some (VLog z)
  | _ => None
  end.
Definition fobs (t : tok) : option vtok :=
  match t with
  | TXb s => Some (VExit s)
  | TTb v => Some (VTrans v)
  | TEb s => Some (VEnter s)
  | TLog z => Some (VLog z)
  | _ => None
  end.
Definition pobs_list (c : fchart) (l : list ptok) : list vtok := filter_map (pobs c) l.
Definition fobs_list (l : list tok) : list vtok := filter_map fobs l.

(* everything of a pstate but the trace and the history *)
Definition pcore (s : pstate) :=
  (p_cfg s, p_store s, p_iq s, p_eq s, p_full s, (p_spont s, p_tlf s, p_found s, p_fin s)).
