(* PmlParse.v -- C17: tokens, the expression AST of the Promela datamodel's parser
   (src/uscxml/plugins/datamodel/promela/parser/promela.ypp as compiled in promela.tab.cpp), the
   generic node type mirroring PromelaParserNode, the two printers and a precedence-climbing parser
   parameterised by an operator table.  The table of the *compiled* parser is regenerated on every
   run into gen/GenPmlPrec.v (probe of promela.tab.cpp); the table of C / Promela (spin.y) is
   [c_table] below.  Model only; lemmas are in PmlLemmas.v. *)
From V Require Import Base.
Local Open Scope nat_scope.

(* binary operators of the `expr` productions, named after their tokens *)
Inductive binop :=
| PML_OR | PML_AND | PML_BITOR | PML_BITXOR | PML_BITAND | PML_EQ | PML_NE
| PML_GT | PML_LT | PML_GE | PML_LE | PML_LSHIFT | PML_RSHIFT
| PML_PLUS | PML_MINUS | PML_TIMES | PML_DIVIDE | PML_MODULO.

Definition all_binops : list binop :=
  [PML_OR; PML_AND; PML_BITOR; PML_BITXOR; PML_BITAND; PML_EQ; PML_NE; PML_GT; PML_LT; PML_GE; PML_LE;
   PML_LSHIFT; PML_RSHIFT; PML_PLUS; PML_MINUS; PML_TIMES; PML_DIVIDE; PML_MODULO].

Definition binop_code (o : binop) : nat :=
  match o with
  | PML_OR => 0 | PML_AND => 1 | PML_BITOR => 2 | PML_BITXOR => 3 | PML_BITAND => 4 | PML_EQ => 5
  | PML_NE => 6 | PML_GT => 7 | PML_LT => 8 | PML_GE => 9 | PML_LE => 10 | PML_LSHIFT => 11
  | PML_RSHIFT => 12 | PML_PLUS => 13 | PML_MINUS => 14 | PML_TIMES => 15 | PML_DIVIDE => 16
  | PML_MODULO => 17
  end.
Definition binop_eqb (a b : binop) : bool := Nat.eqb (binop_code a) (binop_code b).

(* unary operators: `!` (PML_NEG) and unary minus (a PML_MINUS node with one operand) *)
Inductive unop := UNeg | UMinus.

(* The expression fragment of the grammar that the model covers.  Variable references are a plain
   name, name[expr], or name.f.g... (field paths of plain names); `a[i].f` and `a.f[i]`, which the
   grammar also admits, are outside the model (the parser model answers [PUnsup]). *)
Inductive expr :=
| EConst (n : N)                                  (* {DIGIT}+ *)
| EBoolc (b : bool)                               (* true | false, lexed as PML_CONST *)
| EVar (x : bytes)
| EIdx (x : bytes) (i : expr)
| EFld (x : bytes) (f : bytes) (fs : list bytes)
| EUn (u : unop) (a : expr)
| EBin (o : binop) (a b : expr).

Inductive token :=
| TNum (n : N) | TTrue | TFalse | TName (x : bytes)
| TBin (o : binop)          (* the token PML_MINUS is also the unary minus *)
| TNot | TLP | TRP | TLB | TRB | TDot.

(* ---- operator tables ---- *)

(* [pt_level o]: precedence level of the binary operator (higher binds tighter); [pt_rassoc o]:
   right-associative level; [pt_neg]/[pt_umin]: level of the unary operator, i.e. its operand absorbs
   exactly the binary operators of a strictly higher level (yacc: the rule's %prec against the
   look-ahead token). *)
Record ptable := {
  pt_level : binop -> nat;
  pt_rassoc : binop -> bool;
  pt_neg : nat;
  pt_umin : nat
}.

(* C / Promela (spin.y):  ||  <  &&  <  |  <  ^  <  &  <  == !=  <  < <= > >=  <  << >>  <  + -  <  * / %
   <  unary; all binary operators left-associative. *)
Definition c_level (o : binop) : nat :=
  match o with
  | PML_OR => 1 | PML_AND => 2 | PML_BITOR => 3 | PML_BITXOR => 4 | PML_BITAND => 5
  | PML_EQ | PML_NE => 6
  | PML_GT | PML_LT | PML_GE | PML_LE => 7
  | PML_LSHIFT | PML_RSHIFT => 8
  | PML_PLUS | PML_MINUS => 9
  | PML_TIMES | PML_DIVIDE | PML_MODULO => 10
  end.
Definition c_unary_level : nat := 10.
Definition c_table : ptable :=
  {| pt_level := c_level; pt_rassoc := fun _ => false; pt_neg := c_unary_level; pt_umin := c_unary_level |}.

(* the table of promela.ypp / promela.tab.cpp as pinned: `%left PML_OR PML_AND`,
   `%left PML_BITOR PML_BITXOR PML_BITAND`, unary minus with `%prec PML_MINUS` *)
Definition pinned_level (o : binop) : nat :=
  match o with
  | PML_OR | PML_AND => 1
  | PML_BITOR | PML_BITXOR | PML_BITAND => 2
  | PML_EQ | PML_NE => 3
  | PML_GT | PML_LT | PML_GE | PML_LE => 4
  | PML_LSHIFT | PML_RSHIFT => 5
  | PML_PLUS | PML_MINUS => 6
  | PML_TIMES | PML_DIVIDE | PML_MODULO => 7
  end.
Definition pinned_table : ptable :=
  {| pt_level := pinned_level; pt_rassoc := fun _ => false; pt_neg := 7; pt_umin := 6 |}.

(* does the table order every operator pair, and the unary operators against every binary operator,
   as C does?  (finite check; [table_is_C_sound] in PmlLemmas.v turns it into equality of the parsers) *)
Definition pair_left (T : ptable) (o1 o2 : binop) : bool :=
  (* `1 o1 2 o2 3` groups to the left *)
  if pt_level T o2 <? pt_level T o1 then true
  else if pt_level T o1 <? pt_level T o2 then false
  else negb (pt_rassoc T o2).
Definition unary_absorbs (lv : nat) (T : ptable) (o : binop) : bool := lv <? pt_level T o.

Definition table_is_C (T : ptable) : bool :=
  forallb (fun o1 => forallb (fun o2 => Bool.eqb (pair_left T o1 o2) (pair_left c_table o1 o2)) all_binops) all_binops
  && forallb (fun o => negb (unary_absorbs (pt_neg T) T o) && negb (unary_absorbs (pt_umin T) T o)) all_binops.

(* ---- printers (C conventions; independent of the implementation's table) ---- *)

Definition atom_level : nat := 100.
Definition elevel (e : expr) : nat := match e with EBin o _ _ => c_level o | _ => atom_level end.
Definition paren_if (c : bool) (l : list token) : list token := if c then TLP :: l ++ [TRP] else l.
Definition utok (u : unop) : token := match u with UNeg => TNot | UMinus => TBin PML_MINUS end.
Definition path_tokens (fs : list bytes) : list token := flat_map (fun g => [TDot; TName g]) fs.
Definition boolc_tok (b : bool) : token := if b then TTrue else TFalse.

(* minimal parenthesisation: parentheses only where C's precedence and left-associativity need them *)
Fixpoint print_min (e : expr) : list token :=
  match e with
  | EConst n => [TNum n]
  | EBoolc b => [boolc_tok b]
  | EVar x => [TName x]
  | EIdx x i => TName x :: TLB :: print_min i ++ [TRB]
  | EFld x f fs => TName x :: TDot :: TName f :: path_tokens fs
  | EUn u a => utok u :: paren_if (elevel a <? S c_unary_level) (print_min a)
  | EBin o a b => paren_if (elevel a <? c_level o) (print_min a) ++
                  TBin o :: paren_if (elevel b <? S (c_level o)) (print_min b)
  end.

(* full parenthesisation: every operator application in parentheses *)
Fixpoint print_full (e : expr) : list token :=
  match e with
  | EConst n => [TNum n]
  | EBoolc b => [boolc_tok b]
  | EVar x => [TName x]
  | EIdx x i => TName x :: TLB :: print_full i ++ [TRB]
  | EFld x f fs => TName x :: TDot :: TName f :: path_tokens fs
  | EUn u a => TLP :: utok u :: print_full a ++ [TRP]
  | EBin o a b => TLP :: print_full a ++ TBin o :: print_full b ++ [TRP]
  end.

(* ---- precedence-climbing parser ---- *)

Inductive presult :=
| POk (e : expr) (rest : list token)
| PErr                       (* syntax error: the implementation raises error.execution *)
| PUnsup                     (* input of the real grammar outside the modelled fragment *)
| PFuel.                     (* out of fuel: excluded by [parse_fuel_enough] *)

Fixpoint parse_path (ts : list token) : option (list bytes * list token) :=
  match ts with
  | TDot :: TName g :: r =>
      match parse_path r with Some (gs, r') => Some (g :: gs, r') | None => None end
  | TDot :: _ => None
  | _ => Some ([], ts)
  end.

Section Parser.
Variable T : ptable.

Definition ulevel (u : unop) : nat := match u with UNeg => pt_neg T | UMinus => pt_umin T end.

Fixpoint parse_expr (fuel : nat) (minp : nat) (ts : list token) {struct fuel} : presult :=
  match fuel with
  | O => PFuel
  | S f =>
    match parse_atom f ts with
    | POk lhs rest => parse_loop f minp lhs rest
    | r => r
    end
  end
with parse_atom (fuel : nat) (ts : list token) {struct fuel} : presult :=
  match fuel with
  | O => PFuel
  | S f =>
    match ts with
    | TNum n :: r => POk (EConst n) r
    | TTrue :: r => POk (EBoolc true) r
    | TFalse :: r => POk (EBoolc false) r
    | TLP :: r =>
        match parse_expr f 0 r with
        | POk e (TRP :: r') => POk e r'
        | POk _ _ => PErr
        | o => o
        end
    | TNot :: r =>
        match parse_expr f (S (ulevel UNeg)) r with
        | POk e r' => POk (EUn UNeg e) r'
        | o => o
        end
    | TBin PML_MINUS :: r =>
        match parse_expr f (S (ulevel UMinus)) r with
        | POk e r' => POk (EUn UMinus e) r'
        | o => o
        end
    | TName x :: TLB :: r =>
        match parse_expr f 0 r with
        | POk i (TRB :: TDot :: _) => PUnsup
        | POk i (TRB :: r') => POk (EIdx x i) r'
        | POk _ _ => PErr
        | o => o
        end
    | TName x :: TDot :: r =>
        match parse_path (TDot :: r) with
        | Some (g :: gs, TLB :: _) => PUnsup
        | Some (g :: gs, r') => POk (EFld x g gs) r'
        | _ => PErr
        end
    | TName x :: r => POk (EVar x) r
    | _ => PErr
    end
  end
with parse_loop (fuel : nat) (minp : nat) (lhs : expr) (ts : list token) {struct fuel} : presult :=
  match fuel with
  | O => PFuel
  | S f =>
    match ts with
    | TBin o :: r =>
        if minp <=? pt_level T o then
          match parse_expr f (if pt_rassoc T o then pt_level T o else S (pt_level T o)) r with
          | POk rhs r' => parse_loop f minp (EBin o lhs rhs) r'
          | x => x
          end
        else POk lhs ts
    | _ => POk lhs ts
    end
  end.

Definition parse_fuel (ts : list token) : nat := 3 * length ts + 3.

(* the whole input must be one expression *)
Definition parse (ts : list token) : presult :=
  match parse_expr (parse_fuel ts) 0 ts with
  | POk e [] => POk e []
  | POk _ _ => PErr
  | r => r
  end.
End Parser.

(* ---- the generic node type of the implementation (PromelaParserNode: type, value, operands) ---- *)

Inductive ntype :=
| NBin (o : binop) | NNEG | NCONST | NNAME | NVAR_ARRAY | NCMPND
| NASGN | NINCR | NDECR | NSTMNT | NDECL | NDECLLIST | NVARLIST | NTYPE | NSHOW.

Inductive nvalue := NVnone | NVnum (n : N) | NVtrue | NVfalse | NVtxt (s : bytes).

Inductive pnode := PNode (ty : ntype) (v : nvalue) (ops : list pnode).

Definition name_node (x : bytes) : pnode := PNode NNAME (NVtxt x) [].

Fixpoint to_node (e : expr) : pnode :=
  match e with
  | EConst n => PNode NCONST (NVnum n) []
  | EBoolc b => PNode NCONST (if b then NVtrue else NVfalse) []
  | EVar x => name_node x
  | EIdx x i => PNode NVAR_ARRAY NVnone [name_node x; to_node i]
  | EFld x f fs => PNode NCMPND NVnone (name_node x :: name_node f :: map name_node fs)
  | EUn UNeg a => PNode NNEG NVnone [to_node a]
  | EUn UMinus a => PNode (NBin PML_MINUS) NVnone [to_node a]      (* MINUS with ONE operand *)
  | EBin o a b => PNode (NBin o) NVnone [to_node a; to_node b]
  end.

(* size measures used by the generators and the lemmas *)
Fixpoint esize (e : expr) : nat :=
  match e with
  | EIdx _ i => S (esize i)
  | EUn _ a => S (esize a)
  | EBin _ a b => S (esize a + esize b)
  | _ => 1
  end.
