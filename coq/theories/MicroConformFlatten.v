(* MicroConformFlatten.v -- C01, microstep comparison for the charts LargeMicroStep::init builds
   (c = flatten late t0) on boolean hypotheses; the premises of MicroConformCompose.microstep_conforms_sec
   about Appendix D's exit set and transition domain are discharged by ExitSetLemmas; corners outside the
   hypotheses are exhibited; the hypotheses are satisfiable.  Proofs only. *)
From V Require Import Base NameMatch NameMatchLemmas Chart Exec Large LargeLemmas Spec Legal SetLemmas
  LegalAbstract LegalLarge LegalRun WfCore Interp LegalOracle LargeCacheLemmas ExitSetLemmas
  SelectConform SelectConformLemmas SelectConformOrder SelectConformRoot SelectConformFlatten
  MicroConform MicroConformLemmas MicroConformEntry MicroConformCompose.
Local Open Scope nat_scope.

(* ------------------------------------------------------------------ Appendix D's exit set of a transition list *)

Lemma ces_union c cfg h ts z :
  In z (compute_exit_set c cfg h ts) <-> exists t, In t ts /\ In z (compute_exit_set c cfg h [t]).
Proof.
  unfold compute_exit_set.
  assert (Hstep : forall acc t,
     In z (match ft_targets t with
           | [] => acc
           | _ :: _ => match transition_domain c h t with
                       | Some d => fold_left (fun a s => if is_descendant c s d then addn s a else a) cfg acc
                       | None => acc
                       end
           end) <-> In z acc \/
     In z (match ft_targets t with
           | [] => []
           | _ :: _ => match transition_domain c h t with
                       | Some d => fold_left (fun a s => if is_descendant c s d then addn s a else a) cfg []
                       | None => []
                       end
           end)).
  { intros acc t. destruct (ft_targets t); [cbn; tauto|]. destruct (transition_domain c h t) as [d|]; [|cbn; tauto].
    rewrite !In_fold_desc. cbn [In]. tauto. }
  assert (Hg : forall l acc,
     In z (fold_left (fun acc t => match ft_targets t with
           | [] => acc
           | _ :: _ => match transition_domain c h t with
                       | Some d => fold_left (fun a s => if is_descendant c s d then addn s a else a) cfg acc
                       | None => acc
                       end
           end) l acc) <-> In z acc \/ exists t, In t l /\
     In z (match ft_targets t with
           | [] => []
           | _ :: _ => match transition_domain c h t with
                       | Some d => fold_left (fun a s => if is_descendant c s d then addn s a else a) cfg []
                       | None => []
                       end
           end)).
  { induction l as [|t r IH]; intros acc; cbn [fold_left].
    - split; [tauto | intros [H|(t & [] & _)]; exact H].
    - rewrite IH, Hstep. split.
      + intros [[H|H]|(t' & Ht' & H)]; [tauto | right; exists t; cbn; tauto | right; exists t'; cbn; tauto].
      + intros [H|(t' & [<-|Ht'] & H)]; [tauto | tauto | right; exists t'; tauto]. }
  rewrite Hg. cbn [fold_left In]. split.
  - intros [[]|(t & Ht & H)]. exists t. split; [exact Ht|]. apply Hstep. now right.
  - intros (t & Ht & H). right. exists t. split; [exact Ht|]. apply Hstep in H as [[]|H]. exact H.
Qed.

(* ------------------------------------------------------------------ facts about flatten *)

Lemma flatten_has_body late t0 ti :
  ft_has_body (tr (flatten late t0) ti) = false -> ft_body (tr (flatten late t0) ti) = [].
Proof.
  unfold tr. destruct (nth_in_or_default ti (fc_trans (flatten late t0)) dummy_trans) as [Hin|Hd].
  - unfold flatten in Hin at 2. cbn [fc_trans] in Hin. apply in_map_iff in Hin as (y & Hy & _). rewrite <- Hy.
    unfold mk_trans. cbn [ft_has_body ft_body]. destruct (tt_body (snd (fst y))); [reflexivity | discriminate].
  - rewrite Hd. reflexivity.
Qed.

Lemma flatten_early_data t0 i : i <> 0 -> fs_data (st (flatten false t0) i) = [].
Proof.
  intros Hi. destruct (Nat.lt_ge_cases i (nstates (flatten false t0))) as [Hlt|Hge].
  - revert Hlt. unfold nstates, st, flatten. cbn [fc_states]. rewrite map_length, combine_length, seq_length, Nat.min_id.
    intros Hs. set (nodes := doc_nodes (resort t0) 0 None) in *.
    set (g := fun p : tree * option nat * nat => let '(t1, parent, j) := p in _).
    rewrite (nth_indep _ dummy_state (g ((resort t0, None), 0))) by (now rewrite map_length, combine_length, seq_length, Nat.min_id).
    rewrite map_nth, combine_nth by (now rewrite seq_length).
    rewrite seq_nth by exact Hs. cbn [plus].
    destruct (nth i nodes (resort t0, None)) as [t1 p1]. unfold g. cbn [fs_data]. destruct i; [congruence | reflexivity].
  - unfold st. rewrite nth_overflow by exact Hge. reflexivity.
Qed.

Lemma targets_antichainb_sound c : WF c -> targets_antichainb c = true ->
  forall ti g1 g2, In g1 (ft_targets (tr c ti)) -> In g2 (ft_targets (tr c ti)) ->
  ~ LegalAbstract.Anc (fun i => fs_parent (st c i)) g1 g2.
Proof.
  intros W H ti g1 g2 H1 H2 Ha. destruct (Nat.lt_ge_cases ti (ntrans c)) as [Hlt|Hge].
  - unfold targets_antichainb in H. pose proof (forallb_seq_lt _ _ H ti Hlt) as H'. cbn beta in H'.
    rewrite forallb_forall in H'. specialize (H' g1 H1). rewrite forallb_forall in H'. specialize (H' g2 H2).
    apply negb_true_iff, mem_false_In in H'. apply H'. now apply (wf_anc c W).
  - assert (E : tr c ti = dummy_trans) by (unfold tr; now apply nth_overflow). rewrite E in H1. destruct H1.
Qed.

Lemma done_okb_sound c : WF c -> done_okb c = true ->
  (forall i p, fs_type (st c i) = FFinal -> fs_parent (st c i) = Some p -> fs_type (st c p) <> FParallel) /\
  (forall i p a, fs_type (st c i) = FFinal -> fs_parent (st c i) = Some p ->
     LegalAbstract.Anc (fun i => fs_parent (st c i)) a p ->
     fs_parent (st c p) = Some a \/ fs_type (st c a) <> FParallel).
Proof.
  intros W H.
  assert (Hi : forall i p, fs_type (st c i) = FFinal -> fs_parent (st c i) = Some p ->
     is_parb c p = false /\
     forall a, In a (fs_ancestors (st c i)) ->
       (a =? p) || match fs_parent (st c p) with Some g => a =? g | None => false end || negb (is_parb c a) = true).
  { intros i p Hf Hp. destruct (wf_par_lt c W _ _ Hp) as [_ Hin].
    unfold done_okb in H. pose proof (forallb_seq_lt _ _ H i Hin) as H'. cbn beta in H'. rewrite Hf, Hp in H'.
    apply andb_true_iff in H' as [A B]. split; [now apply negb_true_iff in A|]. now rewrite forallb_forall in B. }
  split.
  - intros i p Hf Hp Hpar. destruct (Hi i p Hf Hp) as [A _]. unfold is_parb in A. rewrite Hpar in A. discriminate.
  - intros i p a Hf Hp Ha. destruct (Hi i p Hf Hp) as [_ B].
    specialize (B a (proj2 (wf_anc c W i a) (anc_step _ _ _ _ Hp Ha))).
    replace (a =? p) with false in B by (symmetry; apply Nat.eqb_neq; intros ->; exact (anc_irrefl c W _ Ha)).
    cbn [orb] in B. apply orb_true_iff in B as [B|B].
    + left. destruct (fs_parent (st c p)) as [g|]; [|discriminate]. apply Nat.eqb_eq in B. now subst.
    + right. intros Hpar. unfold is_parb in B. rewrite Hpar in B. discriminate.
Qed.

(* ------------------------------------------------------------------ the microstep theorem for flatten *)

Section Flat.
Variable late : bool.
Variable t0 : tree.
Notation c := (flatten late t0).

Lemma exit_sets_agree cfg' hv sel : wf_coreb c = true -> legal_configb c (0 :: cfg') = true ->
  forall z, In z (compute_exit_set c cfg' hv (map (tr c) sel)) <-> In z (sel_exitset c (0 :: cfg') sel).
Proof.
  intros Hwf Hleg z. pose proof (wf_coreb_sound c Hwf) as W.
  pose proof (LegalOracle.legal_configb_sound c W _ Hleg) as [_ Hb].
  rewrite ces_union. unfold sel_exitset. rewrite In_fold_union. cbn [In]. split.
  - intros (t & Ht & Hz). apply in_map_iff in Ht as (ti & <- & Hti). right. exists ti. split; [exact Hti|].
    apply (exit_set_agrees_t late t0 hv (tr c ti) (0 :: cfg') (wf_targets_plain c (tr c ti) W) Hb).
    rewrite (compute_exit_set_root c cfg' (wf_root_par c W)). exact Hz.
  - intros [[]|(ti & Hti & Hz)]. exists (tr c ti). split; [now apply in_map|].
    rewrite <- (compute_exit_set_root c cfg' (wf_root_par c W)).
    now apply (exit_set_agrees_t late t0 hv (tr c ti) (0 :: cfg') (wf_targets_plain c (tr c ti) W) Hb).
Qed.

(* (c) the entry set: the states the engine enters (its entry set minus the surviving configuration) are
   the states of Appendix D's computeEntrySet, and no default history content is recorded *)
Lemma entry_set_conforms_lemma cfg sel h hist :
  wf_coreb c = true -> targets_antichainb c = true -> legal_configb c cfg = true ->
  (forall ti, In ti sel -> In (ft_source (tr c ti)) cfg) -> pairwise_ok lg_fixed c sel ->
  e_histcontent (compute_entry_set c h sel) = [] /\
  forall x, In x (e_enter (compute_entry_set c h sel)) <->
            In x (fst (entry_set lg_fixed c cfg (sel_exitset c cfg sel) hist (sel_targets c sel) sel)) /\
            ~ (In x cfg /\ ~ In x (sel_exitset c cfg sel)).
Proof.
  intros Hwf Hanti Hleg Hsrc Hok. pose proof (wf_coreb_sound c Hwf) as W.
  destruct (LegalOracle.legal_configb_sound c W _ Hleg) as [HL Hb].
  apply (entry_set_conforms_sec c W cfg sel h HL Hb Hsrc Hok).
  - intros ti g1 g2 _. now apply (targets_antichainb_sound c W Hanti).
  - intros ti _. symmetry. apply domain_agrees_t. now apply wf_targets_plain.
Qed.

Lemma microstep_conforms_lemma sel l s x :
  wf_coreb c = true -> par_nonemptyb c = true -> targets_antichainb c = true -> done_okb c = true -> root_silentb c = true ->
  legal_configb c (l_cfg l) = true -> corr c l s ->
  (forall ti, In ti sel -> In (ft_source (tr c ti)) (l_cfg l)) ->
  pairwise_ok lg_fixed c sel ->
  (forall ti, In ti sel -> ft_history (tr c ti) || ft_initial (tr c ti) = false) ->
  let r := microstep lg_fixed ex_fixed c l (emit TMsB x) (sel_targets c sel) (sel_exitset c (l_cfg l) sel) sel false in
  let q := spec_microstep c sel s x in
  corr c (fst r) (fst q) /\ snd q = emit (spec_cfg_tok c (fst q)) (snd r) /\ s_hv (fst q) = s_hv s.
Proof.
  intros Hwf Hpar Hanti Hfin Hsil Hleg Hcorr Hsrc Hok Hnp. pose proof (wf_coreb_sound c Hwf) as W.
  destruct (done_okb_sound c W Hfin) as [Hfp Hfu].
  apply (microstep_conforms_sec c W sel l s x Hcorr (LegalOracle.legal_configb_sound c W _ Hleg) Hsrc Hok Hnp).
  - intros ti g1 g2 _. now apply (targets_antichainb_sound c W Hanti).
  - apply flatten_has_body.
  - exact Hsil.
  - intros Hl i Hi. destruct late; [discriminate Hl|]. now apply flatten_early_data.
  - exact (par_nonemptyb_sound c Hpar).
  - exact Hfp.
  - exact Hfu.
  - intros ti _. symmetry. apply domain_agrees_t. now apply wf_targets_plain.
  - destruct Hcorr as (Hc & _). rewrite Hc in *. now apply exit_sets_agree.
Qed.

End Flat.

(* ------------------------------------------------------------------ what SELECT_TRANSITIONS guarantees about its result *)

Lemma pick_trans_np v c cfg ev sel ts : forall x ti x',
  pick_trans v c cfg ev sel ts x = (Some ti, x') -> ft_history (tr c ti) || ft_initial (tr c ti) = false.
Proof.
  induction ts as [|t r IH]; intros x ti x' H; cbn [pick_trans] in H; [discriminate|].
  destruct (ft_history (tr c t) || ft_initial (tr c t)) eqn:Hp; [now apply IH in H|].
  destruct (match ev with Some _ => ft_spontaneous (tr c t) | None => negb (ft_spontaneous (tr c t)) end); [now apply IH in H|].
  destruct (existsb _ sel); [now apply IH in H|].
  destruct (match ev with Some e => negb (name_match_impl nm_fixed (ft_event (tr c t)) (ev_name e)) | None => false end); [now apply IH in H|].
  destruct (ft_cond (tr c t)) as [cnd|].
  - destruct (is_true (inst_of c cfg) cnd x) as [b x1]. destruct b; [inversion H; subst; exact Hp | now apply IH in H].
  - inversion H; subst. exact Hp.
Qed.

Lemma select_loop_np v c cfg ev order : forall skip sel x,
  (forall ti, In ti sel -> ft_history (tr c ti) || ft_initial (tr c ti) = false) ->
  forall ti, In ti (fst (select_loop v c cfg ev order skip sel x)) -> ft_history (tr c ti) || ft_initial (tr c ti) = false.
Proof.
  induction order as [|s r IH]; intros skip sel x Hsel; cbn [select_loop]; [exact Hsel|].
  destruct (match skip with Some cur => match fs_parent (st c cur) with Some p => p =? s | None => false end | None => false end).
  - now apply IH.
  - destruct (pick_trans v c cfg ev sel (fs_trans (st c s)) x) as [o x'] eqn:E. destruct o as [ti|]; [|now apply IH].
    apply IH. intros t Ht. apply In_insert_sorted in Ht as [->|Ht]; [exact (pick_trans_np _ _ _ _ _ _ _ _ _ E) | now apply Hsel].
Qed.

Section Step.
Variable late : bool.
Variable t0 : tree.
Notation c := (flatten late t0).

(* one microstep with the transitions the engine itself selects *)
Lemma microstep_selected_conforms_lemma l s ev x0 x :
  wf_coreb c = true -> par_nonemptyb c = true -> targets_antichainb c = true -> done_okb c = true -> root_silentb c = true ->
  legal_configb c (l_cfg l) = true -> corr c l s ->
  let sel := fst (select_loop lg_fixed c (l_cfg l) ev (cfg_postfix c (l_cfg l)) None [] x0) in
  let r := microstep lg_fixed ex_fixed c l (emit TMsB x) (sel_targets c sel) (sel_exitset c (l_cfg l) sel) sel false in
  let q := spec_microstep c sel s x in
  corr c (fst r) (fst q) /\ snd q = emit (spec_cfg_tok c (fst q)) (snd r) /\ s_hv (fst q) = s_hv s.
Proof.
  intros Hwf Hpar Hanti Hfin Hsil Hleg Hcorr sel. pose proof (wf_coreb_sound c Hwf) as W.
  apply microstep_conforms_lemma; try assumption.
  - apply (select_loop_sources c W); [intros z; apply cfg_postfix_sub | intros ti []].
  - apply select_loop_pairwise. apply nil_pairwise.
  - apply select_loop_np. intros ti [].
Qed.

(* SELECT_TRANSITIONS + the microstep (Large.select_and_step) against selectTransitions + microstep of
   Appendix D: under the hypotheses of selection_conforms and of microstep_conforms both select the same
   transitions; if there are none the engine's configuration is unchanged, otherwise the microsteps end in
   corresponding states with the same trace (Appendix D appends the TCfg token) *)
Lemma step_conforms_lemma l s ev x :
  wf_coreb c = true -> fs_type (st c 0) = FCompound -> par_nonemptyb c = true -> root_unmentionedb c = true ->
  targets_antichainb c = true -> done_okb c = true -> root_silentb c = true ->
  legal_configb c (l_cfg l) = true -> ascb (l_cfg l) = true -> corr c l s ->
  unrelated_enabledb c (l_cfg l) ev x = true -> conds_pureb c (l_cfg l) x = true -> descs_okb c (l_cfg l) ev = true ->
  let r := select_and_step lg_fixed ex_fixed c l x ev in
  let en := fst (select_transitions c (s_cfg s) (s_hv s) ev x) in
  snd (select_transitions c (s_cfg s) (s_hv s) ev x) = x /\
  match en with
  | [] => l_cfg (fst (fst r)) = l_cfg l /\ snd (fst r) = x
  | _ => let q := spec_microstep c en s x in
         corr c (fst (fst r)) (fst q) /\ snd q = emit (spec_cfg_tok c (fst q)) (snd (fst r)) /\ s_hv (fst q) = s_hv s
  end.
Proof.
  intros Hwf Hroot Hpar Hun Hanti Hfin Hsil Hleg Hasc Hcorr H1 H2 H3.
  pose proof Hcorr as (Hc & _).
  pose proof (selection_conforms_spec_cfg_lemma late t0 (s_cfg s) ev x (s_hv s)) as Hsel. cbn zeta in Hsel.
  rewrite <- Hc in Hsel. specialize (Hsel Hwf Hroot Hpar Hun Hleg Hasc H1 H2 H3).
  pose proof (selection_conforms_flatten_lemma late t0 (l_cfg l) ev x (s_hv s) Hwf Hroot Hpar Hleg Hasc H1 H2 H3) as Hsel2.
  cbn zeta. unfold select_and_step. cbn zeta.
  change (l_cfg (upd_flags l (l_spont l) false)) with (l_cfg l).
  pose proof (microstep_selected_conforms_lemma (upd_flags l (l_spont l) false) s ev x x Hwf Hpar Hanti Hfin Hsil Hleg) as HM.
  cbn zeta in HM. change (l_cfg (upd_flags l (l_spont l) false)) with (l_cfg l) in HM.
  specialize (HM Hcorr).
  destruct (select_loop lg_fixed c (l_cfg l) ev (cfg_postfix c (l_cfg l)) None [] x) as [sel x1] eqn:E.
  rewrite <- Hsel. cbn [fst snd] in *.
  assert (Hx1 : x1 = x).
  { destruct (enabled_transitions_conform_lemma c (l_cfg l) ev x Hwf (trans_order_flatten late t0) Hpar Hleg Hasc H1 H2 H3) as (_ & Hg' & _).
    rewrite E in Hg'. now inversion Hg'. }
  subst x1. split; [reflexivity|].
  destruct sel as [|t r] eqn:Es; [split; reflexivity|]. rewrite <- Es in *.
  destruct (microstep lg_fixed ex_fixed c (upd_flags l (l_spont l) false) (emit TMsB x) _ _ sel false) as [l1 x2] eqn:Em.
  cbn [fst snd] in *. exact HM.
Qed.

End Step.
